"""C01 — encoding a message and decoding it returns the values that were encoded (and consumes the whole PDU)."""
import random

import codec_oracles as O
from odxgen import desc as D
from odxgen import gen as G
from odxgen import values as V

ID = "C01"
# LEAN_TARGETS / THEOREMS: filled in by the author of lean/OdxVerif/Model/Codec.lean + Props/C01.lean
# (planned: OdxVerif.Props.C01, theorems OdxVerif.Codec.C01_roundtrip[_partial], …)
LEAN_TARGETS = ['OdxVerif.Props.C01', 'OdxVerif.Props.C01Fields', 'OdxVerif.Props.C01Nested', 'OdxVerif.Props.C01Compu', 'OdxVerif.Props.C01DynLeaves',
                'OdxVerif.Props.C01Nested2', 'OdxVerif.Props.C01LengthKey']
DRIVERS = ["drv_codec"]
THEOREMS = ["OdxVerif.Codec." + t for t in ['C01_roundtrip_struct', 'C01_roundtrip_mux', 'C01_mux_default_key', 'MuxLeaf.sel_of_case', 'MuxLeaf.sel_of_default', 'MuxLeaf.encode_eq', 'MuxLeaf.decode_eq', 'C01_roundtrip_flat', 'C01_roundtrip_partial', 'C01_frame', 'tree_roundtrip', 'flat_core', 'Tree.encode_eq', 'Tree.decode_eq', 'Trees.good',
                                            # field tier (Props/C01Fields.lean, Proofs/FieldTier*.lean)
                                            'C01_roundtrip_fields', 'fitems_roundtrip_msg', 'gitems_roundtrip_msg', 'StaticLeaf.good', 'StaticLeaf.encode_eq',
                                            'StaticLeaf.decode_eq', 'DynLeaf.good', 'DynLeaf.encode_eq', 'DynLeaf.decode_eq', 'Good.padTo', 'Good.touch', 'Good.list',
                                            'Good.advancing',
                                            'C01_roundtrip_fields_eop', 'fitems_eop_roundtrip_msg', 'EopLeaf.encode_eq', 'EopLeaf.decode_eq', 'decodeToEnd_eq',
                                            'GItems.decPre_intro',
                                            # nested tier (Props/C01Nested.lean, Proofs/Comp*.lean): compositional components
                                            'C01_roundtrip_nested', 'described_roundtrip_msg', 'Described.ok', 'comps_roundtrip_msg',
                                            'comps_roundtrip_msg_pre', 'dcomp_roundtrip_msg', 'DComp.struct_ok', 'Comp.ofValue_ok',
                                            'Comp.ofObjValue_ok', 'Comp.ofObjConst_ok', 'Comp.ofGItem_ok', 'DComp.staticField_ok',
                                            'DComp.dynLenField_ok', 'DComp.eopField_ok', 'DComp.mux_ok', 'Comp.withDefault_ok',
                                            'Comp.ofObjDefault_ok', 'Comp.ofObjPhysConst_ok', 'Comps.encode_eq', 'Comps.decode_eq',
                                            'Comps.decPre_intro', 'exNested_described', 'C01_roundtrip_nested_pre', 'Comp.reserved_ok',
                                            'Comp.nrcConst_ok', 'Tree.toComp_ok', 'exNrc_ok', 'exNrc_pre',
                                                 'encodeParam_obj', 'decodeParam_obj', 'encodeParam_const_obj', 'decodeParam_const_obj',
                                                 'Obj.raw_decodes', 'Obj.canon_decodes']] + \
           ["OdxVerif.Text." + t for t in ['utf8_decode_encode', 'utf8_encode_decode', 'f32to64_f64to32', 'f64to32_f32to64',
                                           'utf16_decode_encode', 'utf16_encode_decode']] + \
           ["OdxVerif.Bits." + t for t in ['bcd_roundtrip', 'bcdEnc_digit']] + \
           ["OdxVerif.Codec." + t for t in ['C01_roundtrip_linear_leaf', 'C01_linear_leaf_encode', 'C01_linear_leaf_decode',
                                            'C01_compu_leaf_strict_encode', 'C01_compu_leaf_strict_decode']]
# leaves of input-dependent size (Props/C01DynLeaves.lean, Proofs/DynLeaf*.lean)
THEOREMS += ["OdxVerif.Codec." + t for t in [
    'C01_roundtrip_dynleaves', 'mitems_roundtrip_msg', 'findTerm_spec', 'findTerm_eq_some', 'findTerm_eq_none',
    'encodeDct_minmax', 'decodeDct_minmax', 'mm_byteLen', 'MMLeaf.toMid_ok', 'MMLeaf.gFull_ok', 'MMLeaf.gLast_ok',
    'encodeDct_leading', 'decodeDct_leading', 'LeadLeaf.toG_ok', 'Good.reDec', 'Good.thenRaw', 'Good.bytesAt',
    'Good.rawSkip', 'encodeParam_keeps_eop_false', 'k_encode_all']]
# nested tier, extension W11 (Props/C01Nested2.lean, Proofs/CompExt*.lean): the decoder's cursor, BYTE-SIZE structures, leaves of
# input-dependent size at any depth, MATCHING-REQUEST-PARAM, DYNAMIC-ENDMARKER-FIELD
THEOREMS += ["OdxVerif.Codec." + t for t in [
    'C01_roundtrip_nested_consumes', 'C01_roundtrip_nested_whole', 'C01_roundtrip_nested2', 'C01_roundtrip_nested2_whole',
    'C01_roundtrip_bytesize', 'C01_bytesize_too_long_rejected', 'C01_bytesize_accepted_fits', 'C01_roundtrip_nested2_of_described', 'Described.to2', 'Described2.ok', 'DescribedTop.ok', 'mcomps_roundtrip_msg_cur', 'roundtrip_msg_core',
    'dcomp_roundtrip_msg_cur', 'comps_roundtrip_msg_cur', 'comps_roundtrip_msg_pre_cur',
    'Good.sized', 'bsPad_frame', 'DComp.withByteSize_okM', 'DComp.withByteSize_ok', 'DComp.structBS_ok', 'DComp.structOM_okM',
    'DComp.structOM_ok',
    'MComps.encode_eq', 'DComp.structM_encode_eq', 'DComp.structM_okM', 'DComp.structM_ok', 'Comp.ofMItem_ok', 'Comp.ofMinMaxMid_ok',
    'Comp.ofMinMaxFull_ok', 'Comp.ofMinMaxLast_ok', 'Comp.ofLeading_ok', 'ModelInv.top',
    'encodeParam_keeps_trig', 'kt_encode_all', 'encodeParam_keeps_usedCovers', 'ku_encode_all',
    'Good.rawAt', 'Comp.matchingReq_ok',
    'encodeDop_std_cursorBit', 'Good.peek', 'emProbe_miss', 'emProbe_hit', 'decodeUntilMarkerC_eq', 'DComp.endMarkerEop_ok',
    'DComp.endMarkerMid_ok', 'Comp.ofValueM_ok', 'EmLayout.miss_of_first', 'EmLayout.miss_withByteSize',
    'encodeDop_keeps_eop_false', 'encodeStaticItemsM_eq', 'decodeStaticItemsM_eq', 'DComp.staticFieldM_ok', 'DComp.mux_okM', 'encodeItemsM_eq', 'DComp.dynLenFieldM_okM', 'DComp.eopFieldM_ok',
    'ex2_described', 'ex2St_described', 'ex2Tail_described', 'ex3_described', 'ex4_described', 'ex5_described', 'ex6_described']]
# LENGTH-KEY tier: the two-pass encoder (Props/C01LengthKey.lean, Proofs/CompKey*.lean)
THEOREMS += ["OdxVerif.Codec." + t for t in [
    'C01_roundtrip_lengthkey', 'kitems_roundtrip_msg', 'KItems.encode1', 'KItems.encode2', 'KItems.decode_eq',
    'KItems.decPre_intro', 'KItems.good', 'enc2_cells', 'enc2_frame', 'Good.hole', 'encodeKeyPlaceholder_none',
    'encodeKeyPlaceholder_some', 'encodeDop_key', 'decodeParam_key', 'PLUser.encodeParam_eq', 'PLUser.decodeParam_eq',
    'PLUser.good', 'Obj.encodeParam_pl', 'Obj.decodeParam_pl', 'encKeeps', 'decKeeps', 'Comp.keyFree_of_noKeys',
    'Comp.KOk.ofKeyFree', 'Comp.kstruct_kok', 'KItems.goodS', 'KItems.dec_consistent', 'Comp.ofObjValue_keyFree',
    'Comp.ofObjConst_keyFree', 'KeyDop.identical', 'KeyDop.linear', 'KeyDop.placeholder_none', 'KeyDop.placeholder_some',
    'KeyDop.decodeParam_eq', 'lkExKeyItems_ok', 'lkExKeyItems_side', 'lkExStruct_ok', 'lkExNestItems_ok', 'lkExNestItems_side',
    'lkExKeyB_keyDop', 'lkExByteItems_ok', 'lkExByteItems_side', 'C01_lengthkey_shadow_counterexample']]
RULE = ("well-formed descriptions (envelope wf of DESIGN §6/C01, by construction in harness/odxgen/gen.py) x canonical values "
        "(odxgen/values.py): corpus of past failures; every BYTE-SIZE structure size x offset; every (integer type, encoding, byte order, "
        "bit length, bit position) standard-length DOP with boundary values; floats/strings/byte fields x encodings x byte orders; random "
        "composites (nesting <= 3 quick / <= 5 thorough, <= 4 units per composite, 30 % explicit BYTE-POSITION incl. permuted/gapped layouts and "
        "bit-packed groups, 30 % BYTE-SIZE, 20 % end-of-PDU objects; mux cases / text-table scales in shuffled declaration order, default case "
        "selected by name / None / free key, static fields with items of input-dependent size, length keys behind signed / LINEAR DOPs); "
        "every declaration order of 2-3 mux cases x every way of selecting a case; layer level: generated layers of 2-4 services sharing "
        "negative / positive / global negative responses, every own encoding (DiagService.encode_request, Response.encode with the coded "
        "request) decoded by DiagService.decode_message, DiagLayer.decode and DiagLayer.decode_response and attributed to (service, coding "
        "object) with exactly the encoded values. distinct = distinct (description, value, trigger); non-trivial = the "
        "encoder accepted and the PDU has more than one byte; family compu-grid (correspondence only, strict and non-strict mode, "
        "harness/compu_grid.py): LINEAR x {coded types, physical types incl. real, negative / zero denominator, zero slope, OPEN limits}, ambiguous "
        "/ empty TEXTTABLE scales, DTC-DOPs with LINEAR and duplicate codes, LENGTH-KEYs behind LINEAR DOPs with limits x right and wrong values "
        "and PDUs - every 5th description per quick run, all in the thorough tier")
TRUSTED = ["direct oracle harness/codec_oracles.py: decode(encode(v)) == complete(v) with `complete` (odxgen/values.py) written from the ODX "
           "semantics, not from the odxtools source; compu conversions are emulated exactly over Fraction",
           "descriptions are loaded through the real XML loader (Database._process_xml_tree + refresh)"]
ASSUMPTIONS = ["'the encoder accepts' = encode returns without exception; on well-formed (overlap-free) descriptions an OdxWarning does not "
               "excuse a failing round trip, on deliberately overlapping descriptions it does",
               "'consumes the whole PDU' = the highest cursor position reached while decoding equals len(PDU) (explicitly positioned "
               "parameters may be listed out of order, so the final cursor is not the criterion)",
               "SYSTEM parameters always get an explicit value; DYNAMIC and TABLE-ENTRY parameters are unimplemented in odxtools and excluded",
               "LINEAR compu methods are generated with |num0 + num1*x| < 2^53 (float rounding is outside the property)",
               "length/table keys are not generated inside repeated field items (EncodeState.length_keys is global per PDU; odxtools rejects "
               "differing values, which is an encoder rejection, not a round-trip failure)"]


# --- tie of kind (1) (task W15): Gen/MuxDefaultKey.lean is regenerated from Multiplexer._get_default_case_key of the current source by
# the Python->Lean translator and proved equal to the hand-written defaultCaseKey (Proofs/MuxDefaultKeyGenEq.lean)
LEAN_TARGETS = LEAN_TARGETS + ["OdxVerif.Props.C01Gen"]
THEOREMS = THEOREMS + ["OdxVerif.Codec." + t for t in ["gen_defaultCaseKey_eq", "sortedIntPair_eq_foldl", "C01_gen_mux_default_key"]]
TRUSTED = TRUSTED + ["translator harness/extract/py2lean.py + primitives lean/OdxVerif/Model/PyRt.lean for Multiplexer._get_default_case_key "
                     "(self.cases / self._get_case_limits(x) are an abstract record interface of the rendering: the model's case list with "
                     "integer limits; sorted() of integer pairs = Py.sortedIntPair, lexicographic)"]


def regen_mux_default_key(ctx):
    """Gen/MuxDefaultKey.lean from the current source; Unsupported (source left the translator's subset) = broken obligation"""
    import common
    from extract import py2lean
    py2lean.regenerate_muxkey(common.REPO, common.VERIF)


GENERATORS = list(globals().get("GENERATORS", [])) + [regen_mux_default_key]


# ------------------------------------------------------------------ corpus (defects of the pinned commit, minimised)
def corpus():
    u8, val, C = D.u8, D.value, D.Composite
    out = []
    # ledger row 3: BYTE-SIZE structure at offset > 0
    s1 = D.Struct([val("a", u8())], bytesize=3)
    out.append(("byte-size-struct-offset", C("RQ", "request", [D.sid(), val("x", u8()), val("s", s1), val("y", u8())]),
                {"x": 1, "s": {"a": 2}, "y": 3}, None))
    s2 = D.Struct([val("h", u8()), val("in_", D.Struct([val("a", u8(16))], bytesize=4))], bytesize=6)
    out.append(("byte-size-struct-nested", C("RQ", "request", [val("x", u8(16)), val("s", s2), val("y", u8())]),
                {"x": 0x1122, "s": {"h": 1, "in_": {"a": 0x3344}}, "y": 5}, None))
    # ledger row 4: static TABLE-ROW-REF key
    t = D.Table(u8(), [D.TableRow("r1", 1, struct=D.Struct([val("a", u8())])), D.TableRow("r2", 2, dop=u8(16))])
    out.append(("static-table-row", C("RQ", "request", [D.sid(), D.table_key("tk", t, row="r2"), D.table_struct("ts", "tk")]),
                {"ts": ("r2", 0x1234)}, None))
    out.append(("table-key-dynamic", C("RQ", "request", [D.sid(), D.table_key("tk", t), D.table_struct("ts", "tk"), val("z", u8())]),
                {"ts": ("r1", {"a": 7}), "z": 9}, None))
    # found by this check: a LENGTH-KEY / TABLE-KEY inside a nested structure leaves the cursor behind the key
    lk = D.Struct([D.length_key("k", u8()), val("b", D.SimpleDop(D.ParamLen("A_BYTEFIELD", "k"), "A_BYTEFIELD"))])
    out.append(("length-key-in-nested-struct", C("RQ", "request", [D.sid(), val("s", lk), val("y", u8())]),
                {"s": {"b": b"\x01\x02\x03"}, "y": 0xEE}, None))
    tk = D.Struct([D.table_key("tk", t), D.table_struct("ts", "tk")])
    out.append(("table-key-in-nested-struct", C("RQ", "request", [D.sid(), val("s", tk), val("y", u8())]),
                {"s": {"ts": ("r2", 0x1234)}, "y": 0xEE}, None))
    # found by this check: BIT-MASK on a low-high object encodes nothing
    out.append(("bit-mask-low-high", C("RQ", "request", [D.sid(), val("x", D.SimpleDop(D.Std("A_UINT32", 16, None, False, mask=0x00FF), "A_UINT32"))]),
                {"x": 0xAB}, None))
    out.append(("bit-mask-low-high-bitpos", C("RQ", "request", [D.sid(), val("x", D.SimpleDop(D.Std("A_UINT32", 12, None, False, mask=0x00F), "A_UINT32"), bitpos=5)]),
                {"x": 0xA}, None))
    # found by this check: multiplexer case without structure, content position behind the switch key
    mux = D.Mux(2, 0, None, u8(), [D.MuxCase("c1", 1, 1, None), D.MuxCase("c2", 2, 2, D.Struct([val("a", u8())]))])
    out.append(("mux-structureless-case-gap", C("RQ", "request", [D.sid(), val("m", mux), val("y", u8())]),
                {"m": ("c1", {}), "y": 0x77}, None))
    # found in round 3: last item of a static field at the end of the PDU: terminator omitted, then padded to ITEM-BYTE-SIZE
    mm = D.SimpleDop(D.MinMax("A_ASCIISTRING", 0, 3, "HEX-FF"), "A_ASCIISTRING")
    out.append(("static-field-last-item-end-of-pdu", C("RQ", "request", [D.sid(), val("f", D.StaticField(2, 5, D.Struct([val("n", u8()), val("s", mm)])))]),
                {"f": [{"n": 1, "s": "ab"}, {"n": 2, "s": "c"}]}, None))
    # response with request echo
    out.append(("matching-request", C("PR", "pos-response", [D.sid(0x62), D.matching_request("echo", 1, 2), val("v", u8(16, hl=False))]),
                {"v": 0x1234}, bytes.fromhex("22f190")))
    return out


# ------------------------------------------------------------------ helpers
def batches(it, n):
    buf = []
    for x in it:
        buf.append(x)
        if len(buf) == n:
            yield buf
            buf = []
    if buf:
        yield buf


def run_doc(ctx, rep, corr, comps, family, rng, n_values, values_of=None, wf=True):
    """load a document with several composites; run n_values cases on each"""
    L, err = O.safe_load(comps)
    if L is None:
        # fall back to one document per composite to isolate the offender
        if len(comps) > 1:
            for c in comps:
                run_doc(ctx, rep, corr, [c], family, rng, n_values, values_of, wf)
            return
        ctx.count("documents_rejected_by_loader")
        ctx.count("loader:" + err.split(":")[0])
        ctx.sample({"rejected": err, "sexp": O.sexp.composite(comps[0])[:300]}, limit=14)
        return
    ctx.count("documents_loaded")
    for c in comps:
        obj = L[c.name]
        O.record_features(ctx, c)
        ctx.histo("family", family)
        vals = values_of(c) if values_of else None
        first = None
        for k in range(len(vals) if vals is not None else n_values):
            try:
                if vals is not None:
                    v, trig = vals[k], V.gen_trigger(rng, c)
                else:
                    v, trig = V.gen_value(rng, c), V.gen_trigger(rng, c)
            except V.Unsupported:
                ctx.count("value_generation_unsupported")
                continue
            except Exception as e:  # noqa
                ctx.count("value_generation_error:" + type(e).__name__)
                continue
            enc = O.c01_check(ctx, rep, corr, c, obj, v, trig, family, wf=wf)
            if first is None and enc.ok:
                first = (v, trig, enc.pdu)
        # history independence: the first assignment encoded again AFTER the others, on the same objects, must give
        # the same PDU and decode to the same values (no state may leak between calls)
        if first is not None:
            v, trig, pdu = first
            again = O.impl_encode(obj, v, trig)
            ctx.count("c01_history_reencode")
            if not again.ok or again.pdu != pdu:
                rep.report("history-independent", "encode-depends-on-earlier-calls", c, v, trig,
                           {"first": pdu.hex(), "again": again.pdu.hex() if again.ok else again.status})
            else:
                d1, d2 = O.impl_decode(obj, pdu), O.impl_decode(obj, pdu)
                if d1.ok != d2.ok or (d1.ok and V.norm(d1.value) != V.norm(d2.value)):
                    rep.report("history-independent", "decode-depends-on-earlier-calls", c, v, trig, {"pdu": pdu.hex()})
        # (round 9) "every ACCEPTED value": the first assignment with one integer member replaced by the values at and just outside the
        # limits of its coded type (IDENTICAL compu method, no BIT-MASK: nothing but the representation decides). A rejected value is
        # outside the property; an accepted one has to come back -- and the model must agree on which ones are accepted.
        if first is not None and vals is None and isinstance(first[0], dict):
            import malformed as M
            v, trig, _ = first
            cands = [p for p in c.params if p.type == "value" and isinstance(p.dop, D.SimpleDop) and isinstance(p.dop.dct, D.Std)
                     and p.dop.dct.mask is None and p.dop.phys in ("A_INT32", "A_UINT32") and p.dop.dct.bt in ("A_INT32", "A_UINT32")
                     and isinstance(p.dop.compu, D.Identical) and isinstance(v.get(p.name), int)
                     and not getattr(p, "meta", None) and wf]       # (not the overlay of an NRC-CONST / a member of a bit-field group)
            for p in cands[:2]:
                bounds = M._int_bounds(p.dop)
                n = p.dop.dct.bitlen
                must = [x for x in bounds if abs(abs(x) - (1 << (n - 1))) <= 1 or abs(abs(x) - (1 << n)) <= 1]
                for x in (must + rng.sample(bounds, min(3, len(bounds))))[:9]:
                    ctx.histo("family", family + "(int-boundary)")
                    O.c01_check(ctx, rep, corr, c, obj, {**v, p.name: x}, trig, family, wf=wf)


def overlapping_variant(rng, c):
    """force two objects of a well-formed composite onto the same bytes (separate 'overlap' family)"""
    import copy
    c = copy.deepcopy(c)
    if c.bytesize is not None or any(p.type == "reserved" for p, _ in D.walk_params(c.params)):
        return None      # (a moved object may outgrow BYTE-SIZE; RESERVED claims nothing, so its overlap is never reported)
    cands = [p for p in c.params if G.param_extent(p) and p.type not in ("reserved", "nrc-const")]
    if len(cands) < 2:
        return None
    lay = G.natural_layout(c.params)
    a, b = rng.sample([i for i, p in enumerate(c.params) if p in cands], 2)
    if lay[a][0] is None or lay[b][0] is None:
        return None
    c.params[b].bytepos = lay[a][0]
    return c


# ------------------------------------------------------------------ layer level: DiagService.encode_request / DiagLayer.decode
def _guard(f, timeout=5):
    """(status, result | message): every call into odxtools is wrapped (exceptions and hangs become data)"""
    import signal
    import warnings
    old = signal.signal(signal.SIGALRM, O._alarm)
    signal.alarm(timeout)
    try:
        with warnings.catch_warnings():
            warnings.simplefilter("ignore")
            return "ok", f()
    except O.Hang:
        return "hang", "no result within %d s" % timeout
    except Exception as e:  # noqa
        return O.err_class(e), str(e)[:200]
    finally:
        signal.alarm(0)
        signal.signal(signal.SIGALRM, old)


def _attributed(msgs, svc_obj, cod_obj, exp):
    """is there a message attributed to (service, coding object) that carries exactly the expected values?"""
    seen = []
    for m in msgs:
        same = m.service is svc_obj and m.coding_object is cod_obj
        seen.append([getattr(m.service, "short_name", "?"), getattr(m.coding_object, "short_name", "?")])
        if same and V.norm(m.param_dict) == V.norm(exp):
            return True, seen
    return False, seen


def layer_eval(layer, L, svc, rq_value, resp_name=None, resp_value=None):
    """the round-trip statement at the observation points DiagService.encode_request / DiagService.decode_message /
    DiagLayer.decode / DiagLayer.decode_response for one service (and one of its responses).
    Returns (list of failures (clause, observed, entry, composite name, detail), request pdu | None, response pdu | None)"""
    fails = []
    s = L.services[svc.name]
    rq = layer.comp(svc.request)
    st, req = _guard(lambda: bytes(s.encode_request(**V.to_impl(rq_value))))
    if st != "ok":
        return fails, None, None
    try:
        exp = V.complete(rq, rq_value, None)
    except V.Unsupported:
        exp = None

    def check(entry, comp, cod_obj, pdu, exp, call, single=False):
        st, r = _guard(call)
        if st != "ok":
            fails.append(("decodes-back", st, entry, comp.name, {"pdu": pdu.hex(), "error": r}))
            return
        ok, seen = _attributed([r] if single else list(r), s, cod_obj, exp)
        if not ok:
            got = [V.jsonable(m.param_dict) for m in ([r] if single else list(r)) if m.service is s and m.coding_object is cod_obj]
            fails.append(("returns-encoded-values", "not-attributed" if not got else "mismatch", entry, comp.name,
                          {"pdu": pdu.hex(), "interpretations": seen, "decoded": got[:1], "expected": V.jsonable(exp)}))

    if exp is not None:
        check("DiagService.decode_message", rq, L[rq.name], req, exp, lambda: s.decode_message(req), single=True)
        check("DiagLayer.decode", rq, L[rq.name], req, exp, lambda: L.dl.decode(req))
    if resp_name is None:
        return fails, req, None
    rc = layer.comp(resp_name)
    robj = L[rc.name]
    st, pdu = _guard(lambda: bytes(robj.encode(coded_request=req, **V.to_impl(resp_value))))
    if st != "ok":
        return fails, req, None
    try:
        rexp = V.complete(rc, resp_value, req)
    except V.Unsupported:
        return fails, req, pdu
    if rc.kind != "global-neg-response":
        check("DiagService.decode_message", rc, robj, pdu, rexp, lambda: s.decode_message(pdu), single=True)
    check("DiagLayer.decode_response", rc, robj, pdu, rexp, lambda: L.dl.decode_response(pdu, req))
    check("DiagLayer.decode", rc, robj, pdu, rexp, lambda: L.dl.decode(pdu))
    return fails, req, pdu


def layer_witness(layer, svc, rq_value, resp_name, resp_value, detail):
    w = {"layer": D.to_json(layer), "service": svc.name, "request_value": V.jsonable(rq_value)}
    if resp_name is not None:
        w["response"] = resp_name
        w["response_value"] = V.jsonable(resp_value)
    w.update(detail)
    return w


def layer_family(ctx, rep, corr, rng, n_layers, n_values):
    seen = set()
    for i in range(n_layers):
        try:
            layer = G.gen_layer(rng, G.QUICK if i % 3 else G.SIMPLE)
        except Exception as e:  # noqa
            ctx.count("generator_error:" + type(e).__name__)
            continue
        st, L = _guard(lambda: __import__("odxgen.xmlgen", fromlist=["load_layer"]).load_layer(layer), timeout=20)
        if st != "ok":
            ctx.count("layers_rejected_by_loader")
            ctx.count("loader:" + st)
            ctx.sample({"rejected-layer": L}, limit=6)
            continue
        ctx.count("layers_loaded")
        ctx.histo("layer_services", len(layer.services))
        for c in layer.composites:
            O.record_features(ctx, c)
            ctx.histo("family", "layer-roundtrip")
            ctx.histo("layer_sharing", f"{c.kind}:{min(len(layer.users(c.name)), 3)}" if c.kind != "global-neg-response" else "global")
        for svc in layer.services:
            rq = layer.comp(svc.request)
            # a global negative response is attributed unambiguously only where no NEG-RESPONSE of the service has the same shape
            resp_names = svc.pos + svc.neg + (layer.gneg if not svc.neg else [])
            for k in range(n_values):
                try:
                    rq_value = V.gen_value(rng, rq)
                except Exception:  # noqa
                    ctx.count("value_generation_unsupported")
                    continue
                plan = [(None, None)] if not resp_names else []
                for rn in resp_names:
                    try:
                        plan.append((rn, V.gen_value(rng, layer.comp(rn))))
                    except Exception:  # noqa
                        ctx.count("value_generation_unsupported")
                for rn, rv in plan:
                    fails, req, pdu = layer_eval(layer, L, svc, rq_value, rn, rv)
                    ctx.case(("layer", O.sexp.composite(rq), O.sexp.pval(rq_value), rn and O.sexp.composite(layer.comp(rn)), rn and O.sexp.pval(rv)),
                             nontrivial=req is not None and (rn is None or pdu is not None))
                    ctx.count("c01_layer_" + ("encoder-rejected" if req is None or (rn is not None and pdu is None) else "fails" if fails else "roundtrips"))
                    if corr is not None and req is not None:
                        # the same encodings at object level: correspondence with the model (request, then response with the request as trigger)
                        if rn is None or k == 0:
                            O.c01_check(ctx, rep, corr, rq, L[rq.name], rq_value, None, "layer-roundtrip")
                        if rn is not None:
                            O.c01_check(ctx, rep, corr, layer.comp(rn), L[rn], rv, req, "layer-roundtrip")
                    for clause, observed, entry, cname, detail in fails:
                        c = layer.comp(cname)
                        feats = ["layer", entry, c.kind] + (["shared-by-services"] if len(layer.users(cname)) > 1 else [])
                        key = (clause, observed, tuple(feats))
                        if key in seen:
                            ctx.count(f"violations_duplicate[{clause}/{observed}]")
                            continue
                        seen.add(key)
                        ctx.violate(clause, feats, observed, layer_witness(layer, svc, rq_value, rn, rv, {**detail, "entry": entry, "object": cname}),
                                    f"{clause}: {observed} at {entry} for {c.kind} {cname} of service {svc.name} "
                                    f"(used by {len(layer.users(cname))} service(s)) on its own encoding {detail.get('pdu')}")


def finding_corpus():
    """witnesses of recorded (open) findings, each with its fixed signature: (tag, composite, value, trigger, what)"""
    out = []
    # found while proving the nested tier (W8): the echo of a MATCHING-REQUEST-PARAM is decoded as ONE unsigned integer
    out.append(("matching-request-param-longer-than-8-bytes",
                D.Composite("PR", "pos-response", [D.sid(0x62), D.matching_request("echo", 0, 9)]), {}, bytes(range(1, 11)),
                "a MATCHING-REQUEST-PARAM with BYTE-LENGTH > 8 is accepted by the encoder (the request bytes are copied) but can never be decoded: "
                "the decoder extracts 8*BYTE-LENGTH bits as a single A_UINT32 ('Integer objects cannot be longer than 64 bits')"))
    # found while proving findTerm_spec / mm_byteLen (W10): the two-byte terminator straddles the search bound orig + MAX-LENGTH
    mm = D.MinMax("A_UNICODE2STRING", 0, 3, "ZERO")
    out.append(("minmax-unicode2-odd-max-length",
                D.Composite("RQ", "request", [D.sid(), D.value("s", D.SimpleDop(mm, "A_UNICODE2STRING")), D.value("y", D.u8())]),
                {"s": "a", "y": 0x77}, None,
                "MIN-MAX-LENGTH A_UNICODE2STRING with an odd MAX-LENGTH: a value of MAX-LENGTH - 1 bytes is written with its two-byte terminator, "
                "which straddles the decoder's search bound orig + MAX-LENGTH, so the decoder reads MAX-LENGTH bytes and fails (DecodeError)"))
    # forced by the proof of DComp.withByteSize_ok (W11): the encoder never checked that the content fits into BYTE-SIZE
    # (fixed, W16: fixes/c01-byte-size-structure-content-too-long.patch - the witness is an EncodeError now)
    mmz = D.SimpleDop(D.MinMax("A_BYTEFIELD", 0, 8, "ZERO"), "A_BYTEFIELD")
    out.append(("byte-size-structure-content-too-long",
                D.Composite("RQ", "request", [D.sid(), D.value("st", D.Struct([D.value("s", mmz)], bytesize=3)), D.value("y", D.u8())]),
                {"st": {"s": bytes([1, 2, 3])}, "y": 0x77}, None,
                "a STRUCTURE with BYTE-SIZE whose content (here a terminated MIN-MAX byte field) is longer than BYTE-SIZE is encoded without any check "
                "(22 01 02 03 00 77), the decoder rejects the PDU ('Attempted to decode too large instance of structure')"))
    # forced by the proof of C01_roundtrip_lengthkey (W13, hypothesis `apart`): length_keys / key_pos are keyed by SHORT-NAME for the whole PDU
    k4 = lambda bp: D.length_key("len", D.u8(4), bitpos=bp)
    pl = lambda: D.SimpleDop(D.ParamLen("A_BYTEFIELD", "len"), "A_BYTEFIELD")
    out.append(("length-key-same-short-name-nested",
                D.Composite("RQ", "request", [D.sid(0x2E), k4(4), D.value("st", D.Struct([k4(0), D.value("data", pl())])), D.value("d1", pl()), D.value("y", D.u8())]),
                {"st": {"data": bytes([1])}, "d1": bytes([0xAA]), "y": 0x77}, None,
                "a nested structure with a LENGTH-KEY of the same short name as a key of the enclosing request overwrites the outer key's recorded "
                "position: 2e 00 88 01 aa 77 is produced without a warning and decodes to an outer key of 0 (expected 8)"))
    return out


def run(ctx):
    big = ctx.tier == "thorough"
    rng = ctx.rng
    rep = O.Reporter(ctx)
    corr = O.Correspondence(ctx)
    for tag, c, v, trig, what in finding_corpus():
        L, err = O.safe_load(c)
        if L is None:
            ctx.violate("loads", [tag], err.split(":")[0], O.witness(c, v, trig), f"corpus description {tag} is rejected by the loader: {err}")
            continue
        ctx.histo("family", "finding-corpus")
        O.c01_check(ctx, rep, None, c, L[c.name], v, trig, "finding-corpus", fixed_features=[tag], what=what)
    # (a) corpus
    for tag, c, v, trig in corpus():
        L, err = O.safe_load(c)
        if L is None:
            ctx.violate("loads", [tag], err.split(":")[0], O.witness(c, v, trig), f"corpus description {tag} is rejected by the loader: {err}")
            continue
        O.record_features(ctx, c)
        ctx.histo("family", "corpus")
        O.c01_check(ctx, rep, corr, c, L[c.name], v, trig, "corpus")
    # (b) every BYTE-SIZE structure size x offset
    for comps in batches(G.enum_struct_offsets(), 24):
        run_doc(ctx, rep, corr, comps, "enum-struct-offsets", rng, 2)
    # (c) every standard-length integer DOP (type x encoding x byte order x bit length x bit position)
    bitlens = range(1, 65) if big else sorted(set(V.BIAS_LENGTHS + [2, 3, 4, 5, 12, 13, 24, 40, 48, 56] + rng.sample(range(1, 65), 6)))
    vrng = ctx.sub_rng("enum")
    for comps in batches(G.enum_std_numeric(bitlens), 64):
        run_doc(ctx, rep, corr, comps, "enum-std-integer", rng, 0,
                values_of=lambda c: [{"x": x, "y": 0xA5} for x in V.boundary_values(vrng, c.params[1].dop, 2 if not big else 4, 10 if not big else 16)])
    for comps in batches(G.enum_std_other((0, 3) if not big else (0, 1, 3, 7)), 48):
        run_doc(ctx, rep, corr, comps, "enum-std-float-string-bytes", rng, 0,
                values_of=lambda c: [{"x": x, "y": 0x5A} for x in V.boundary_values(vrng, c.params[1].dop, limit=6 if not big else 14)])
    # (c') multiplexers: every declaration order of the cases x every way of selecting a case (name, key, default by name / None)
    for comps in batches(G.enum_mux_orders(), 32):
        run_doc(ctx, rep, corr, comps, "enum-mux-orders", rng, 0, values_of=lambda c: G.enum_mux_values(vrng, c))
    # (c'') BYTE-SIZE structures with explicitly positioned members in every listing order; terminated MIN-MAX objects with values
    #       around the termination sequence
    CURSOR = "nested-structure-cursor-behind-last-listed-parameter"
    cursor_what = ("a parameter without BYTE-POSITION that follows a nested STRUCTURE whose member listed last is not the one that ends last is placed "
                   "behind that member, i.e. into the structure (overlap warning, the member behind it is overwritten): same root cause as the "
                   "open C08 finding of that name")
    for fam, it in (("enum-struct-layout-orders", G.enum_struct_layout_orders()), ("enum-minmax-terminated", ((c, v, False) for c, v in G.enum_minmax_terminated())),
                    ("enum-masked-holes", ((c, v, False) for c, v in G.enum_masked_holes())), ("enum-field-layouts", ((c, v, False) for c, v in G.enum_field_layouts())),
                    ("enum-after-complex", ((c, v, False) for c, v in G.enum_after_complex()))):
        fixed, comps, flagged = {}, [], set()
        for c, v, issue in it:
            if c.name not in fixed:
                comps.append(c)
            fixed.setdefault(c.name, []).append(v)
            if issue:
                flagged.add(c.name)
        for cs in batches(iter([c for c in comps if c.name not in flagged]), 24):
            run_doc(ctx, rep, corr, cs, fam, rng, 0, values_of=lambda c, fixed=fixed: fixed[c.name])
        for c in comps:
            if c.name in flagged:
                L, err = O.safe_load([c])
                if L is None:
                    ctx.count("documents_rejected_by_loader")
                    continue
                ctx.histo("family", fam + "(cursor)")
                for v in fixed[c.name]:
                    O.c01_check(ctx, rep, corr, c, L[c.name], v, None, fam, fixed_features=[CURSOR], what=cursor_what)
    corr.flush()
    # (d) random well-formed composites
    n_docs = 40000 if big else 3200
    for i in range(n_docs):
        prof = (G.THOROUGH if big else G.QUICK) if i % 4 else (G.SIMPLE_DEEP if big else G.SIMPLE)
        try:
            c = G.gen_composite(rng, profile=prof, name="C")
        except Exception as e:  # noqa
            ctx.count("generator_error:" + type(e).__name__)
            continue
        run_doc(ctx, rep, corr, [c], "random-" + prof.tier, rng, 5)
        if i % 500 == 499:
            corr.flush()
    corr.flush()
    # (e) deliberately overlapping descriptions: whatever the encoder accepts *without warning* must round-trip
    for i in range(3000 if big else 300):
        try:
            c = overlapping_variant(rng, G.gen_composite(rng, profile=G.SIMPLE, name="C"))
        except Exception:  # noqa
            c = None
        if c is not None:
            run_doc(ctx, rep, None, [c], "overlap", rng, 2, wf=False)
    corr.flush()
    # (f) layer level: services sharing responses, every own encoding decoded by its service and by the layer
    layer_family(ctx, rep, corr, ctx.sub_rng("layers"), 1500 if big else 160, 3 if big else 2)
    corr.flush()
    # (g) correspondence only, both modes: compu methods / DTC-DOPs / LINEAR length keys in corners the generators do not reach
    import compu_grid
    compu_grid.run_family(ctx, corr, stride=1 if big else 5, offset=ctx.rng.randrange(5))


def replay(ctx, data):
    w = data["witness"]
    if "layer" in w:
        from odxgen.xmlgen import load_layer
        layer = D.from_json(w["layer"])
        st, L = _guard(lambda: load_layer(layer), timeout=20)
        if st != "ok":
            return False
        # the services are walked in declaration order, as in the run (state kept by the coding objects matters)
        for svc in layer.services:
            if svc.name == w["service"]:
                fails, _, _ = layer_eval(layer, L, svc, V.from_jsonable(w["request_value"]), w.get("response"), V.from_jsonable(w.get("response_value")))
                return not fails
            rq = layer.comp(svc.request)
            for rn in [None] + svc.pos + svc.neg:
                try:
                    r = random.Random(0)
                    layer_eval(layer, L, svc, V.gen_value(r, rq), rn, V.gen_value(r, layer.comp(rn)) if rn else None)
                except Exception:  # noqa
                    pass
        return False
    c = D.from_json(w["desc"])
    L, err = O.safe_load(c)
    if L is None:
        return False
    v = V.from_jsonable(w.get("value"))
    trig = bytes.fromhex(w["trig"]) if w.get("trig") else None
    r, enc, dec = O.c01_eval(c, L[c.name], v, trig)
    return r is None


# nested tier, extension W21 (Props/C01Nested3.lean, Proofs/CompCompu*.lean): compu-method leaves (LINEAR, TEXTTABLE, DTC-DOP) as
# components at any depth of structures / fields / multiplexers
LEAN_TARGETS += ['OdxVerif.Props.C01Nested3']
THEOREMS += ["OdxVerif.Codec." + t for t in [
    'C01_roundtrip_nested3', 'C01_roundtrip_nested3_whole', 'C01_roundtrip_bytesize3', 'C01_roundtrip_nested3_of_described2',
    'C01_linear_leaf_ok', 'Described3.ok', 'DescribedTop3.ok', 'Described2.to3', 'DescribedTop.to3',
    'encodeDct_obj', 'decodeDct_obj', 'Comp.ofConvLeaf_ok', 'Comp.ofConvLeaf_endOk', 'Comp.ofConvPhysConst_ok',
    'LinLeaf.convOk', 'LinLeaf.comp_ok', 'LinLeaf.constComp_ok', 'TTLeaf.convOk', 'TTLeaf.comp_ok', 'TTLeaf.constComp_ok',
    'DtcLeaf.convOk', 'DtcLeaf.comp_ok', 'DtcLeaf.constComp_ok', 'methodP2I_textTable_of_p2i', 'methodI2P_textTable_of_i2p',
    'Comp.ofConvDefault_ok', 'LinLeaf.defaultComp_ok', 'TTLeaf.defaultComp_ok', 'DtcLeaf.defaultComp_ok']]
# … and their C02 footprint (Proofs/CompCompuBits.lean, CompCompuBitsMsg.lean): Desc3 = the syntactic mirror of Described3; the layout
# entry of a compu leaf holds the raw pattern of the INTERNAL value (statements of C02_bit_exact_nested2 / C02_overlap_iff_nested2)
LEAN_TARGETS += ['OdxVerif.Proofs.CompCompuBitsMsg']
THEOREMS += ["OdxVerif.Codec." + t for t in [
    'C02_bit_exact_nested3', 'C02_overlap_iff_nested3', 'Desc3.described', 'Desc3.foot', 'Descs3.footTop', 'descs3_encodeMessage',
    'LinLeaf.desc_wf', 'TTLeaf.desc_wf', 'DtcLeaf.desc_wf', 'Descs3.padOk_of_noSizePadding']]
# W22 (RESERVED / NRC-CONST as constructors of the nested tier: Desc2R; tenth leaf kind A_UNICODE2STRING low-high) — appended
LEAN_TARGETS = LEAN_TARGETS + ["OdxVerif.Props.C01Nested2R"]
THEOREMS = THEOREMS + ["OdxVerif.Codec." + t for t in [
    "C01_roundtrip_nested2R", "C01_roundtrip_nested2R_whole", "C01_roundtrip_nested2R_of_desc2", "C01_nrcconst_alone_not_decodable",
    "descs2R_roundtrip_msg_cur", "Desc2R.okM", "Desc2R.decPre_of", "Descs2R.decPre_top", "Descs2R.okAllTop",
    "Comp.ofU16LE_ok", "U16.encodeParam_eq", "U16.decodeParam_eq", "Comp.ofU16LE_val",
    "exRes_ok", "exRes_wire", "exRes_enc", "exResOverlap_ok", "exNrcR_ok", "exU16Req_ok", "exU16Req_enc"]]
# W23 (Props/C01Nested3b.lean, Proofs/CompCompu2*.lean): LINEAR with a real physical type and DTC-DOPs with a LINEAR method as leaves;
# a compu DOP as multiplexer switch key / dynamic-length count (Described3b); the categories the codec model does not carry — appended
LEAN_TARGETS = LEAN_TARGETS + ["OdxVerif.Props.C01Nested3b"]
THEOREMS = THEOREMS + ["OdxVerif.Codec." + t for t in [
    "C01_roundtrip_nested3b", "C01_roundtrip_nested3b_whole", "C01_roundtrip_nested3b_of_described3", "C01_compu_other_unmodelled",
    "Described3b.ok", "DescribedTop3b.ok", "Described3.to3b",
    "encodeDop_other", "decodeDop_other", "not_convOk_other", "linMethod?_float_internal",
    "dopP2I_linear_num", "dopI2P_linear_flt", "LinFLeaf.convOk", "LinFLeaf.comp_ok", "LinFLeaf.constComp_ok", "LinFLeaf.defaultComp_ok",
    "LinFLeaf.described", "LinFLeaf.constDescribed", "LinFLeaf.defaultDescribed",
    "DtcLinLeaf.convOk", "DtcLinLeaf.comp_ok", "DtcLinLeaf.constComp_ok", "DtcLinLeaf.described", "DtcLinLeaf.constDescribed",
    "DtcLinLeaf.known", "DtcLinLeaf.encode_described", "DtcLinLeaf.encode_unknown", "dtcP2I_linear_int", "dtcI2P_linear_int",
    "decodeDct_obj_exact", "encodeDop_conv", "decodeDop_conv", "encodeParam_conv", "decodeParam_conv",
    "DComp.muxConv_okM", "DComp.muxConv_ok", "DComp.muxConv_endOk", "DComp.mux_ok_lin",
    "DComp.dynLenFieldConv_okM", "DComp.dynLenFieldConv_endOk", "DComp.dynLenField_ok_lin",
    "ex9_described", "ex9Temp_ok", "ex9Err_ok", "ex9Key_ok", "ex9Cnt_ok", "ex10_described", "ex10Temp_ok",
    "C01_linear_float_leaf_ok", "ex11Temp_ok", "ex11_described", "ex9Mx_described", "ex12_described",
    "IdLeaf.convOk", "IdLeaf.comp_ok", "IdLeaf.constComp_ok", "IdLeaf.defaultComp_ok", "IdLeaf.encode_not_admitted", "IdLeaf.described",
    "IdLeaf.constDescribed", "IdLeaf.defaultDescribed", "ex13N_ok", "ex13R_ok", "ex13_described"]]
# W25 (wire condition of C01_roundtrip_nested2R derived from the layout: Descs2R.resPre_of_layout / resFree; closure of Described2 over
# arbitrary leaf classes: Described2X, UTF-16LE leaves inside field items and multiplexer cases: Described2U) — appended
LEAN_TARGETS = LEAN_TARGETS + ["OdxVerif.Props.C01Nested2R2", "OdxVerif.Props.C01Nested2U"]
THEOREMS = THEOREMS + ["OdxVerif.Codec." + t for t in [
    "C01_wire_condition_of_layout", "C01_roundtrip_nested2R_reserved_free", "C01_roundtrip_nested2R_reserved_free_whole",
    "Descs2R.resPre_of_layout", "Desc2R.resPre_of_zero", "Descs2R.resPre_of_zero_top", "Descs2R.resAll_of_resFree",
    "RtHyp.seq_left", "RtHyp.seq_right", "RtHyp.sized", "reserved_resPre_of_zero",
    "exRes_free", "exU16Req_free", "exResBS_ok", "exResBS_enc", "exResBS_free",
    "C01_roundtrip_nested2U", "C01_roundtrip_nested2U_whole", "C01_roundtrip_nested2U_of_described2", "Described2X.ok", "Described2X.mono",
    "Described2U.ok", "DescribedTopU.ok", "LeafU.ok", "exU_described", "exU_enc", "C01_reserved_in_field_items_model",
    "C01_roundtrip_nested2R_static_wire", "Descs2R.resPre_of_static", "Desc2R.resPre_of_wire", "Descs2R.resPre_of_wire_top",
    "Desc2R.struct_rtHyp"]]
