"""C07 — compu methods compute the mathematically specified conversion."""
import json
import math
from fractions import Fraction as Fr

import compu_lib as L

ID = "C07"
LEAN_TARGETS = ["OdxVerif.Props.C07"]
DRIVERS = ["drv_compu"]
P = "OdxVerif.Compu."
THEOREMS = [P + t for t in [
    "C07_limits", "C07_round_nearest", "C07_identical", "C07_linear_forward",
    "C07_linear_backward", "C07_linear_phys_limits", "C07_scale_linear_forward", "C07_scale_linear_backward",
    "C07_tab_intp_forward", "C07_tab_intp_backward", "C07_tab_intp_rounds", "C07_rat_func_forward",
    "C07_rat_func_backward", "C07_scale_rat_func_forward", "C07_scale_rat_func_backward", "C07_texttable_forward",
    "C07_texttable_inverse", "C07_compucode_rejects", "C07_valid_iff", "C07_valid_physical_iff",
    "C07_valid_converts", "C07_image_valid_linear", "C07_roundtrip_linear", "C07_roundtrip_linear_phys",
    "C07_roundtrip_linear_tie_counterexample", "C07_build_scale_linear", "C07_monotone_can_encode",
    "C07_tab_intp_image_valid",
]]
RULE = ("descriptions = generated compu methods of the 8 categories x internal/physical types A_UINT32/A_INT32/A_FLOAT32/A_FLOAT64 "
        "(string types for TEXTTABLE/IDENTICAL) x 1-4 scales (TAB-INTP 2-5 points) x coefficients/denominators in small integers and "
        "halves x OPEN/CLOSED/INFINITE/absent limits, plus TEXTTABLEs around zero (every range in [-3,3] x every inverse value inside it; random "
        "signed/float tables with inverse value, limit or default equal to 0 / 0.0 / empty text), plus decimal coefficients (the doubles nearest to "
        "tenths / hundredths / thirds: two-segment SCALE-LINEAR small scope = kink position x ordered slope pairs x value at the kink (0 and others) x "
        "direction x limit types at the kink; random 1-4 segment LINEAR / SCALE-LINEAR and TAB-INTP with decimal samples); every well-formed "
        "description is checked twice: built with the constructors, and written as ODX XML and read by the real loader (as COMPU-METHOD of a "
        "DATA-OBJECT-PROP for numeric internal types, then single values also go through DataObjectProperty.encode_into_pdu / decode_from_pdu); values = whole 8-bit window of the internal type (thorough) or limit "
        "boundaries +-1 and random (quick), their physical images and neighbours, wrong Python types; one evaluated case = "
        "(description, operation, value); distinct = distinct (description, operation, value); non-trivial = the value is valid "
        "for the description and the operation returned a value")
TRUSTED = ["model lean/OdxVerif/Model/Compu.lean is hand-written; tied to odxtools/compumethods/*.py by comparing "
           "(result | error class) of the four public operations on generated inputs",
           "Python float arithmetic is modelled exactly over Rat; cases where the double result differs from the exact rational "
           "are not sent to the model (counted as float_inexact) and are checked against the formula with a relative tolerance of 2^-40",
           "harness/compu_lib.py Spec (fractions.Fraction) restates lean/OdxVerif/Spec/CompuExact.lean for the direct oracle",
           "harness/compu_lib.py xml_of_desc / dop_xml (the harness' own ~60-line ODX emitter for COMPU-METHOD inside a DATA-OBJECT-PROP) "
           "and coded_bytes / coded_value (big-endian 32/64-bit coding of the internal value) for the XML / DOP route",
           "float results are accepted within 2^-40 relative to max(1, |result|, magnitude of the terms of the formula) — the rounding error of a "
           "double evaluation is relative to its operands, not to a result that is their small difference"]
ASSUMPTIONS = ["exceptions.strict_mode is True (the default)",
               "A_FLOAT32 and A_FLOAT64 values are Python doubles inside compumethods/ (narrowing to binary32 happens in the codec, not here)",
               "A_BYTEFIELD values and Java COMPUCODE execution are outside the model",
               "TAB-INTP with a single point, RAT-FUNC poles inside the limits and descriptions the constructors reject are outside "
               "the envelope of the direct oracle (they are still compared with the model)",
               "an absent limit of a LINEAR/SCALE-LINEAR/RAT-FUNC scale is unbounded (odxtools' reading); for TEXTTABLE a scale with a "
               "single limit stands for that single value (ODX 7.3.6.6.1)",
               "the thresholds 1e-10 of the code are the rational 1/10^10 in the model",
               "XML parsing is not modelled in Lean: the XML route is checked by the direct oracle (exact Spec), by reading the loaded "
               "description back (clause xml-description) and against the constructor route (clause xml-equivalence)",
               "a description whose limit value is the empty string has no XML form (an empty LOWER-LIMIT element has no text) and is "
               "checked on the constructor route only"]

# --- tie of kind (1) (task W15): Gen/CompuLimit.lean is regenerated from Limit.complies_to_upper / complies_to_lower of the current source
# by the Python->Lean translator and proved equal to the hand-written Limit.compliesUpper / compliesLower (Proofs/CompuLimitGenEq.lean)
LEAN_TARGETS = LEAN_TARGETS + ["OdxVerif.Props.C07Gen"]
THEOREMS = THEOREMS + [P + t for t in ["gen_compliesUpper_eq", "gen_compliesLower_eq", "gen_complies_ok_iff", "C07_gen_limits_tie", "C07_gen_limits"]]
TRUSTED = TRUSTED + ["translator harness/extract/py2lean.py + primitives lean/OdxVerif/Model/PyRt.lean for Limit.complies_to_upper / complies_to_lower "
                     "(self._value / self.interval_type = the fields of the model's Limit, IntervalType members = constructors of IType; "
                     "compare_odx_values is NOT translated: it stands for the model's compareOdx; odxraise is rendered for strict mode)"]


def regen_compu_limit(ctx):
    """Gen/CompuLimit.lean from the current source; Unsupported (source left the translator's subset) = broken obligation"""
    import common
    from extract import py2lean
    py2lean.regenerate_limit(common.REPO, common.VERIF)


GENERATORS = list(globals().get("GENERATORS", [])) + [regen_compu_limit]


# --- tie of kind (1) (task W20): Gen/CompuScaleApplies.lean is regenerated from CompuScale.applies (and Limit.value) of the current source
# and proved equal to the hand-written Scale.applies (Proofs/CompuScaleAppliesGenEq.lean); its complies_to_lower / complies_to_upper are the
# generated functions of Gen/CompuLimit.lean
LEAN_TARGETS = LEAN_TARGETS + ["OdxVerif.Props.C07GenScale"]
THEOREMS = THEOREMS + [P + t for t in ["gen_scaleApplies_eq", "C07_gen_scale_applies_tie", "C07_gen_scale_applies_ok_iff", "C07_gen_scale_applies"]]
TRUSTED = TRUSTED + ["translator harness/extract/py2lean.py + primitives lean/OdxVerif/Model/PyRt.lean for CompuScale.applies and Limit.value "
                     "(self.lower_limit / self.upper_limit = the fields lo / hi of the model's Scale; == on AtomicOdxType values = the model's Val.pyEq, "
                     "None == None and value != None by Py.optEq)"]


def regen_scale_applies(ctx):
    """Gen/CompuScaleApplies.lean from the current source; Unsupported (source left the translator's subset) = broken obligation"""
    import common
    from extract import py2lean
    py2lean.regenerate_scale_applies(common.REPO, common.VERIF)


GENERATORS = list(globals().get("GENERATORS", [])) + [regen_scale_applies]

TOL = Fr(1, 2**40)


def _close(x, q, mag=0):
    """x equals the exact value q up to double rounding: 2^-40 relative to the result or — where the result is the small
    difference of large terms — to the magnitude `mag` of the terms (the rounding error of a sum is relative to its operands)"""
    return abs(x - q) <= TOL * max(1, abs(q), mag)


def _float_noise(m, r):
    """model and implementation differ only by double rounding error (inputs that are themselves inexact images):
    close floats, or integers one apart whose exact pre-rounding value is not known to the harness"""
    if m[0] != "ok" or r[0] != "ok" or isinstance(m[1], bool) or isinstance(r[1], bool) or m[1] is None or r[1] is None:
        return False
    if m[1][0] == "f" and r[1][0] == "f" and "nan" not in (m[1][1], r[1][1]):
        return _close(Fr(r[1][1]), Fr(m[1][1]))
    return False


def _nice(v):
    """not the inexact image of an earlier float computation: an int, a text, or a double with a small denominator
    (arithmetic on such values with small coefficients is exact in doubles)"""
    return v[0] != "f" or (v[1] != "nan" and Fr(v[1]).denominator <= 2**16)


def _kind(v):
    return {"i": "int", "f": "float", "s": "str"}[v[0]]


def check_value_result(r, q, ty, mag=0):
    """compare an implementation result with the exact value q for target type `ty` (`mag`: magnitude of the terms of the
    formula, see `_close`).  -> 'exact' | 'inexact' (float rounding only) | 'bad'"""
    if r[0] != "ok" or isinstance(r[1], bool) or r[1] is None:
        return "bad"
    v = r[1]
    if isinstance(q, list):                      # a text / pass-through value (COMPU-INVERSE-VALUE, limit, default): a value
        # of the target type — the integer 12 of an integer type is not the float 12.0, although 12 == 12.0 in Python
        if L.is_num(q):
            return "exact" if L.is_num(v) and L.admissible(ty, v) and L.veq(v, q) else "bad"
        return "exact" if v[0] == q[0] and L.veq(v, q) else "bad"
    if not L.is_num(v) or v[1] == "nan":
        return "bad"
    if ty in L.INT_TYPES:
        # nearest integer; a double that is off by rounding error next to a tie may pick the other neighbour
        if v[0] != "i" or abs(Fr(v[1]) - q) > Fr(1, 2) + TOL * max(1, abs(q), mag):
            return "bad"
        return "exact" if v[1] == L.round_half_even(q) else "inexact"
    if v[0] != "f":
        return "bad"
    x = L.frac(v)
    return "exact" if x == q else "inexact" if _close(x, q, mag) else "bad"


class MethodCheck:
    """direct oracle for one description on the real code; collects violations and the queries for the model.
    route 'ctor': the object is built with the constructors; route 'xml': the description is written as ODX XML and read
    by the real loader (a DATA-OBJECT-PROP for numeric internal types: then single values are also encoded / decoded
    through the DOP)"""

    def __init__(self, desc, route="ctor", sp=None):
        self.desc = desc
        self.route = route
        self.sp = sp or L.Spec(desc)
        self.dop = None
        if route == "xml":
            self.cm, self.dop, self.build_err = L.load_xml(desc)
        else:
            self.cm, self.build_err = L.try_build(desc)
        self.mono = False       # (SCALE-)LINEAR, monotone and continuous in the sense of ODX 7.3.6.6.4 (exact arithmetic)
        self.has_open = True
        self.viol = []          # (clause, features, observed, witness-extra, what)
        self.queries = []       # (op, val, impl result, forward?)
        self.stats = {}
        self.inj = False
        self.limits_exact = True
        if self.cm is not None:
            try:
                self.inj = bool(L.injective(desc))
            except Exception:   # noqa: malformed descriptions
                self.inj = False
            self.limits_exact = self._limits_exact()
            if desc["cat"] in ("LINEAR", "SCALE-LINEAR"):
                try:
                    self.mono = bool(self.sp.invertible())
                    self.has_open = any(l is not None and l["t"] == "OPEN" for s in self.sp.fwd for l in (s.get("lo"), s.get("hi")))
                except Exception:  # noqa: malformed descriptions
                    self.mono = False

    def _terms(self, x):
        """(magnitude of the terms of the forward formula at x, magnitude of the terms of the inverse formula at the image) for
        linear scales and interpolation tables — the scale of the double rounding error of the forward evaluation resp. of
        converting the image back (the inverse divides the error of the image by the slope); (0, 0) elsewhere"""
        if not L.is_num(x):
            return 0, 0
        try:
            cat = self.desc["cat"]
            if cat in ("LINEAR", "SCALE-LINEAR"):
                o, f, d = L.lin_coeffs(self.sp.scale_for(x)[1])
                m = max(abs(o), abs(f * L.frac(x))) / abs(d)
                return m, (m * abs(d) / abs(f) if f != 0 else 0)
            if cat == "TAB-INTP":
                return self._tab_terms(L.frac(x), [L.frac(s["lo"]["v"]) for s in self.sp.fwd], [L.frac(s["const"]) for s in self.sp.fwd])
        except Exception:  # noqa
            pass
        return 0, 0

    @staticmethod
    def _tab_terms(x, xs, ys):
        for k in range(len(xs) - 1):
            x0, x1, y0, y1 = xs[k], xs[k + 1], ys[k], ys[k + 1]
            if min(x0, x1) <= x <= max(x0, x1) and x0 != x1:
                m = max(abs(y0), abs(y1), max(abs(x0), abs(x1)) * abs((y1 - y0) / (x1 - x0)))
                return m, max(abs(x0), abs(x1), (m * abs((x1 - x0) / (y1 - y0)) if y1 != y0 else 0))
        return 0, 0

    def _terms_back(self, p):
        """magnitude of the terms of the inverse formula at the physical value p (see `_terms`)"""
        if not L.is_num(p):
            return 0
        try:
            cat = self.desc["cat"]
            if cat in ("LINEAR", "SCALE-LINEAR"):
                o, f, d = L.lin_coeffs(self.sp.phys_scale_for(p)[1])
                return max(abs(o), abs(L.frac(p) * d)) / abs(f) if f != 0 else 0
            if cat == "TAB-INTP":
                return self._tab_terms(L.frac(p), [L.frac(s["const"]) for s in self.sp.fwd], [L.frac(s["lo"]["v"]) for s in self.sp.fwd])[0]
        except Exception:  # noqa
            pass
        return 0

    def _limits_exact(self):
        """are the physical limits the code derived (float arithmetic) the exact images?"""
        if self.desc["cat"] not in ("LINEAR", "SCALE-LINEAR"):
            return True
        try:
            segs = [self.cm.segment] if self.desc["cat"] == "LINEAR" else self.cm.segments
            for seg, s in zip(segs, self.sp.fwd):
                lo, hi = self.sp.phys_limits(s)
                for mine, theirs in ((lo, seg.physical_lower_limit), (hi, seg.physical_upper_limit)):
                    if (mine is None) != (theirs is None):
                        return False
                    if mine is not None and Fr(theirs.value) != L.frac(mine["v"]):
                        return False
            return True
        except Exception:  # noqa
            return False

    def _excused(self, p, rb):
        """declared-valid physical values that need not convert: a TEXTTABLE text with two inverse images
        (C03 excludes them as non-canonical) and a pole of an explicitly given inverse rational function"""
        d = self.desc
        if d["cat"] == "TEXTTABLE":
            n = sum(1 for s in self.sp.fwd if s.get("const") is not None and L.veq(s["const"], p))
            if n > 1:
                self.bump("ambiguous_text_skipped")
                return True
        return False

    def _near_pole(self, scales, x):
        """the denominator polynomial of the responsible rational scale vanishes at x (up to double rounding)"""
        if self.desc["cat"] not in ("RAT-FUNC", "SCALE-RAT-FUNC") or not scales or not L.is_num(x):
            return False
        try:
            k = self.sp.scale_for(x, scales)
            if k is None or not k[1].get("den"):
                return False
            q = L.frac(x)
            return abs(L.poly(k[1]["den"], q)) <= TOL * 2**10 * max(1, abs(q)) ** len(k[1]["den"])
        except Exception:  # noqa: malformed description
            return False

    def _extreme_sample_noise(self, x, p, mag):
        """TAB-INTP: x is the internal sample whose physical sample y is the minimum / maximum of the table and the computed
        image p is not y but within rounding noise of it"""
        if self.desc["cat"] != "TAB-INTP" or not L.is_num(x) or not L.is_num(p) or p[1] == "nan":
            return False
        try:
            ys = [L.frac(s["const"]) for s in self.sp.fwd]
            for s, y in zip(self.sp.fwd, ys):
                if L.frac(s["lo"]["v"]) == L.frac(x) and y in (min(ys), max(ys)):
                    q = L.frac(p)
                    return q != y and _close(q, y, mag) and not (min(ys) <= q <= max(ys))
        except Exception:  # noqa
            pass
        return False

    def _encodable_image(self, x):
        if not self.has_open:
            return True
        try:
            k = self.sp.scale_for(x)
            return self.desc["pty"] in L.FLOAT_TYPES and L.lin_coeffs(k[1])[1] != 0
        except Exception:  # noqa
            return False

    def bump(self, k):
        self.stats[k] = self.stats.get(k, 0) + 1

    def v(self, clause, features, observed, extra, what):
        # the rounding-tie finding is one finding for all piecewise-linear categories
        feats = features if "rounding-tie" in features else [self.desc["cat"]] + features
        self.viol.append((clause, feats, observed, extra, what))

    # ---- one internal value
    def internal(self, x):
        d, sp, cm = self.desc, self.sp, self.cm
        rv, ri = L.call(cm, "vi", x), L.call(cm, "i2p", x)
        fwd_ok = True
        if self._near_pole(sp.fwd, x):
            self.bump("pole_skipped")
            self.queries.append(("vi", x, rv, True, False))
            self.queries.append(("i2p", x, ri, L.poly(sp.scale_for(x)[1]["den"], L.frac(x)) == 0, False))
            return ri
        try:
            sv = sp.valid_internal(x)
        except Exception:  # noqa: malformed description
            sv = None
        nontrivial = False
        if sv is not None:
            if rv != ("ok", sv):
                self.v("valid-internal-iff", ["declared-" + str(rv[1]).lower() if rv[0] == "ok" else "raises", _kind(x)],
                       rv[1] if rv[0] == "err" else "wrong-verdict", {"internal": x, "impl": rv, "spec": sv},
                       f"is_valid_internal_value({L.pyval(x)!r}) = {rv} but admissible-type-and-inside-limits = {sv}")
        if sv:
            try:
                q = sp.forward_exact(x)
            except Exception:  # noqa
                q = None
            if q is None:
                self.bump("formula_undefined")
            else:
                mag, mag_back = self._terms(x)
                c = check_value_result(ri, q, d["pty"], mag)
                self.bump("fwd_" + c)
                if c == "bad":
                    self.v("forward-formula", [_kind(x), "raises" if ri[0] == "err" else "wrong-value"],
                           ri[1] if ri[0] == "err" else "wrong-value", {"internal": x, "impl": ri, "exact": str(q)},
                           f"convert_internal_to_physical({L.pyval(x)!r}) = {ri}, exact formula gives {q}")
                elif c == "inexact":
                    fwd_ok = False
                else:
                    nontrivial = True
                # ---- injective conversions: the image is declared valid and converts back
                if self.inj and c != "bad":
                    p = ri[1]
                    rvp, rb = L.call(cm, "vp", p), L.call(cm, "p2i", p)
                    tie = ["rounding-tie", "unit-slope"] if L.unit_slope_tie(d, x) else []
                    back = "bad"
                    if rb[0] == "ok" and L.is_num(rb[1]) and L.is_num(x):
                        bq = L.frac(rb[1])
                        back = "exact" if bq == L.frac(x) else "inexact" if (d["ity"] in L.FLOAT_TYPES and _close(bq, L.frac(x), mag_back)) else "bad"
                    elif rb[0] == "ok" and rb[1] is not None and L.veq(rb[1], x):
                        back = "exact"
                    self.bump("roundtrip_" + back)
                    kind = d["pty"] in L.INT_TYPES and "int-physical" or "real-physical"
                    edge = not tie and self._extreme_sample_noise(x, p, mag)
                    if edge and (rvp != ("ok", True) or back == "bad"):
                        # one finding (known, fix proposed: fixes/c07-tabintp-clamp-to-samples.patch): the double evaluation of
                        # y0 + (x-x0)(y1-y0)/(x1-x0) at the sample point with the smallest / largest physical sample misses the
                        # sample by rounding noise, the image falls outside [min, max] of the physical samples
                        self.bump("tabintp_extreme_sample_noise")
                        self.v("image-valid", ["rounding-noise", "extreme-sample"], "declared-invalid",
                               {"internal": x, "image": p, "valid": rvp, "back": rb},
                               f"TAB-INTP sample point {L.pyval(x)!r} -> {L.pyval(p)!r}: off its sample by rounding noise, outside the range of "
                               f"the physical samples (valid: {rvp}) -> {rb}")
                    elif tie and (rvp != ("ok", True) or back == "bad"):
                        # one finding whatever the manifestation (image outside the OPEN limit / other value / error)
                        self.bump("rounding_tie_collisions")
                        self.v("roundtrip", tie + [kind], "does-not-convert-back", {"internal": x, "image": p, "valid": rvp, "back": rb},
                               f"rounding tie at unit slope: internal {L.pyval(x)!r} -> physical {L.pyval(p)!r} (valid: {rvp}) -> {rb}")
                    else:
                        if rvp != ("ok", True):
                            self.v("image-valid", [kind], rvp[1] if rvp[0] == "err" else "declared-invalid",
                                   {"internal": x, "image": p, "impl": rvp},
                                   f"physical image {L.pyval(p)!r} of valid internal value {L.pyval(x)!r} is not declared valid")
                        if back == "bad":
                            self.v("roundtrip", [kind], rb[1] if rb[0] == "err" else "wrong-value", {"internal": x, "image": p, "back": rb},
                                   f"internal {L.pyval(x)!r} -> physical {L.pyval(p)!r} -> {rb}")
                # ---- a monotone continuous piecewise-linear method can always encode (also where it is not injective: flat
                #      segments, integer physical types with small slopes).  Hypotheses of C07_image_valid_linear: real
                #      physical type and non-zero slope of the responsible segment, or no OPEN limit anywhere.
                elif self.mono and c != "bad" and self._encodable_image(x):
                    p = ri[1]
                    rvp, rb = L.call(cm, "vp", p), L.call(cm, "p2i", p)
                    self.bump("monotone_images")
                    if rvp != ("ok", True) or rb[0] != "ok":
                        self.v("monotone-can-encode", [d["pty"] in L.INT_TYPES and "int-physical" or "real-physical"],
                               rb[1] if rb[0] == "err" else "declared-invalid", {"internal": x, "image": p, "valid": rvp, "back": rb},
                               f"monotone continuous {d['cat']}: image {L.pyval(p)!r} of valid internal value {L.pyval(x)!r}: "
                               f"is_valid_physical_value = {rvp}, convert_physical_to_internal = {rb}")
                # ---- the same single value through the DATA-OBJECT-PROP (xml route): decoding the coded value is the conversion
                if self.dop is not None and c != "bad":
                    raw = L.coded_bytes(d["ity"], x)
                    if raw is not None:
                        dd = L.dop_decode(self.dop, raw)
                        self.bump("dop_decodes")
                        if not L.same(dd, ri):
                            self.v("dop-decode", [_kind(x)], dd[1] if dd[0] == "err" else "wrong-value", {"internal": x, "impl": dd, "compu": ri},
                                   f"DataObjectProperty.decode_from_pdu({raw.hex()}) = {dd}, convert_internal_to_physical({L.pyval(x)!r}) = {ri}")
        self.queries.append(("vi", x, rv, True, nontrivial))
        self.queries.append(("i2p", x, ri, fwd_ok, nontrivial))
        return ri

    # ---- one physical value
    def physical(self, p):
        d, sp, cm = self.desc, self.sp, self.cm
        rvp, rb = L.call(cm, "vp", p), L.call(cm, "p2i", p)
        fwd_ok = self.limits_exact
        nontrivial = False
        if self._near_pole(sp.bwd, p):
            self.bump("pole_skipped")
            self.queries.append(("vp", p, rvp, True, False))
            self.queries.append(("p2i", p, rb, L.poly(sp.scale_for(p, sp.bwd)[1]["den"], L.frac(p)) == 0, False))
            return
        # every physical value declared valid converts without error
        if rvp == ("ok", True) and rb[0] != "ok" and not self._excused(p, rb):
            self.v("valid-physical-converts", [_kind(p)], rb[1], {"physical": p, "impl": rb},
                   f"is_valid_physical_value({L.pyval(p)!r}) is True but convert_physical_to_internal raises {rb[1]}")
        try:
            spv = sp.valid_physical(p) if self.limits_exact else None
        except Exception:  # noqa
            spv = None
        if spv:
            try:
                q = sp.backward_exact(p)
            except Exception:  # noqa
                q = None
            if isinstance(q, tuple):              # factor 0: the COMPU-INVERSE-VALUE
                q = q[1]
            if q is None:
                self.bump("formula_undefined")
            else:
                c = check_value_result(rb, q, d["ity"], self._terms_back(p))
                self.bump("bwd_" + c)
                if c == "bad":
                    self.v("backward-formula", [_kind(p), "raises" if rb[0] == "err" else "wrong-value"],
                           rb[1] if rb[0] == "err" else "wrong-value", {"physical": p, "impl": rb, "exact": str(q)},
                           f"convert_physical_to_internal({L.pyval(p)!r}) = {rb}, exact inverse gives {q}")
                elif c == "inexact":
                    fwd_ok = False
                else:
                    nontrivial = True
        # ---- the same single value through the DATA-OBJECT-PROP (xml route): a declared-valid physical value whose internal
        #      value is valid and fits the coded type is encoded as that internal value
        if self.dop is not None and rvp == ("ok", True) and rb[0] == "ok" and rb[1] is not None and not isinstance(rb[1], bool):
            z = rb[1]
            fits = L.admissible(d["ity"], z) and L.coded_bytes(d["ity"], z if d["ity"] in L.INT_TYPES else L.vf(L.frac(z))) is not None
            if fits and L.call(cm, "vi", z) == ("ok", True):
                e = L.dop_encode(self.dop, p)
                self.bump("dop_encodes")
                got = L.coded_value(d["ity"], e[1]) if e[0] == "ok" else None     # compared as values: -0.0 is 0.0
                if got is None or not L.veq(got, z):
                    self.v("dop-encode", [_kind(p)], e[1] if e[0] == "err" else "wrong-bytes", {"physical": p, "impl": e, "internal": z},
                           f"DataObjectProperty.encode_into_pdu({L.pyval(p)!r}) = {e}, but convert_physical_to_internal gives {L.pyval(z)!r}")
        verified = nontrivial or rb[0] == "err"
        self.queries.append(("vp", p, rvp, self.limits_exact, nontrivial))
        self.queries.append(("p2i", p, rb, fwd_ok and (verified or _nice(p)), nontrivial))


def limit_oracle(ctx):
    """Limit.complies_to_lower/upper against the interval semantics, all interval types x a value grid"""
    from odxtools.compumethods.limit import IntervalType, Limit
    from odxtools.odxtypes import DataType
    for ty, vals in (("A_INT32", [-2, -1, 0, 1, 2]), ("A_FLOAT64", [Fr(-1, 2), 0, Fr(1, 2), 1, Fr(3, 2)])):
        for t in (None, "CLOSED", "OPEN", "INFINITE"):
            for a in vals + [None]:
                lim = {"v": None if a is None else L.vnum(a, ty), "t": t}
                try:
                    obj = Limit(value_raw=None if a is None else L._raw(lim["v"]), value_type=DataType(ty),
                                interval_type=None if t is None else IntervalType(t))
                except Exception as e:  # noqa
                    ctx.violate("limits", ["construct"], type(e).__name__, {"limit": lim}, "Limit cannot be constructed")
                    continue
                for x in vals:
                    xv = L.vnum(x, ty)
                    for side, f, g in (("lower", L.lower_ok, "complies_to_lower"), ("upper", L.upper_ok, "complies_to_upper")):
                        try:
                            got = getattr(obj, g)(L.pyval(xv))
                        except Exception as e:  # noqa
                            got = "raise:" + type(e).__name__
                        ctx.case(("limit", ty, t, str(a), str(x), side))
                        if got != f(lim, xv):
                            ctx.violate("limits", [side, str(t)], str(got), {"limit": lim, "value": xv, "side": side},
                                        f"{g}({x}) of limit {a} {t} = {got}")


CORPUS = []


def _lim(v, t="CLOSED"):
    return {"v": v, "t": t}


def _sc(**k):
    s = {"lo": None, "hi": None, "inv": None, "const": None, "num": None, "den": []}
    s.update(k)
    return s


def corpus():
    """minimised past failures: every defect found on the pinned commit (DESIGN.md §7 rows 12-15 and the ones found here)"""
    vi, vf, vs = L.vi, L.vf, L.vs
    side = lambda scales, default=None: {"scales": scales, "default": default}   # noqa: E731
    out = []
    # 12: continuous monotone SCALE-LINEAR must be able to encode
    out.append(({"cat": "SCALE-LINEAR", "ity": "A_UINT32", "pty": "A_UINT32", "p2i": None, "i2p": side([
        _sc(lo=_lim(vi(0)), hi=_lim(vi(10)), num=[vi(0), vi(1)], den=[vi(1)]),
        _sc(lo=_lim(vi(10)), hi=_lim(vi(20)), num=[vi(-10), vi(2)], den=[vi(1)])])}, [vi(5), vi(10), vi(15), vi(20)], [vi(5), vi(20), vi(30)]))
    # a genuinely discontinuous one: declared-valid physical values must convert (or not be declared valid)
    out.append(({"cat": "SCALE-LINEAR", "ity": "A_UINT32", "pty": "A_UINT32", "p2i": None, "i2p": side([
        _sc(lo=_lim(vi(0)), hi=_lim(vi(10)), num=[vi(0), vi(1)], den=[vi(1)]),
        _sc(lo=_lim(vi(10)), hi=_lim(vi(20)), num=[vi(100), vi(2)], den=[vi(1)])])}, [vi(5), vi(15)], [vi(5), vi(130)]))
    # 13: RAT-FUNC, integer internal type, float physical type, explicit inverse
    out.append(({"cat": "RAT-FUNC", "ity": "A_UINT32", "pty": "A_FLOAT64", "inv_exact": True,
                 "i2p": side([_sc(num=[vf(1), vf(2)], den=[vf(1)])]), "p2i": side([_sc(num=[vi(-1), vi(1)], den=[vi(2)])])},
                [vi(0), vi(1), vi(7), vf(Fr(5, 2))], [vf(3), vi(3), vf(15)]))
    # RAT-FUNC without COMPU-DENOMINATOR
    out.append(({"cat": "RAT-FUNC", "ity": "A_UINT32", "pty": "A_FLOAT64", "i2p": side([_sc(num=[vf(1), vf(2)], den=[])]), "p2i": None},
                [vi(1), vi(2)], [vf(3)]))
    # 14: TAB-INTP rounds
    out.append(({"cat": "TAB-INTP", "ity": "A_UINT32", "pty": "A_UINT32", "p2i": None, "i2p": side([
        _sc(lo=_lim(vi(0)), const=vi(0)), _sc(lo=_lim(vi(10)), const=vi(5))])}, [vi(3), vi(7), vi(10)], [vi(1), vi(3), vi(5)]))
    # TAB-INTP with descending / flat physical samples
    out.append(({"cat": "TAB-INTP", "ity": "A_UINT32", "pty": "A_UINT32", "p2i": None, "i2p": side([
        _sc(lo=_lim(vi(0)), const=vi(10)), _sc(lo=_lim(vi(10)), const=vi(0)), _sc(lo=_lim(vi(20)), const=vi(0))])},
        [vi(4), vi(15)], [vi(6), vi(0), vi(10)]))
    # 15: rounding tie, unit slope (known finding)
    out.append(({"cat": "LINEAR", "ity": "A_UINT32", "pty": "A_UINT32", "p2i": None,
                 "i2p": side([_sc(num=[vi(1), vi(2)], den=[vi(2)])])}, [vi(1), vi(2), vi(3)], [vi(2), vi(4)]))
    # negative denominator: the physical limits are swapped
    out.append(({"cat": "LINEAR", "ity": "A_INT32", "pty": "A_INT32", "p2i": None,
                 "i2p": side([_sc(lo=_lim(vi(0)), hi=_lim(vi(10)), num=[vi(0), vi(1)], den=[vi(-1)])])}, [vi(3), vi(0), vi(10)], [vi(-3), vi(3)]))
    # TEXTTABLE defaults
    out.append(({"cat": "TEXTTABLE", "ity": "A_UINT32", "pty": "A_UNICODE2STRING", "p2i": None,
                 "i2p": side([_sc(lo=_lim(vi(1)), hi=_lim(vi(1)), const=vs("one"))], vs("dflt"))}, [vi(1), vi(7)], [vs("one"), vs("zzz"), vs("dflt")]))
    out.append(({"cat": "TEXTTABLE", "ity": "A_UINT32", "pty": "A_UNICODE2STRING", "p2i": {"scales": [], "default": vi(9)},
                 "i2p": side([_sc(lo=_lim(vi(1)), hi=_lim(vi(1)), const=vs("one"))])}, [vi(1), vi(7)], [vs("one"), vs("zzz")]))
    # round 6: decimal samples — the image of the sample point with the extreme physical sample misses it by rounding noise
    #          (known finding tabintp-extreme-sample-rounding)
    out.append(({"cat": "TAB-INTP", "ity": "A_UINT32", "pty": "A_FLOAT64", "p2i": None, "i2p": side([
        _sc(lo=_lim(vi(84)), const=L.vd(Fr(173, 10))), _sc(lo=_lim(vi(110)), const=L.vd(Fr(-8, 10)))])},
        [vi(84), vi(97), vi(110)], [L.vd(Fr(173, 10)), L.vd(Fr(-8, 10))]))
    # round 6: SCALE-LINEAR with decimal coefficients, continuous in decimal arithmetic, zero crossing at the kink
    out.append((L.decimal_scale_linear("A_UINT32", "A_FLOAT64", [0, 7, 255], [Fr(1, 10), Fr(3, 10)], 1, Fr(0), family="corpus"),
                [vi(0), vi(6), vi(7), vi(8), vi(255)], []))
    return out


def _diff_path(a, b, path=""):
    """where two descriptions differ first (a field path such as i2p.scales.inv)"""
    if isinstance(a, dict) and isinstance(b, dict):
        for k in a:
            if a.get(k) != b.get(k):
                return _diff_path(a.get(k), b.get(k), path + "." + k if path else k)
    if isinstance(a, list) and isinstance(b, list) and len(a) == len(b) and a and isinstance(a[0], dict):
        for x, y in zip(a, b):
            if x != y:
                return _diff_path(x, y, path)
    return path or "?"


def xml_description_ok(mx):
    """what the loader stored is what the document says (attribute read-back; a failure to read is data)"""
    try:
        back = L.desc_of_cm(mx.cm)
    except Exception as e:  # noqa: the attributes are read from the code under test
        return False, "unreadable:" + type(e).__name__, None
    want = L.normalise(mx.desc)
    return back == want, _diff_path(want, back), back


def xml_route(ctx, desc, mc, ivals, plist, seen):
    """the same description through the XML loader (and the DOP): direct oracle, read-back of the description, and
    equality with the constructor route on every (operation, value)"""
    cat = desc["cat"]
    mx = MethodCheck(desc, route="xml", sp=mc.sp)
    ctx.count("xml_methods")
    key = json.dumps(L.normalise(desc), sort_keys=True)
    if mx.cm is None:
        ctx.case((key, "xml-load"), nontrivial=False)
        ctx.violate("xml-load", [cat], L.canon_err(mx.build_err), {"desc": desc, "route": "xml"},
                    f"a {cat} description the constructor accepts is rejected by the XML loader: {mx.build_err}")
        return
    if mx.dop is not None:
        ctx.count("xml_methods_in_dop")
    ok, where, back = xml_description_ok(mx)
    if not ok:
        ctx.violate("xml-description", [cat, where], "differs", {"desc": desc, "route": "xml", "loaded": back},
                    f"the {cat} method read from XML is not the described one: field {where}")
    for x in ivals:
        mx.internal(x)
    for p in plist:
        mx.physical(p)
    n_diff = 0
    for (op, v, r, _, nt), (op2, v2, r2, _, _) in zip(mc.queries, mx.queries):
        ctx.case((key, "xml:" + op, v[0], str(v[1])), nontrivial=nt)
        if (op, v) == (op2, v2) and r != r2 and not n_diff:
            n_diff += 1
            ctx.violate("xml-equivalence", [cat, op], "differs", {"desc": desc, "route": "xml", "op": op, "value": v, "ctor": r, "xml": r2},
                        f"{L.METHOD[op]}({L.pyval(v)!r}) = {r2} on the method read from XML, {r} on the constructed one")
    for k, n in mx.stats.items():
        if k.startswith("dop_"):
            ctx.count(k, n)
    for clause, feats, obs, extra, what in mx.viol:
        sig = (clause, tuple(feats), str(obs))
        if sig in seen:
            continue
        seen.add(sig)
        ctx.violate(clause, feats + ["via-xml"], L.canon_err(obs) if isinstance(obs, str) else str(obs),
                    {"desc": desc, "route": "xml", **extra}, "read from XML: " + what)


def run_method(ctx, desc, ivals, pvals_fn, fam, pending):
    mc = MethodCheck(desc)
    cat = desc["cat"]
    ctx.histo("category", cat)
    ctx.histo("types", desc["ity"][2:] + ">" + desc["pty"][2:])
    ctx.histo("n_scales", len((desc.get("i2p") or {}).get("scales") or []))
    ctx.histo("family", fam)
    if mc.cm is None:
        ctx.count("constructor_rejects")
        ctx.histo("constructor_error", L.canon_err(mc.build_err))
        if fam not in ("malformed",):
            ctx.violate("constructible", [cat, fam], L.canon_err(mc.build_err), {"desc": desc},
                        f"a well-formed {cat} description is rejected by the constructor: {mc.build_err}")
        ctx.case((json.dumps(desc, sort_keys=True), "build"), nontrivial=False)
        pending.append((desc, [("vi", L.vi(0), ("build", mc.build_err), True, False)], fam))
        return
    try:
        back = L.desc_of_cm(mc.cm)
    except Exception as e:  # noqa: the attributes are read from the code under test
        back = {"unreadable": type(e).__name__}
    if back != L.normalise(desc):
        ctx.disagree("desc_of_cm", {"desc": desc}, json.dumps(L.normalise(desc))[:500], json.dumps(back)[:500])
    if mc.inj:
        ctx.count("injective_methods")
    if not mc.limits_exact:
        ctx.count("methods_with_inexact_derived_limits")
    images = []
    oracle = fam != "malformed"
    for x in ivals:
        if oracle:
            images.append(mc.internal(x)[1] if True else None)
        else:
            rv, ri = L.call(mc.cm, "vi", x), L.call(mc.cm, "i2p", x)
            mc.queries += [("vi", x, rv, True, False), ("i2p", x, ri, True, False)]
            images.append(ri[1])
    imgs = [v for v in images if isinstance(v, list)]
    plist = list(pvals_fn(imgs))
    for p in plist:
        if oracle:
            mc.physical(p)
        else:
            rvp, rb = L.call(mc.cm, "vp", p), L.call(mc.cm, "p2i", p)
            mc.queries += [("vp", p, rvp, mc.limits_exact, False), ("p2i", p, rb, mc.limits_exact and _nice(p), False)]
    key = json.dumps(L.normalise(desc), sort_keys=True)
    for op, v, r, fw, nt in mc.queries:
        ctx.case((key, op, v[0], str(v[1])), nontrivial=nt)
        ctx.histo("outcome", r[0] if r[0] != "err" else "err:" + L.canon_err(r[1]))
    for k, n in mc.stats.items():
        ctx.count(k, n)
    seen = set()
    for clause, feats, obs, extra, what in mc.viol:
        sig = (clause, tuple(feats), str(obs))
        if sig in seen:
            continue
        seen.add(sig)
        ctx.violate(clause, feats, L.canon_err(obs) if isinstance(obs, str) else str(obs), {"desc": desc, **extra}, what)
    if oracle and L.xml_expressible(desc):
        xml_route(ctx, desc, mc, ivals, plist, seen)
    else:
        ctx.count("xml_not_expressible_or_malformed")
    pending.append((desc, mc.queries, fam))


def flush_model(ctx, pending):
    drv = ctx.driver("drv_compu")
    if not drv.available():
        ctx.notes.append("driver drv_compu not built: correspondence skipped")
        pending.clear()
        return
    lines, sel = [], []
    for desc, queries, fam in pending:
        qs = [(op, v, r) for (op, v, r, fw, nt) in queries if fw]
        ctx.count("float_inexact_not_forwarded", len(queries) - len(qs))
        ctx.count("forwarded_to_model", len(qs))
        if qs:
            lines.append(L.request(desc, [(op, v) for op, v, _ in qs]))
            sel.append((desc, qs, fam))
    replies = drv.query(lines)
    for (desc, qs, fam), line, rep in zip(sel, lines, replies):
        try:
            res = L.parse_reply(rep, len(qs))
        except Exception as e:  # noqa
            ctx.disagree(fam, {"desc": desc}, rep[:300], f"unparseable reply: {e}")
            continue
        for (op, v, r), m in zip(qs, res):
            ctx.traces += 1
            if not L.same(m, r):
                if _float_noise(m, r):
                    ctx.count("float_inexact_vs_model")
                    continue
                ctx.disagree(fam, {"desc": desc, "op": op, "value": v}, str(m), str(r))
        if fam == "corpus" or ctx.rng.random() < 0.002:
            ctx.sample({"request": line[:400], "reply": rep[:200]})
    pending.clear()


def run(ctx):
    big = ctx.tier == "thorough"
    rng = ctx.rng
    pending = []
    limit_oracle(ctx)
    # (a) corpus
    for desc, ivals, pvals in corpus():
        run_method(ctx, desc, ivals, lambda imgs, pv=pvals: pv + [v for v in imgs if v not in pv], "corpus", pending)
    # (b)+(c) generated methods: correspondence and direct oracle on the same inputs
    n_methods = 10000 if big else 1500
    for n in range(n_methods):
        desc = L.gen_desc(rng)
        # thorough: every value of the 8-bit window for every second method, boundaries for the rest
        full = big and (n % 2 == 0)
        ivals = L.internal_values(rng, desc, full)
        run_method(ctx, desc, ivals, lambda imgs, d=desc, f=full: L.physical_values(rng, d, imgs, f),
                   desc.get("family") or "generated", pending)
        if len(pending) >= 400:
            flush_model(ctx, pending)
    # (d) all type pairs x categories at least once, exhaustive 8-bit window (also in quick)
    for cat in ("LINEAR", "SCALE-LINEAR", "TAB-INTP", "RAT-FUNC", "SCALE-RAT-FUNC"):
        for ity in L.NUM_TYPES:
            for pty in L.NUM_TYPES:
                for _ in range(3 if big else 1):
                    desc = L.gen_desc(rng, cat, ity, pty)
                    ivals = L.internal_values(rng, desc, True)
                    run_method(ctx, desc, ivals, lambda imgs, d=desc: L.physical_values(rng, d, imgs, True), "type-grid", pending)
    flush_model(ctx, pending)
    # (d2) TEXTTABLE around zero (round 3): values Python treats as false (0, 0.0, "") in every role — inverse value,
    #      lower/upper limit, default — with the other roles different from them.  Own random stream, so the
    #      streams of (b)-(e) are what they were.  Small scope exhaustively, then random methods.
    zrng = ctx.sub_rng("texttable-zero")
    for ity in L.SIGNED_ITYPES:
        for desc in L.texttable_small_scope(ity, -3, 3 if ity != "A_FLOAT32" or big else 1):
            ivals = L.internal_values(zrng, desc, False)
            run_method(ctx, desc, ivals, lambda imgs, d=desc: L.physical_values(zrng, d, imgs, False), desc["family"], pending)
    for n in range(2500 if big else 400):
        desc = L.gen_texttable_zero(zrng)
        ivals = L.internal_values(zrng, desc, big and n % 4 == 0)
        run_method(ctx, desc, ivals, lambda imgs, d=desc: L.physical_values(zrng, d, imgs, False), desc["family"], pending)
        if len(pending) >= 400:
            flush_model(ctx, pending)
    flush_model(ctx, pending)
    # (d3) decimal coefficients (round 6): doubles that are not the decimals they stand for, so that the two formulas of a
    #      continuous method differ at the common boundary by rounding noise.  Own random stream.
    drng = ctx.sub_rng("decimal")
    for desc in L.decimal_small_scope(big):
        ctx.count("decimal_kinks_with_double_noise", L.kink_noise(desc))
        ivals = L.internal_values(drng, desc, False)
        run_method(ctx, desc, ivals, lambda imgs, d=desc: L.physical_values(drng, d, imgs, False), desc["family"], pending)
        if len(pending) >= 400:
            flush_model(ctx, pending)
    for n in range(3000 if big else 400):
        desc = L.gen_decimal(drng) if n % 4 else L.gen_decimal_tab(drng)
        ctx.count("decimal_kinks_with_double_noise", L.kink_noise(desc))
        ivals = L.internal_values(drng, desc, big and n % 4 == 0)
        run_method(ctx, desc, ivals, lambda imgs, d=desc: L.physical_values(drng, d, imgs, False), desc["family"], pending)
        if len(pending) >= 400:
            flush_model(ctx, pending)
    flush_model(ctx, pending)
    # (e) malformed stream: constructor rejections and foreign errors, correspondence only
    for n in range(1500 if big else 300):
        desc = L.gen_malformed(rng)
        ivals = L.internal_values(rng, desc, False)[:12]
        run_method(ctx, desc, ivals, lambda imgs, d=desc: L.physical_values(rng, d, imgs, False)[:12], "malformed", pending)
    flush_model(ctx, pending)
    tot = ctx.counters.get("forwarded_to_model", 0) + ctx.counters.get("float_inexact_not_forwarded", 0)
    if tot:
        ctx.counters["share_forwarded_to_model"] = round(ctx.counters.get("forwarded_to_model", 0) / tot, 4)


def replay(ctx, data):
    """re-run the direct oracle on the witness; True = the property holds on it now"""
    w = data["witness"]
    if "limit" in w:
        from odxtools.compumethods.limit import IntervalType, Limit
        from odxtools.odxtypes import DataType
        lim, x = w["limit"], w["value"]
        ty = "A_INT32" if x[0] == "i" else "A_FLOAT64"
        obj = Limit(value_raw=None if lim["v"] is None else L._raw(lim["v"]), value_type=DataType(ty),
                    interval_type=None if lim["t"] is None else IntervalType(lim["t"]))
        f, g = (L.lower_ok, "complies_to_lower") if w["side"] == "lower" else (L.upper_ok, "complies_to_upper")
        return getattr(obj, g)(L.pyval(x)) == f(lim, x)
    clause = data["signature"]["clause"]
    mc = MethodCheck(w["desc"], w.get("route", "ctor"))
    if mc.cm is None:
        return False
    if clause == "xml-description":
        return xml_description_ok(mc)[0]
    if clause == "xml-equivalence":
        other = MethodCheck(w["desc"])
        return other.cm is not None and L.call(mc.cm, w["op"], w["value"]) == L.call(other.cm, w["op"], w["value"])
    if "internal" in w:
        mc.internal(w["internal"])
    if "physical" in w:
        mc.physical(w["physical"])
    if "image" in w:
        mc.physical(w["image"])
    return not any(v[0] == clause for v in mc.viol)


# --- tie of kind (1) (task W20): Gen/CompuSegmentApplies.lean is regenerated from RatFuncSegment.applies and LinearSegment.physical_applies /
# internal_applies of the current source and proved equal to the hand-written RatSeg.applies / LinSeg.physApplies / LinSeg.intApplies
# (Proofs/CompuSegmentAppliesGenEq.lean). NOTE: this block sits behind the helper definitions of the module; it only extends the lists.
LEAN_TARGETS = LEAN_TARGETS + ["OdxVerif.Props.C07GenSegment"]
THEOREMS = THEOREMS + [P + t for t in ["gen_ratSegApplies_eq", "gen_linSegPhysApplies_eq", "gen_linSegIntApplies_eq", "typeTest_eq",
                                       "C07_gen_segment_applies_tie", "C07_gen_ratfunc_applies"]]
TRUSTED = TRUSTED + ["translator harness/extract/py2lean.py + primitives lean/OdxVerif/Model/PyRt.lean for RatFuncSegment.applies, "
                     "LinearSegment.physical_applies / internal_applies (domain_type / physical_type / internal_type and the limit attributes = "
                     "fields of the model's RatSeg / LinSeg; DataType.python_type = identity on DType; isinstance(v, int|float), "
                     "issubclass(T, float), isinstance(v, T) = the glue valIsInt / valIsFloat / DType.isFloat / valIsInst of the generated file)"]


def regen_segment_applies(ctx):
    """Gen/CompuSegmentApplies.lean from the current source; Unsupported (source left the translator's subset) = broken obligation"""
    import common
    from extract import py2lean
    py2lean.regenerate_segment_applies(common.REPO, common.VERIF)


GENERATORS = list(globals().get("GENERATORS", [])) + [regen_segment_applies]
