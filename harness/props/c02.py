"""C02 — encoded PDUs are bit-exact with the ODX wire format."""
import json
import os
import subprocess
import sys

import atomic_lib as A
import c02_cases
import codec_oracles as O
import common
from odxgen import sexp as S

ID = "C02"
LEAN_TARGETS = ["OdxVerif.Props.C02", "OdxVerif.Props.C02Nested"]
DRIVERS = ["drv_codec"]
P = "OdxVerif.Codec."
THEOREMS = [P + t for t in ["C02_numrepr", "C02_atomic_layout", "C02_decode_reads", "C02_bit_exact_flat", "C02_bit_exact_struct", "Trees.enc_flat", "Obj.raw_eq_spec", "Obj.raw_spec", "Obj.canon_spec", "flat_described", "flat_undescribed", "read_place_roundtrip",
                            "getBit_place_inside", "getD_place_outside",
                            "C02_bit_exact_nested", "C02_overlap_iff_nested", "C02_bit_exact_nested_pre", "foot_reserved", "foot_nrcConst", "Desc.foot", "Desc.described", "descs_encodeMessage"]]
# W17 (round-6 constructors: Desc2 / Foot2) — appended
LEAN_TARGETS = LEAN_TARGETS + ["OdxVerif.Props.C02Nested2"]
THEOREMS = THEOREMS + [P + t for t in ["C02_bit_exact_nested2", "C02_overlap_iff_nested2", "C02_bytesize_padding_silent", "Desc2.foot", "Desc2.described",
                                       "descs2_encodeMessage", "Foot.to2", "Foot2.seq", "Foot2.sizePad", "foot2_structO", "Descs2.padOk_of_check",
                                       "exBits2_ok", "exBits2_padOk", "C02_nested2_covers_nested", "Descs.to2_ok", "Desc.to2_lay", "Desc.to2_mc"]]
GENERATORS = []
RULE = ("(a) atomic: EncodeState.emplace_atomic_value / DecodeState.extract_atomic_value on pre-filled buffers, every base type x legal "
        "(and illegal) encoding x bit length x bit position x byte order x boundary values, valid and malformed streams, strict and lenient; "
        "(b) composite: odxgen documents through the XML loader (all standard-length integer objects bit length x position x order; "
        "BYTE-SIZE structures x offsets; random nested composites incl. deliberately overlapping layouts) x generated values; each PDU is "
        "compared with the Lean *Spec* (lean/OdxVerif/Spec/Layout.lean, positional reference interpreter) and the overlap warning with the "
        "spec's overlap predicate; where the Lean Spec does not cover a construct (non-identical compu methods, plain BIT-MASK) the PDU is compared "
        "with the Python reference interpreter odxgen/refpdu.py instead; text tables over signed/unsigned integers x COMPU-INVERSE-VALUE "
        "absent/lower/upper/0/middle encoded with every text; xsd:boolean attributes are spelled true/1 and false/0; "
        "(c) every case is run under both bitstruct backends. distinct = distinct (description, value, trigger) or "
        "atomic case; non-trivial = the encoder accepted")
TRUSTED = ["Spec/Layout.lean is hand-written from the ODX positional rules, independently of Model/Codec.lean and of the odxtools source; "
           "it covers: the 4 diag-coded types without BIT-MASK, identical compu method, structures (BYTE-SIZE), the four field kinds, "
           "coded/phys const, value, reserved, matching-request, nrc-const, length-key; other constructs are counted as 'spec-unsupported' "
           "and checked by C01's round trip only",
           "atomic model lean/OdxVerif/Model/Atomic.lean tied to encodestate.py/decodestate.py by line-for-line reply comparison",
           "bitstruct (both backends) and Python str.encode/decode are modelled, not verified"]
ASSUMPTIONS = ["theorems cover the atomic tier (A_INT32, every encoding/bit length/position/byte order); the composite tier is decided by the "
               "executable Spec as oracle (differential), not by a theorem",
               "RESERVED and NRC-CONST parameters claim no bits (they never cause an overlap warning in the spec either)",
               "byte fields and strings whose bit length is not a multiple of 8 are outside the envelope (the two bitstruct backends differ there)"]


def regen_tables(ctx):
    from extract import texttables
    texttables.regen(ctx)


GENERATORS = [regen_tables]


def atomic_family(ctx, drv):
    rng = ctx.sub_rng("atomic")
    big = ctx.tier == "thorough"
    n = 60000 if big else 6000
    cases = []
    for i in range(n):
        valid = i % 3 != 0
        c = A.gen_emplace(rng, valid) if i % 2 == 0 else A.gen_extract(rng, valid)
        c["strict"] = (i % 7 != 0)
        cases.append(c)
    # exhaustive small scope: all (bit length, bit position, byte order, encoding) for integers with boundary values
    for bl in (range(1, 65) if big else [1, 2, 7, 8, 9, 15, 16, 17, 24, 31, 32, 33, 63, 64]):
        for bp in range(8):
            for hl in (True, False):
                for bt, encs in (("A_INT32", [None, "1C", "SM"]), ("A_UINT32", [None, "BCD-P"])):
                    for enc in encs:
                        for v in A.boundary_ints(bl)[:: (1 if big else 3)]:
                            cases.append({"op": "emplace", "bt": bt, "enc": enc, "hl": hl, "bp": bp, "bl": bl, "v": ["int", v], "pos": 1,
                                          "pre_msg": "a55a" if (bl + bp) % 2 else "", "pre_used": "0000" if (bl + bp) % 2 else "", "strict": True})
    import contextlib, io
    impl = []
    with contextlib.redirect_stdout(io.StringIO()), contextlib.redirect_stderr(io.StringIO()):
        for c in cases:
            impl.append(A.run_case(c))
    model = drv.query([A.request_line(c) for c in cases]) if drv.available() else None
    for k, c in enumerate(cases):
        r, exc = impl[k]
        ctx.case(json.dumps(c, sort_keys=True), nontrivial=r.startswith("(ok"))
        ctx.histo("atomic_base_type", c["bt"])
        ctx.histo("atomic_bit_length", c["bl"] if c["bl"] in A.HOT_BITLENS else "other")
        if model is not None:
            if model[k] == "(unsupported)":
                ctx.count("atomic_model_unsupported")
            else:
                ctx.traces += 1
                if model[k] != r:
                    ctx.disagree("atomic", c, model[k], r + (f" [{exc}]" if exc else ""))
    ctx.sample({"atomic-request": A.request_line(cases[0]), "impl": impl[0][0]})
    # backend independence (atomic)
    sub = cases[: (20000 if big else 4000)]
    try:
        pure = A.run_cases_pure(sub, common.REPO)
    except Exception as e:  # noqa
        ctx.notes.append(f"pure-backend worker failed: {e!r}")
        pure = None
    if pure is not None:
        for c, (r1, e1), p in zip(sub, impl, pure):
            ctx.count("backend_cases_atomic")
            if p[0] != r1:
                non_byte = c["bt"] not in ("A_INT32", "A_UINT32", "A_FLOAT32", "A_FLOAT64") and c["bl"] % 8 != 0
                if non_byte:
                    ctx.count("backend_diff_outside_envelope")
                    continue
                ctx.violate("backend-independence", ["atomic", c["op"], c["bt"]], "differs", c,
                            f"accelerated and pure-Python bitstruct backends give different results for {c['op']} of {c['bt']}: {r1} vs {p[0]}")


def python_reference(ctx, rep, comp, v, trig, r) -> bool:
    """compare an accepted encoding with odxgen.refpdu (simple tier: standard-length objects with any modelled compu method,
    structures, static fields, constants, RESERVED, request echo); False if the description is outside that tier"""
    from odxgen import refpdu
    try:
        ref_pdu, _used, ref_ov = refpdu.reference_pdu(comp, v, trig)
    except Exception:  # noqa  (Unsupported and anything the reference interpreter cannot handle)
        return False
    ctx.traces += 1
    ctx.count("python-reference-compared")
    ctx.histo("overlap", ref_ov)
    if (r.warns > 0) != ref_ov:
        rep.report("overlap-warning-iff-overlap", "warning-without-overlap" if r.warns else "overlap-without-warning", comp, v, trig,
                   {"pdu": r.pdu.hex(), "spec_pdu": ref_pdu.hex(), "warnings": r.warns, "oracle": "odxgen.refpdu"})
    elif not ref_ov and r.pdu != ref_pdu:
        rep.report("bit-exact", "pdu-differs-from-spec", comp, v, trig, {"pdu": r.pdu.hex(), "spec_pdu": ref_pdu.hex(), "oracle": "odxgen.refpdu"})
    return True


def composite_family(ctx, drv):
    rep = O.Reporter(ctx)
    lines, meta = [], []

    def on_case(i, family, comp, v, trig, r):
        O.record_features(ctx, comp)
        ctx.histo("family", family)
        ctx.case((S.composite(comp), repr(v), trig), nontrivial=r.ok)
        lines.append(f"(layout {S.composite(comp)} {S.pval(v)}" + (f" (trig {S.hx(trig)})" if trig is not None else "") + ")")
        meta.append((i, family, comp, v, trig, r))

    n = c02_cases.run_cases(ctx.seed, ctx.tier, on_case)
    ctx.count("composite_cases", n)
    if drv.available():
        # decoding reads the same bits back: the decoder's result on the produced PDU vs the model's decoder
        dlines, dmeta = [], []
        for (i, family, comp, v, trig, r) in meta:
            if r.ok and r.warns == 0 and S.modelled(comp):
                dlines.append(S.decode_line(comp, r.pdu))
                dmeta.append((comp, v, trig, r))
        dreplies = drv.query(dlines)
        for (comp, v, trig, r), mrep in zip(dmeta, dreplies):
            if mrep in ("(unsupported)", "(bad-args)"):
                ctx.count("decode_model_unsupported")
                continue
            ctx.traces += 1
            irep = O.reply_decode(r.msg)
            if irep != mrep:
                if r.msg.ok and mrep.startswith("(ok "):
                    rep.report("decode-reads-same-bits", "decoded-value-differs-from-model", comp, v, trig,
                               {"pdu": r.pdu.hex(), "impl": irep[:300], "model": mrep[:300]})
                else:
                    ctx.disagree("decode-after-encode", {"sexp": S.composite(comp)[:600], "pdu": r.pdu.hex()}, mrep[:400], irep[:400])
        replies = drv.query(lines)
        for (i, family, comp, v, trig, r), rep_line in zip(meta, replies):
            if not rep_line.startswith("(ok "):
                # constructs outside the Lean Spec (non-identical compu methods, BIT-MASK): second, independent reference
                # interpreter odxgen/refpdu.py (positional rules + exact compu conversion incl. COMPU-INVERSE-VALUE)
                if r.ok and python_reference(ctx, rep, comp, v, trig, r):
                    continue
                ctx.count("spec-unsupported" if r.ok else "spec-and-impl-reject")
                continue
            parts = rep_line[4:-1].split(" ")
            spec_pdu = bytes.fromhex(parts[0]) if parts[0] != "-" else b""
            spec_ov = parts[2].rstrip(")") == "t"
            if not r.ok:
                ctx.count("impl-rejects-what-spec-accepts:" + r.status)
                continue
            ctx.traces += 1
            ctx.histo("overlap", spec_ov)
            if (r.warns > 0) != spec_ov:
                rep.report("overlap-warning-iff-overlap", "warning-without-overlap" if r.warns else "overlap-without-warning", comp, v, trig,
                           {"pdu": r.pdu.hex(), "spec_pdu": spec_pdu.hex(), "warnings": r.warns})
            elif not spec_ov and r.pdu != spec_pdu:
                rep.report("bit-exact", "pdu-differs-from-spec", comp, v, trig, {"pdu": r.pdu.hex(), "spec_pdu": spec_pdu.hex()})
        if meta:
            ctx.sample({"layout-request": lines[0][:400], "spec": replies[0][:120], "impl": meta[0][5].pdu.hex() if meta[0][5].ok else meta[0][5].status})
    else:
        ctx.notes.append("drv_codec not built: spec oracle skipped")
    # backend independence (composite): same deterministic case list in a pure-backend interpreter
    try:
        p = subprocess.run([sys.executable, str(common.VERIF / "harness" / "c02_cases.py"), str(ctx.seed), ctx.tier],
                           capture_output=True, text=True, env=dict(os.environ, ODX_REPO=str(common.REPO)), timeout=3000)
        pure = [json.loads(l) for l in p.stdout.splitlines() if l.startswith("[")]
        if p.returncode != 0 or len(pure) != len(meta):
            ctx.notes.append(f"pure-backend composite worker: rc={p.returncode} lines={len(pure)} expected={len(meta)} {p.stderr[-300:]}")
        else:
            for (i, family, comp, v, trig, r), (j, st, pdu, warned) in zip(meta, pure):
                ctx.count("backend_cases_composite")
                mine = (r.status, r.pdu.hex() if r.ok else "", (r.warns > 0) if r.ok else False)
                if mine != (st, pdu, warned):
                    rep.report("backend-independence", "differs", comp, v, trig, {"accelerated": list(mine), "pure": [st, pdu, warned]})
    except Exception as e:  # noqa
        ctx.notes.append(f"pure-backend composite worker failed: {e!r}")


def run(ctx):
    drv = ctx.driver("drv_codec")
    atomic_family(ctx, drv)
    composite_family(ctx, drv)


def replay(ctx, data):
    w = data["witness"]
    if "op" in w:
        r1, _ = A.run_case(w)
        pure = A.run_cases_pure([w], common.REPO)
        return pure[0][0] == r1
    # composite witness: encode the recorded value again and compare with the Lean Spec layout (or, outside the Spec, with
    # odxgen.refpdu), and decode the PDU against the model's decoder
    from odxgen import desc as D, values as V
    comp = D.from_json(w["desc"])
    L, err = O.safe_load(comp)
    if L is None:
        return False
    v = V.from_jsonable(w.get("value"))
    trig = bytes.fromhex(w["trig"]) if w.get("trig") else None
    r = O.impl_encode(L[comp.name], v, trig)
    if not r.ok:
        return True                                    # nothing encoded, nothing to be inexact about
    drv = ctx.driver("drv_codec")
    if not drv.available():
        return False
    line = f"(layout {S.composite(comp)} {S.pval(v)}" + (f" (trig {S.hx(trig)})" if trig is not None else "") + ")"
    rep_line = drv.query([line])[0]
    if rep_line.startswith("(ok "):
        parts = rep_line[4:-1].split(" ")
        spec_pdu = bytes.fromhex(parts[0]) if parts[0] != "-" else b""
        spec_ov = parts[2].rstrip(")") == "t"
        if (r.warns > 0) != spec_ov or (not spec_ov and r.pdu != spec_pdu):
            return False
    else:
        from odxgen import refpdu
        try:
            ref_pdu, _u, ref_ov = refpdu.reference_pdu(comp, v, trig)
            if (r.warns > 0) != ref_ov or (not ref_ov and r.pdu != ref_pdu):
                return False
        except Exception:  # noqa
            pass
    if r.warns == 0 and S.modelled(comp):
        mrep = drv.query([S.decode_line(comp, r.pdu)])[0]
        d = O.impl_decode(L[comp.name], r.pdu)
        if mrep not in ("(unsupported)", "(bad-args)") and mrep.startswith("(ok ") and d.ok and O.reply_decode(d) != mrep:
            return False
    return True


# W22 (RESERVED / NRC-CONST as constructors: Desc2R, Lay2.skip wired in; A_UNICODE2STRING low-high leaf) — appended
LEAN_TARGETS = LEAN_TARGETS + ["OdxVerif.Props.C02Nested2R"]
THEOREMS = THEOREMS + [P + t for t in ["C02_bit_exact_nested2R", "C02_overlap_iff_nested2R", "C02_skipped_no_entry",
                                       "C02_unclaimed_field_reads_zero", "Foot2.skip", "Desc2R.foot", "Descs2R.footTop",
                                       "descs2R_encodeMessage", "field_reads_zero", "reserved_reads_zero", "Comp.ofU16LE_foot",
                                       "Descs2R.padOk_of_check", "Descs2R.ofBase_lay", "exRes_layout", "exResOverlap_layout",
                                       "exU16Req_layout"]]


# W29 (compu DOP as MULTIPLEXER switch key / DYNAMIC-LENGTH-FIELD count, W23 leaves: Desc3b mirrors Described3b) — appended
# (C02_bit_exact_nested3 / C02_overlap_iff_nested3 of W21 live in Proofs/CompCompuBitsMsg.lean, which this target imports)
LEAN_TARGETS = LEAN_TARGETS + ["OdxVerif.Props.C02Nested3b"]
THEOREMS = THEOREMS + [P + t for t in ["C02_bit_exact_nested3b", "C02_overlap_iff_nested3b", "C02_bit_exact_nested3",
                                       "C02_overlap_iff_nested3", "Desc3b.foot", "Desc3b.described", "Descs3b.footTop",
                                       "descs3b_encodeMessage", "foot2_muxConv", "foot2_dynLenConv", "MuxLayout.okConv_lin",
                                       "DynLayout.okConv_lin", "Descs3b.ofBase_lay", "Descs3b.ofBase_ok", "exD9_ok", "exD9_layout",
                                       "exD9_enc", "exD9_disj", "exD12_ok", "exD12_layout", "exD13_layout"]]
# W29 (C): UTF-16LE leaves inside field items / multiplexer cases (Desc2U mirrors Described2U = Described2X LeafU)
THEOREMS = THEOREMS + [P + t for t in ["C02_bit_exact_nested2U", "C02_overlap_iff_nested2U", "Desc2U.foot", "Desc2U.described",
                                       "Descs2U.footTop", "descs2U_encodeMessage", "exDU_ok", "exDU_layout"]]
