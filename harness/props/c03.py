"""C03 — decoding a PDU and re-encoding the result reproduces the PDU; compu int -> phys -> int is the identity."""
from fractions import Fraction as Fr

import codec_oracles as O
import compu_lib as CL
from odxgen import desc as D
from odxgen import gen as G
from odxgen import refpdu
from odxgen import sexp as S
from odxgen import values as V

ID = "C03"
# LEAN_TARGETS / THEOREMS: filled in by the author of the Lean codec/compu model (planned: OdxVerif.Props.C03 with
# C03_reencode, C03_compu_roundtrip)
LEAN_TARGETS = ['OdxVerif.Props.C03', 'OdxVerif.Props.C07', 'OdxVerif.Props.C03Nested']
DRIVERS = ["drv_codec"]
THEOREMS = ["OdxVerif.Codec." + t for t in ['C03_reencode_struct', 'C03_reencode_flat', 'C03_no_warning_without_overlap', 'C03_reencode_partial', 'C03_negative_zero_counterexample', 'reenc_agree', 'encAll_nowarn',
                                              'C03_reencode_nested', 'C03_encoded_is_canonical', 'C03_empty_dynlen_before_offset_counterexample', 'C03_static_padding_behind_end_counterexample', 'descs_reencode_pure', 'Descs.supplied_eq_decoded']]
# W17 (round-6 constructors: Desc2 / Foot2) — appended
LEAN_TARGETS = LEAN_TARGETS + ['OdxVerif.Props.C03Nested2']
THEOREMS = THEOREMS + ["OdxVerif.Codec." + t for t in ['C03_reencode_nested2', 'C03_reencode_nested2_echo', 'C03_encoded_is_canonical2', 'descs2_reencode_pure',
                                                        'Descs2.supplied_eq_decoded', 'exRe2_ok', 'exRe3_ok']]
RULE = ("PDUs 'from the wire': for simple-tier descriptions (standard-length objects of all base types/encodings/byte orders/bit positions in "
        "nested structures with/without BYTE-SIZE, static fields, bit-packed groups) every raw value of objects <= 8 bit and boundary/sampled raw "
        "values of wider ones are placed by the independent positional interpreter odxgen/refpdu.py, restricted to canonical PDUs (canonPdu, "
        "documented in harness/codec_oracles.py); plus PDUs produced by the encoder from canonical values for descriptions of the full envelope "
        "(fields, mux, tables, DTC, env data, length keys, min-max/leading/param-length types); enumerated from the wire: every way a DTC-DOP obtains "
        "its DTCs (own / DTC-REF / LINKED-DTC-DOPS with NOT-INHERITED, shadowing, chains, declaration orders) with every described and every "
        "not described trouble code, and MIN-MAX-LENGTH objects of every base type x termination x byte order x min/max x end-of-PDU with every "
        "value of <= 3 (two-byte units: 2) code units over the bytes 00/ff/41 (+1 unit over termination byte/41); compu methods of six categories from "
        "harness/compu_lib.py with every internal value of the 8-bit window, including coefficients written as decimal fractions (enumerated two-segment "
        "SCALE-LINEAR small scope x kink value 0 / non-zero, random decimal SCALE-LINEAR / LINEAR / TAB-INTP); the injective ones also behind a DATA-OBJECT-PROP "
        "of a request loaded from XML, PHYSICAL-TYPE with every PRECISION (none,0..3) x DISPLAY-RADIX (none,HEX,DEC,BIN,OCT) combination, every PDU 22xx whose "
        "internal value the method converts there and back (Request.decode -> Request.encode); simple DOPs of the random families carry these display hints "
        "with p = 0.35. distinct = distinct (description, PDU) resp. (compu method, internal value); "
        "non-trivial = the PDU decodes and has more than one byte")
TRUSTED = ["odxgen/refpdu.py (positional reference interpreter, ~250 lines) and the exact compu emulation in odxgen/values.py",
           "harness/compu_lib.py generators/Spec (written for C07) for the compu family",
           "odxgen/desc.effective_dtcs: the DTCs a DTC-DOP describes (own DTC children, DTC-REFs, DTCs inherited through LINKED-DTC-DOPS minus "
           "NOT-INHERITED / shadowed ones) - the model receives this flattened list, the XML document the references (compared with "
           "odxtools' DtcDop.dtcs in family wire-enum-dtc-sources)",
           "odxgen/refpdu.sequential_pdu / minmax_wire_length (~70 lines): wire form of MIN-MAX-LENGTH objects written from the ODX rules "
           "(value ends in front of the first ALIGNED termination sequence at an offset >= MIN-LENGTH, at MAX-LENGTH or at the end of the PDU)"]
ASSUMPTIONS = ["PRECISION and DISPLAY-RADIX of PHYSICAL-TYPE are display hints (odxtools physicaltype.py: 'how to display the physical value'): they take part in no conversion, so the model does not receive them",
               "re-encoding feeds the decoded dictionary back unchanged except that values of NRC-CONST parameters are dropped (odxtools refuses them by design)",
               "canonical switch keys: a mux case is re-encoded by name, i.e. with the lower limit of its range (0 for the default case)",
               "'injective' = real physical type with strictly monotone conversion, or integer physical type with every |slope| >= 1; a rounding tie "
               "(two valid internals with the same rounded physical value although |slope| >= 1) is reported (ledger row 15), not excluded",
               "decode of a reference-built PDU is additionally compared with the values that were placed (clause wire-decode)"]


def corpus():
    u8, val, C = D.u8, D.value, D.Composite
    out = []
    s1 = D.Struct([val("a", u8())], bytesize=3)
    out.append(("byte-size-struct-offset", C("RQ", "request", [D.sid(), val("x", u8()), val("s", s1), val("y", u8())]), "220102000003", None))
    out.append(("bit-mask-low-high", C("RQ", "request", [D.sid(), val("x", D.SimpleDop(D.Std("A_UINT32", 16, None, False, mask=0x00FF), "A_UINT32"))]),
                "22ab00", None))
    t = D.Table(u8(), [D.TableRow("r1", 1, struct=D.Struct([val("a", u8())])), D.TableRow("r2", 2, dop=u8(16))])
    out.append(("static-table-row", C("RQ", "request", [D.sid(), D.table_key("tk", t, row="r2"), D.table_struct("ts", "tk")]), "221234", None))
    lk = D.Struct([D.length_key("k", u8()), val("b", D.SimpleDop(D.ParamLen("A_BYTEFIELD", "k"), "A_BYTEFIELD"))])
    out.append(("length-key-in-nested-struct", C("RQ", "request", [D.sid(), val("s", lk), val("y", u8())]), "2218010203ee", None))
    mux = D.Mux(2, 0, None, u8(), [D.MuxCase("c1", 1, 1, None), D.MuxCase("c2", 2, 2, D.Struct([val("a", u8())]))])
    out.append(("mux-structureless-case-gap", C("RQ", "request", [D.sid(), val("m", mux), val("y", u8())]), "22010077", None))
    lin = D.SimpleDop(D.Std("A_UINT32", 8), "A_INT32", D.Linear(-40, 1, 1))
    out.append(("linear-offset", C("RQ", "request", [D.sid(), val("t", lin)]), "2200", None))
    out.append(("signed-1c-sm", C("RQ", "request", [val("a", D.SimpleDop(D.Std("A_INT32", 8, "1C"), "A_INT32")), val("b", D.SimpleDop(D.Std("A_INT32", 8, "SM"), "A_INT32"))]),
                "fe81", None))
    return out


def compu_corpus():
    vi, vf = CL.vi, CL.vf
    pts = lambda ps, pty: [{"lo": {"v": vi(x), "t": "CLOSED"}, "hi": None, "inv": None, "const": CL.vnum(y, pty), "num": None, "den": []} for x, y in ps]
    cl = lambda a, b: ({"v": vi(a), "t": "CLOSED"}, {"v": vi(b), "t": "CLOSED"})
    out = []
    out.append(("tab-intp-truncation", {"cat": "TAB-INTP", "ity": "A_UINT32", "pty": "A_UINT32", "i2p": {"scales": pts([(0, 0), (10, 20)], "A_UINT32"), "default": None}, "p2i": None}))
    out.append(("tab-intp-half", {"cat": "TAB-INTP", "ity": "A_UINT32", "pty": "A_FLOAT64", "i2p": {"scales": pts([(0, 0), (10, 5)], "A_FLOAT64"), "default": None}, "p2i": None}))
    lo, hi = cl(0, 10)
    lo2, hi2 = cl(10, 20)
    out.append(("scale-linear-monotone", {"cat": "SCALE-LINEAR", "ity": "A_UINT32", "pty": "A_UINT32", "i2p": {"scales": [
        {"lo": lo, "hi": hi, "inv": None, "const": None, "num": [vi(0), vi(1)], "den": []},
        {"lo": lo2, "hi": hi2, "inv": None, "const": None, "num": [vi(-10), vi(2)], "den": []}], "default": None}, "p2i": None}))
    lo, hi = cl(0, 100)
    out.append(("rat-func-linear-inverse", {"cat": "RAT-FUNC", "ity": "A_UINT32", "pty": "A_FLOAT64", "i2p": {"scales": [
        {"lo": lo, "hi": hi, "inv": None, "const": None, "num": [vf(1), vf(2)], "den": [vf(1)]}], "default": None},
        "p2i": {"scales": [{"lo": {"v": vf(1), "t": "CLOSED"}, "hi": {"v": vf(201), "t": "CLOSED"}, "inv": None, "const": None, "num": [vi(-1), vi(1)], "den": [vi(2)]}], "default": None},
        "inv_exact": True}))
    out.append(("linear-rounding-tie", {"cat": "LINEAR", "ity": "A_UINT32", "pty": "A_UINT32", "i2p": {"scales": [
        {"lo": None, "hi": None, "inv": None, "const": None, "num": [vi(1), vi(2)], "den": [vi(2)]}], "default": None}, "p2i": None}))
    return out


# ------------------------------------------------------------------ compu family
def slopes_of(desc):
    """list of exact slopes of the pieces of a (piecewise) linear conversion, None if not piecewise linear"""
    cat = desc["cat"]
    sc = (desc.get("i2p") or {}).get("scales") or []
    try:
        if cat in ("LINEAR", "SCALE-LINEAR"):
            out = []
            for s in sc:
                o, f, d = CL.lin_coeffs(s)
                if d == 0:
                    return None
                out.append(f / d)
            return out
        if cat == "TAB-INTP":
            xs = [CL.frac(s["lo"]["v"]) for s in sc]
            ys = [CL.frac(s["const"]) for s in sc]
            if any(x1 <= x0 for x0, x1 in zip(xs, xs[1:])):
                return None
            return [(y1 - y0) / (x1 - x0) for x0, x1, y0, y1 in zip(xs, xs[1:], ys, ys[1:])]
        if cat == "RAT-FUNC" and "inv_exact" in desc and desc.get("p2i") is not None:
            s = sc[0]
            o, f, d = CL.lin_coeffs(s)
            return [f / d] if len(s["num"]) == 2 and len(s.get("den") or []) <= 1 and d != 0 else None
    except Exception:  # noqa
        return None
    return None


def injective(desc):
    """the statement's notion: real physical type (strictly monotone conversion) or integer physical type with |slope| >= 1"""
    cat = desc["cat"]
    if cat == "IDENTICAL":
        return True
    sl = slopes_of(desc)
    if not sl or any(s == 0 for s in sl) or not (all(s > 0 for s in sl) or all(s < 0 for s in sl)):
        return False
    if cat == "SCALE-LINEAR" and not CL.Spec(desc).invertible():
        return False
    if cat == "LINEAR" and len(sl) != 1:
        return False
    if desc["pty"] in CL.INT_TYPES:
        return all(abs(s) >= 1 for s in sl)
    return True


def compu_case(ctx, desc, family, tag=None, wire=None):
    """wire (CompuWire | None): the internal values whose conversion round trip holds on the bare compu method are also sent
    through Request.decode -> Request.encode as PDUs of a request whose DOP carries the method (loaded from XML)"""
    cm, err = CL.try_build(desc)
    if cm is None:
        ctx.count("compu_build_rejected:" + err)
        return
    inj = injective(desc)
    ctx.histo("compu_category", desc["cat"] + ("/injective" if inj else "/not-injective"))
    ctx.histo("compu_types", desc["ity"] + "->" + desc["pty"])
    if not inj or desc["ity"] not in CL.INT_TYPES:
        return
    lo, hi = CL._dom(desc["ity"])
    images = {}
    bad, good = [], []
    for i in range(lo, hi + 1):
        try:
            if cm.is_valid_internal_value(i) is not True:
                continue
            p = cm.convert_internal_to_physical(i)
        except Exception as e:  # noqa
            ctx.count("compu_forward_error:" + O.err_class(e))
            continue
        ctx.case(("compu", repr(desc.get("i2p")), desc["ity"], desc["pty"], desc["cat"], i))
        ctx.count("compu_internal_values_checked")
        images.setdefault(repr(p), []).append(i)
        try:
            okp = cm.is_valid_physical_value(p)
            back = cm.convert_physical_to_internal(p) if okp else None
            obs = None if (okp and back == i and type(back) is int) else ("physical-value-rejected" if not okp else "different-internal")
        except Exception as e:  # noqa
            back, obs = None, O.err_class(e)
        if obs:
            bad.append((i, p, back, obs))
        else:
            good.append(i)
    if wire is not None and good:
        wire.add(desc, good, "wire-" + family)
    if not bad:
        return
    ties = {i for v in images.values() if len(v) > 1 for i in v}
    i, p, back, obs = bad[0]
    tie = i in ties
    if not tie and desc["pty"] in CL.INT_TYPES:
        # the exact image lies half way between two integers: it collides with the image of a neighbour (possibly
        # of an excluded OPEN limit, which makes odxtools reject the physical value)
        try:
            q = CL.Spec(desc).forward_exact(CL.vi(i))
            tie = isinstance(q, Fr) and q.denominator == 2
        except Exception:  # noqa
            pass
    feats = [tag] if tag else [desc["cat"], "int-physical" if desc["pty"] in CL.INT_TYPES else "real-physical"]
    if tie:
        feats, obs = ["rounding-tie"], "no-unique-inverse"     # one signature for the whole family (ledger row 15)
    key = ("compu", tuple(feats), obs)
    if key in compu_case.seen:
        ctx.count("violations_duplicate[compu/%s]" % obs)
        return
    compu_case.seen.add(key)
    ctx.violate("compu-int-phys-int", feats, obs,
                {"compu": desc, "internal": i, "physical": repr(p), "back": repr(back), "n_failing_internals": len(bad)},
                f"{desc['cat']} {desc['ity']}->{desc['pty']}: internal {i} -> physical {p!r} -> {back!r} ({obs})"
                + (" [two valid internal values share this physical value although every |slope| >= 1]" if tie else ""))


compu_case.seen = set()


# ------------------------------------------------------------------ compu methods behind a DATA-OBJECT-PROP, from the wire (round 7)
#: the optional parts of PHYSICAL-TYPE (display hints): PRECISION child x DISPLAY-RADIX attribute, all 25 combinations cycled
PRECISIONS = (1, None, 0, 2, 3)
RADICES = (None, "HEX", "DEC", "BIN", "OCT")


def phys_attrs(n):
    return PRECISIONS[n % 5], RADICES[(n // 5) % 5]


def _od_limit(l):
    return None if l is None else (None if l["v"] is None else CL.pyval(l["v"]), l["t"])


def _od_scales(side):
    return [{"lower": _od_limit(s.get("lo")), "upper": _od_limit(s.get("hi")),
             "inv": None if s.get("inv") is None else CL.pyval(s["inv"]),
             "const": None if s.get("const") is None else CL.pyval(s["const"]),
             "num": None if s.get("num") is None else [CL.pyval(x) for x in s["num"]],
             "den": [CL.pyval(x) for x in s.get("den") or []]} for s in (side or {}).get("scales") or []]


def compu_request(desc, n, name="RQ"):
    """request `22 xx`: one 8-bit VALUE parameter whose DOP carries the compu method `desc` (a compu_lib description, emitted
    as XML by odxgen) and the n-th combination of PHYSICAL-TYPE display hints"""
    if desc["cat"] == "IDENTICAL":
        cm = D.Identical()
    else:
        cm = D.OtherCompu(desc["cat"], _od_scales(desc.get("i2p")), _od_scales(desc.get("p2i")) or None,
                          None if (desc.get("i2p") or {}).get("default") is None else CL.pyval(desc["i2p"]["default"]))
    prec, radix = phys_attrs(n)
    dop = D.SimpleDop(D.Std(desc["ity"], 8), desc["pty"], cm, precision=prec, radix=radix)
    return D.Composite(name, "request", [D.sid(), D.value("x", dop)])


def simple_dops(comp):
    """every simple DOP of a composite (parameters at any depth, table rows / keys, count / switch / termination objects)"""
    seen, out = set(), []

    def add(d):
        if isinstance(d, D.SimpleDop) and id(d) not in seen:
            seen.add(id(d))
            out.append(d)
    for p, _depth in D.walk_params(comp.params):
        add(p.dop)
        for a in ("countdop", "switch_dop", "termdop"):
            add(getattr(p.dop, a, None))
        if p.table is not None:
            add(p.table.keydop)
            for r in p.table.rows:
                add(r.dop)
    return out


def with_display_hints(prng, comp, p=0.35):
    """the random families: each simple DOP gets, with probability p, one of the 24 PRECISION x DISPLAY-RADIX combinations (drawn from
    a random stream of its own: the shared description generator is untouched); histogram `physical_type_hints_random`"""
    try:
        for d in simple_dops(comp):
            if prng.random() < p:
                d.precision, d.radix = phys_attrs(prng.randrange(1, 25) if prng.random() < 0.9 else 1)
    except Exception:  # noqa
        pass
    return comp


class CompuWire:
    """collects (description, internal values whose compu round trip holds) and pushes the PDUs `22 <internal>` through
    Request.decode -> Request.encode in documents of `per_doc` requests"""

    def __init__(self, ctx, rep, per_doc=40):
        self.ctx, self.rep, self.per_doc, self.pending, self.n = ctx, rep, per_doc, [], 0

    def add(self, desc, internals, family):
        self.pending.append((desc, internals, family, self.n))
        self.n += 1
        if len(self.pending) >= self.per_doc:
            self.flush()

    def flush(self):
        ctx, todo, self.pending = self.ctx, self.pending, []
        if not todo:
            return
        try:
            comps = [compu_request(d, n, "RQ%d" % k) for k, (d, _i, _f, n) in enumerate(todo)]
        except Exception as e:  # noqa
            ctx.count("compu_wire_generation_error:" + type(e).__name__)
            return
        L, err = O.safe_load(comps)
        if L is None:
            # one description the loader refuses must not hide the others
            if len(todo) > 1:
                for t in todo:
                    self.pending = [t]
                    self.flush()
            else:
                ctx.count("compu_wire_rejected_by_loader:" + (err or "").split(":")[0])
            return
        ctx.count("documents_loaded")
        for c, (desc, internals, family, n) in zip(comps, todo):
            prec, radix = phys_attrs(n)
            ctx.histo("family", family)
            ctx.histo("physical_type_hints", "precision=%s radix=%s" % (prec, radix))
            feats = [desc["cat"], "int-physical" if desc["pty"] in CL.INT_TYPES else "real-physical"] + \
                (["precision"] if prec is not None else []) + (["display-radix"] if radix is not None else []) + ["compu-behind-dop"]
            try:
                obj = L[c.name]
            except Exception as e:  # noqa
                ctx.count("compu_wire_lookup_error:" + type(e).__name__)
                continue
            for i in internals:
                pdu = bytes([0x22, i & 0xFF])
                try:
                    r, dec, enc = O.c03_eval(c, obj, pdu, None)
                except Exception as e:  # noqa
                    r, dec = ("re-encode", "foreign:" + type(e).__name__, {"pdu": pdu.hex()}), None
                ctx.case(("compu-wire", repr(desc.get("i2p")), desc["ity"], desc["pty"], desc["cat"], prec, radix, i),
                         nontrivial=bool(dec is not None and dec.ok))
                ctx.count("compu_wire_pdus")
                if r is None and dec is not None and not dec.ok:
                    # the compu method declares the internal value valid (and converts it there and back): the PDU must decode
                    r = ("wire-decode", dec.status, {"pdu": pdu.hex(), "error": dec.msg})
                if r:
                    self.rep.report(r[0], r[1], c, None, None, r[2], fixed_features=feats,
                                    what=f"{desc['cat']} {desc['ity']}->{desc['pty']} behind a DOP (PRECISION {prec}, DISPLAY-RADIX {radix}): "
                                         f"PDU {pdu.hex()}: {r[0]} / {r[1]} {str(r[2])[:200]}")


# ------------------------------------------------------------------ PDU families
def wire_family(ctx, rep, corr, comps, family, rng, cap, cap_all=False, only=None, extra_raws=None):
    """extra_raws: composite name -> raw values of the slot `only` which are NOT canonical / not described (e.g. trouble codes the
    DTC-DOP does not inherit): their PDUs go through the re-encode check and the correspondence only (no expected value)"""
    L, err = O.safe_load(comps)
    if L is None:
        if len(comps) > 1:
            for c in comps:
                wire_family(ctx, rep, corr, [c], family, rng, cap, cap_all, only, extra_raws)
        else:
            ctx.count("documents_rejected_by_loader")
            if family in MUST_LOAD:
                ctx.violate("loads", [family], (err or "").split(":")[0], O.witness(comps[0], None, None),
                            f"enumerated description of family {family} rejected by the loader: {err}")
        return
    ctx.count("documents_loaded")
    for c in comps:
        obj = L[c.name]
        O.record_features(ctx, c)
        ctx.histo("family", family)
        try:
            pdus = list(O.wire_pdus(rng, c, cap=cap, cap_all=cap_all, only=only))
        except V.Unsupported:
            ctx.count("wire_unsupported_description")
            continue
        except Exception as e:  # noqa
            ctx.count("wire_generation_error:" + type(e).__name__)
            continue
        for pdu, exp, trig in pdus:
            # (clause wire-decode: the values decode reads from a reference-built PDU are the values that were placed)
            r = O.c03_check(ctx, rep, corr, c, obj, pdu, trig, family, placed=exp)
            ctx.count("wire_pdus")
        for raw in (extra_raws or {}).get(c.name, []):
            try:
                sl, length = refpdu.slots(c)
                raws = {s.path: (raw if s.path in only else 0xA5 & s.mask) for s in sl if s.kind == "value"}
                pdu, _used, overlap = refpdu.assemble(sl, length, raws, None)
            except Exception as e:  # noqa
                ctx.count("wire_generation_error:" + type(e).__name__)
                continue
            O.c03_check(ctx, rep, corr, c, obj, pdu, None, family, shrinkable=False)
            ctx.count("wire_pdus_not_described")


def finding_corpus():
    """(tag, composite, PDU hex, what): witnesses of recorded findings, each reported under its fixed signature (features = [tag]).
    An OPEN finding (known_findings.jsonl) is expected to reproduce; a FIXED one must not (a fixed entry suppresses nothing: the witness
    is a regression test of the repair and a VIOLATION on an unrepaired tree).
    The first two were found by the proof of C03_reencode_nested, which needs `extent <= pdu.length` (hypothesis hext):
    the decoder's cursor jumps (to OFFSET of a dynamic-length field, to the next ITEM-BYTE-SIZE boundary of a static field) are not checked
    against the end of the PDU, so a PDU that ends before them decodes, and re-encoding the result yields a LONGER byte string"""
    u8, val = D.u8, D.value
    return [
        ("dynlen-empty-before-offset", D.Composite("RQ", "request", [val("df", D.DynLenField(2, 0, None, u8(), D.Struct([val("x", u8())])))]), "00",
         "an empty DYNAMIC-LENGTH-FIELD whose OFFSET lies behind the end of the PDU: decode(00) = {df: []} but encode(df=[]) = 00 00 (the gap up to "
         "OFFSET is emitted by the encoder, not required by the decoder)"),
        ("static-field-padding-behind-pdu-end", D.Composite("RQ", "request", [val("sf", D.StaticField(1, 2, D.Struct([val("x", u8())])))]), "05",
         "a STATIC-FIELD item shorter than ITEM-BYTE-SIZE at the end of the PDU: decode(05) = {sf: [{x: 5}]} but encode = 05 00 (the item padding is "
         "emitted by the encoder, not required by the decoder)"),
        # FIXED (fixes/c03-dtc-dop-encoder-compares-coded-value.patch); found by the proof of DtcLinLeaf.convOk (W23: forced clause `known_internal`)
        ("dtc-dop-encoder-compares-coded-value",
         D.Composite("RQ", "request", [D.sid(), val("d", D.DtcDop(D.Std("A_UINT32", 8), "A_UINT32", D.Linear(0, 2), [(0x10, "A"), (0x20, "B")]))]), "2208",
         "DTC-DOP with a LINEAR compu method (trouble code = 2 * coded value), DTCs 0x10 'A' and 0x20 'B': decode(22 08) = {d: DTC A} but "
         "encode(d=A) raised EncodeError 'Unknown diagnostic trouble code': DtcDop.encode_into_pdu looked the CODED value (0x08) up among the "
         "(physical) trouble codes of the DTCs; encode(d=B) = 22 10 was accepted only because 0x10 happens to be the trouble code of A"),
    ]


#: enumerated families whose descriptions are well-formed by construction: a loader rejection is a finding, not a skip
MUST_LOAD = {"wire-enum-dtc-sources", "wire-enum-minmax"}


def dtc_sources_family(ctx, rep, corr, rng):
    """(b2) every way a DTC-DOP obtains its DTCs (G.enum_dtc_sources): one PDU per described trouble code, built by refpdu (wire-decode
    + re-encode with the decoded DiagnosticTroubleCode object), one per trouble code of the document that is NOT described"""
    for chunk in batches(G.enum_dtc_sources(), 25):
        extra = {}
        for c, codes in chunk:
            eff = {x for x, _ in D.effective_dtcs(c.params[1].dop)}
            dd = c.params[1].dop
            # raw (coded) values that are NOT described: the coded values of the document's other trouble codes, and — LINEAR — the described
            # trouble codes themselves taken as coded values (what the unrepaired DTC-DOP encoder compared) unless their image is described
            pre = [D.dtc_coded_of_code(dd, x) for x in codes if x not in eff] + [x for x in sorted(eff) if not isinstance(dd.compu, D.Identical)]
            extra[c.name] = [x for x in pre if x is not None and 0 <= x < (1 << dd.dct.bitlen) and D.dtc_code_of_coded(dd, x) not in eff] + [0]
            ctx.histo("dtc_source_shape", next(iter(c.meta)).split(":", 1)[1])
        wire_family(ctx, rep, corr, [c for c, _ in chunk], "wire-enum-dtc-sources", rng, 40, only={("d",)}, extra_raws=extra)
        # the model is handed the flattened DTC list (D.effective_dtcs): tie it to what the loaded DTC-DOP describes
        L, err = O.safe_load([c for c, _ in chunk])
        for c, _codes in (chunk if L is not None else []):
            want = [[x, n] for x, n in D.effective_dtcs(c.params[1].dop)]
            try:
                got = [[d.trouble_code, d.short_name] for d in L[c.name].parameters[1].dop.dtcs]
            except Exception as e:  # noqa
                got = "foreign:" + type(e).__name__
            ctx.traces += 1
            if got != want:
                ctx.disagree("dtc-sources", S.composite(c)[:3000], repr(want), repr(got))
    corr.flush()


def minmax_wire_family(ctx, rep, corr, big):
    """(b3) MIN-MAX-LENGTH objects from the wire (G.enum_minmax_wire): the PDU of every enumerated value that has a canonical wire form
    is written down by refpdu.sequential_pdu (value, terminator where the ODX rules put one, following parameter)"""
    groups = {}
    for c, v in G.enum_minmax_wire(full=big):
        groups.setdefault(c.name, (c, []))[1].append(v)
    for chunk in batches(groups.values(), 24):
        comps = [c for c, _ in chunk]
        L, err = O.safe_load(comps)
        if L is None:
            ctx.count("documents_rejected_by_loader")
            ctx.violate("loads", ["wire-enum-minmax"], (err or "").split(":")[0], O.witness(comps[0], None, None),
                        f"enumerated min-max descriptions rejected by the loader: {err}")
            continue
        ctx.count("documents_loaded")
        for c, vals in chunk:
            obj = L[c.name]
            O.record_features(ctx, c)
            ctx.histo("family", "wire-enum-minmax")
            for v in vals:
                try:
                    r = refpdu.sequential_pdu(c, v)
                except Exception as e:  # noqa
                    ctx.count("wire_generation_error:" + type(e).__name__)
                    continue
                if r is None:
                    ctx.count("wire_minmax_value_without_canonical_form")
                    continue
                pdu, exp = r
                O.c03_check(ctx, rep, corr, c, obj, pdu, None, "wire-enum-minmax", shrinkable=False, placed=exp)
                ctx.count("wire_pdus")
                ctx.count("wire_minmax_pdus")
        corr.flush()


def batches(it, n):
    buf = []
    for x in it:
        buf.append(x)
        if len(buf) == n:
            yield buf
            buf = []
    if buf:
        yield buf


def run(ctx):
    big = ctx.tier == "thorough"
    rng = ctx.rng
    rep = O.Reporter(ctx)
    corr = O.Correspondence(ctx)
    V.CANON_KEYS = True
    compu_case.seen = set()
    wire = CompuWire(ctx, rep)
    hrng = ctx.sub_rng("physical-type-hints")
    try:
        # (a) corpus
        for tag, c, pdu, trig in corpus():
            L, err = O.safe_load(c)
            if L is None:
                ctx.violate("loads", [tag], err.split(":")[0], O.witness(c, None, trig), f"corpus description {tag} rejected by the loader: {err}")
                continue
            ctx.histo("family", "corpus")
            O.c03_check(ctx, rep, corr, c, L[c.name], bytes.fromhex(pdu), trig, "corpus")
        # witnesses of recorded (open) findings, each with its fixed signature
        for tag, c, pdu, what in finding_corpus():
            L, err = O.safe_load(c)
            if L is None:
                ctx.violate("loads", [tag], err.split(":")[0], O.witness(c, None, None), f"corpus description {tag} rejected by the loader: {err}")
                continue
            ctx.histo("family", "finding-corpus")
            O.c03_check(ctx, rep, None, c, L[c.name], bytes.fromhex(pdu), None, "finding-corpus", shrinkable=False, fixed_features=[tag], what=what)
        for tag, desc in compu_corpus():
            compu_case(ctx, desc, "compu-corpus", wire=wire)
        # (b) from the wire: enumerated standard-length DOPs and random simple-tier composites
        bitlens = range(1, 65) if big else sorted(set(V.BIAS_LENGTHS + [2, 3, 4, 5, 6, 12, 24] + rng.sample(range(1, 65), 4)))
        for comps in batches(G.enum_std_numeric(bitlens, range(8) if big else (0, 1, 4, 7)), 64):
            wire_family(ctx, rep, corr, comps, "wire-enum-integer", rng, 110 if big else 40, only={("x",)})
        for comps in batches(G.enum_std_other((0, 3)), 48):
            wire_family(ctx, rep, corr, comps, "wire-enum-other", rng, 60 if big else 16, only={("x",)})
        corr.flush()
        dtc_sources_family(ctx, rep, corr, rng)
        minmax_wire_family(ctx, rep, corr, big)
        for i in range(8000 if big else 1200):
            try:
                c = with_display_hints(hrng, G.gen_composite(rng, profile=G.SIMPLE_DEEP if big else G.SIMPLE, name="C"))
            except Exception as e:  # noqa
                ctx.count("generator_error:" + type(e).__name__)
                continue
            wire_family(ctx, rep, corr, [c], "wire-random-simple", rng, 60 if big else 24, cap_all=True)
            if i % 300 == 299:
                corr.flush()
        corr.flush()
        # (c) PDUs produced by the encoder for the full envelope
        for i in range(15000 if big else 2500):
            try:
                c = with_display_hints(hrng, G.gen_composite(rng, profile=G.THOROUGH if big else G.QUICK, name="C"))
            except Exception as e:  # noqa
                ctx.count("generator_error:" + type(e).__name__)
                continue
            L, err = O.safe_load(c)
            if L is None:
                ctx.count("documents_rejected_by_loader")
                continue
            ctx.count("documents_loaded")
            O.record_features(ctx, c)
            ctx.histo("family", "encoder-pdus-full")
            for k in range(4):
                try:
                    v, trig = V.gen_value(rng, c), V.gen_trigger(rng, c)
                except V.Unsupported:
                    ctx.count("value_generation_unsupported")
                    continue
                except Exception as e:  # noqa
                    ctx.count("value_generation_error:" + type(e).__name__)
                    continue
                enc = O.impl_encode(L[c.name], v, trig)
                if not enc.ok or enc.warns:
                    ctx.count("encoder_pdu_not_available")
                    continue
                O.c03_check(ctx, rep, corr, c, L[c.name], enc.pdu, trig, "encoder-pdus-full")
            if i % 500 == 499:
                corr.flush()
        corr.flush()
        # (c') PDUs produced by an INDEPENDENT encoder — the Lean model (`drv_codec (encode …)`) — for the full envelope: the real code must
        #      decode them and re-encode the decoded values to the identical bytes. (Family (c) feeds the decoder with the output of the
        #      encoder under test: an encoder that is wrong in a way its own decoder tolerates is invisible there.)
        drv = ctx.driver("drv_codec")
        if drv.available():
            mrng = ctx.sub_rng("model-pdus")
            batch = []

            def flush_model():
                if not batch:
                    return
                replies = drv.query([S.encode_line(c, v, trig) for (c, obj, v, trig) in batch])
                for (c, obj, v, trig), rep_line in zip(batch, replies):
                    if not rep_line.startswith("(ok ") or not rep_line.endswith("(warn f))"):
                        ctx.count("model_pdu_not_available")
                        continue
                    hexpdu = rep_line[4:].split(" ")[0]
                    pdu = b"" if hexpdu == "-" else bytes.fromhex(hexpdu)
                    ctx.histo("family", "model-pdus")
                    O.c03_check(ctx, rep, None, c, obj, pdu, trig, "model-pdus")
                batch.clear()

            def model_cases(comps, k):
                L, err = O.safe_load(comps)
                if L is None:
                    ctx.count("documents_rejected_by_loader")
                    return
                for c in comps:
                    if not S.modelled(c):
                        continue
                    for _ in range(k):
                        try:
                            v, trig = V.gen_value(mrng, c), V.gen_trigger(mrng, c)
                        except Exception:  # noqa
                            continue
                        batch.append((c, L[c.name], v, trig))

            for comps in batches(G.enum_length_keys(), 24):
                model_cases(comps, 3)
            for comps in batches(G.enum_dynamic_static_fields(), 24):
                model_cases(comps, 1)
            for comps in batches((c for c, _v, issue in G.enum_struct_layout_orders() if not issue), 24):
                model_cases(comps, 1)
            # DTC-DOPs with DTC-REFs / LINKED-DTC-DOPS and terminated min-max objects with values around the termination sequence:
            # the PDUs come from the model's encoder (the encoder under test may refuse exactly the values that matter)
            for chunk in batches(G.enum_dtc_sources(), 25):
                model_cases([c for c, _ in chunk], 2)
            mm = {}
            for c, v in G.enum_minmax_terminated():
                mm.setdefault(c.name, (c, []))[1].append(v)
            for chunk in batches(mm.values(), 24):
                L, err = O.safe_load([c for c, _ in chunk])
                if L is None:
                    ctx.count("documents_rejected_by_loader")
                    continue
                for c, vals in chunk:
                    batch.extend((c, L[c.name], v, None) for v in vals)
            flush_model()
            for i in range(6000 if big else 900):
                try:
                    c = with_display_hints(hrng, G.gen_composite(mrng, profile=G.THOROUGH if big else G.QUICK, name="C"))
                except Exception:  # noqa
                    continue
                model_cases([c], 3)
                if len(batch) >= 600:
                    flush_model()
            flush_model()
        # (d) compu methods: every internal value of the 8-bit window
        crng = ctx.sub_rng("compu")
        for i in range(4000 if big else 900):
            cat = crng.choice(["LINEAR", "LINEAR", "SCALE-LINEAR", "SCALE-LINEAR", "TAB-INTP", "TAB-INTP", "RAT-FUNC", "IDENTICAL"])
            ity = crng.choice(CL.INT_TYPES)
            pty = crng.choice(["A_INT32", "A_UINT32", "A_FLOAT64", "A_FLOAT64", "A_FLOAT32"])
            try:
                desc = CL.gen_desc(crng, cat, ity, pty)
            except Exception as e:  # noqa
                ctx.count("compu_generator_error:" + type(e).__name__)
                continue
            compu_case(ctx, desc, "compu-random", wire=wire if big or i % 3 == 0 else None)
        # (d') coefficients as real ODX files write them: decimal fractions no double represents (compu_lib, "decimal" section): the two
        #      formulas of adjacent SCALE-LINEAR segments then differ by ~1e-16 at the common boundary (also at a boundary with physical
        #      value 0, where only an absolute tolerance can call them equal); enumerated small scope + random methods
        for n, desc in enumerate(CL.decimal_small_scope(big)):
            ctx.count("decimal_kinks_with_double_noise", CL.kink_noise(desc))
            compu_case(ctx, desc, "compu-decimal-small-scope", wire=wire if n % (2 if big else 4) == 0 else None)
        drng = ctx.sub_rng("compu-decimal")
        for n in range(2400 if big else 500):
            try:
                desc = CL.gen_decimal_tab(drng) if n % 4 == 0 else CL.gen_decimal(drng)
            except Exception as e:  # noqa
                ctx.count("compu_generator_error:" + type(e).__name__)
                continue
            ctx.count("decimal_kinks_with_double_noise", CL.kink_noise(desc))
            compu_case(ctx, desc, "compu-decimal-random", wire=wire if big or n % 2 == 0 else None)
        wire.flush()
    finally:
        V.CANON_KEYS = False


def replay(ctx, data):
    w = data["witness"]
    if "compu" in w:
        sub = type(ctx)(ctx.pid, ctx.tier, ctx.seed)
        compu_case.seen = set()
        compu_case(sub, w["compu"], "replay")
        return not sub.violations
    c = D.from_json(w["desc"])
    L, err = O.safe_load(c)
    if L is None:
        return False
    trig = bytes.fromhex(w["trig"]) if w.get("trig") else None
    r, dec, enc = O.c03_eval(c, L[c.name], bytes.fromhex(w["pdu"]), trig)
    return r is None


# W22 (RESERVED / NRC-CONST as constructors: Desc2R) — appended
LEAN_TARGETS = LEAN_TARGETS + ['OdxVerif.Props.C03Nested2R']
THEOREMS = THEOREMS + ["OdxVerif.Codec." + t for t in ['C03_reencode_nested2R', 'C03_encoded_is_canonical2R', 'descs2R_reencode_pure',
                                                        'C03_reserved_nonzero_not_reproduced', 'C03_nrcconst_decoded_not_reencodable',
                                                        'exRes_canon', 'exRes_disj']]
# W25 (supplied values of RESERVED parameters are ignored by the encoder: Desc2R.mcFull / Descs2R.suppliedFull) — appended
LEAN_TARGETS = LEAN_TARGETS + ['OdxVerif.Props.C03Nested2R2']
THEOREMS = THEOREMS + ["OdxVerif.Codec." + t for t in ['C03_reserved_supplied_ignored', 'C03_reencode_nested2R_full',
                                                        'descs2R_encodeMessage_full', 'Comp.reservedSup_ok', 'Desc2R.okMFull',
                                                        'Desc2R.mcFull_same', 'Comp.ofValue_structO_same']]


# W24 (compu-method leaves in the nested tier: Desc3 / Described3) — appended
LEAN_TARGETS = LEAN_TARGETS + ['OdxVerif.Props.C03Nested3']
THEOREMS = THEOREMS + ["OdxVerif.Codec." + t for t in ['C03_reencode_nested3', 'C03_reencode_nested3_echo', 'C03_encoded_is_canonical3', 'descs3_reencode_pure',
                                                        'Descs3.supplied_eq_decoded', 'C03_texttable_interior_not_reproduced',
                                                        'C03_texttable_duplicate_text_not_reencodable', 'exRe7_ok', 'exRe7_full', 'exRe7_disj']]


# W29 (compu DOP as MULTIPLEXER switch key / DYNAMIC-LENGTH-FIELD count, W23 leaves: Desc3b / Described3b) — appended
LEAN_TARGETS = LEAN_TARGETS + ['OdxVerif.Props.C03Nested3b']
THEOREMS = THEOREMS + ["OdxVerif.Codec." + t for t in ['C03_reencode_nested3b', 'C03_reencode_nested3b_echo', 'C03_encoded_is_canonical3b',
                                                        'descs3b_reencode_pure', 'Descs3b.supplied_eq_decoded', 'descs3b_cur_eq',
                                                        'C03_mux_compu_key_interior_not_reproduced', 'C03_dynlen_compu_count_rounded',
                                                        'exRe9_ok', 'exRe9_full', 'exRe9_disj', 'LinFLeaf.desc_full']]
# W29: re-encoding with UTF-16LE leaves inside field items / multiplexer cases (Desc2U / Described2U)
THEOREMS = THEOREMS + ["OdxVerif.Codec." + t for t in ['C03_reencode_nested2U', 'descs2U_reencode_pure', 'Descs2U.supplied_eq_decoded',
                                                        'Desc2U.sup_eq_val', 'exReU_ok', 'exReU_full', 'exReU_disj']]
