"""C16 — NamedItemList keeps its list view and its name view consistent (odxtools/nameditemlist.py)."""
import copy
import itertools
import keyword
import pickle
import re
from dataclasses import dataclass

ID = "C16"
LEAN_TARGETS = ["OdxVerif.Props.C16"]
DRIVERS = ["drv_nil"]
P = "OdxVerif.Nil."
THEOREMS = [P + t for t in ["C16_init", "C16_step", "C16_reachable", "C16_never_diverges", "C16_views",
                            "C16_unique_name", "C16_key_safe", "C16_raises_iff", "C16_unfixed_counterexample"]]
RULE = ("histories of append/insert/extend/remove/pop/clear/copy()/copy.copy/deepcopy/pickle over dataclass items with "
        "colliding, keyword, digit-leading, method-like, underscore-ending short names, equal-but-distinct items and the same "
        "object twice: exhaustive over a 16-operation alphabet to depth 4 (quick) / 5 (thorough), over a 31-operation alphabet to "
        "depth 3 / 4, random histories of length <= 200; the full observable state is compared with the model and the invariant is "
        "evaluated on the real object after EVERY operation; distinct = distinct operation history (prefix); non-trivial = the "
        "history contains a removal or copy after at least one successful insertion")
TRUSTED = ["model lean/OdxVerif/Model/Nil.lean is hand-written; tied to odxtools/nameditemlist.py by comparing list(nil), keys(), "
           "values(), nil[name], getattr(nil, name), len(nil) and the exception class after every operation of every history",
           "hasattr/dir (reserved-name set = dir(NamedItemList) + instance __dict__, recomputed from the live class on every run), "
           "keyword.kwlist, dict insertion order, list.index/insert/pop index semantics, dataclass ==, copy.deepcopy and pickle "
           "memoisation are modelled, agreement checked by correspondence only"]
ASSUMPTIONS = ["items are OdxNamed objects whose short_name is an immutable ASCII str (ODX SHORT-NAME: [a-zA-Z0-9_]+); "
               "str.isdigit = ASCII digit; an empty short name raises IndexError (modelled)",
               "item == is an equivalence relation implied by identity and implies equal short names (dataclass __eq__)",
               "operations outside the property's list (nil[i] = x, del nil[i], +=, sort, reverse, slice assignment) are not covered",
               "after copy()/copy.copy/deepcopy/pickle the history continues on the copy; the original is only checked to be unchanged"]


# --- tie of kind (1) (task W15): Gen/NilItemKey.lean is regenerated from NamedItemList._get_item_key of the current source by the
# Python->Lean translator and proved equal to the hand-written itemKey (Proofs/NilItemKeyGenEq.lean)
LEAN_TARGETS = LEAN_TARGETS + ["OdxVerif.Props.C16Gen"]
THEOREMS = THEOREMS + [P + t for t in ["gen_itemKey_eq", "C16_gen_item_key"]]
TRUSTED = TRUSTED + ["translator harness/extract/py2lean.py + primitives lean/OdxVerif/Model/PyRt.lean for NamedItemList._get_item_key (str = List Char, "
                     "sn[0] = Py.getItem, f\"_{sn}\" = concatenation; str.isdigit on one character and keyword.iskeyword are parameters of the "
                     "rendering, instantiated with Char.isDigit and the model's keyword table; the isinstance/odxraise guards are typing assertions)"]


def regen_item_key(ctx):
    """Gen/NilItemKey.lean from the current source; Unsupported (source left the translator's subset) = broken obligation"""
    import common
    from extract import py2lean
    py2lean.regenerate_itemkey(common.REPO, common.VERIF)


GENERATORS = list(globals().get("GENERATORS", [])) + [regen_item_key]


# --- tie of kind (1) (task W32): Gen/NilAddAttr.lean is regenerated from ItemAttributeList._add_attribute_item (the unique-name loop,
# `while True:` with explicit fuel) and proved equal to the model's findFree / addAttr (Proofs/NilAddAttrGenEq.lean)
LEAN_TARGETS = LEAN_TARGETS + ["OdxVerif.Props.C16GenAddAttr"]
THEOREMS = THEOREMS + [P + t for t in ["gen_addAttrName_eq", "C16_gen_add_attribute_name", "C16_gen_never_out_of_fuel",
                                       "C16_gen_add_attr_model", "C16_gen_name_choice"]]
TRUSTED = TRUSTED + ["translator harness/extract/py2lean.py for ItemAttributeList._add_attribute_item: `while True:` = at most `fuel` iterations "
                     "(.ok none = out of fuel, proved impossible for fuel > number of names for which hasattr succeeds), hasattr(self, .) of the "
                     "object before the call = the parameter `taken` (the model's reserved names + keys), self._get_item_key = the parameter `key` "
                     "(instantiated with the generated _get_item_key), f\"{i}\" of a non-negative int = Nat.toDigits 10, s.endswith(\"_\") = "
                     "List.isSuffixOf, the final store self._item_dict[item_name] = item = the returned name"]


def regen_add_attr(ctx):
    """Gen/NilAddAttr.lean from the current source; Unsupported (source left the translator's subset) = broken obligation"""
    import common
    from extract import py2lean
    py2lean.regenerate_addattr(common.REPO, common.VERIF)


GENERATORS = GENERATORS + [regen_add_attr]


@dataclass
class It:
    short_name: str
    v: int = 0


class World:
    """real objects <-> model identities (oid, short name, equality class)"""

    def __init__(self):
        self.keep = []          # keeps every object alive so that id() stays unique
        self.oid = {}           # id(obj) -> oid
        self.eqc = {}           # (short_name, v) -> class number
        self.unknown = 900000
        self.mark = None

    def freeze(self):
        """everything registered so far is permanent; `reset` forgets what was registered later"""
        self.mark = (list(self.keep), dict(self.oid))

    def reset(self):
        if self.mark is not None:
            self.keep, self.oid = list(self.mark[0]), dict(self.mark[1])
            self.unknown = 900000

    def base(self, oid, sn, v=0):
        o = It(sn, v)
        self.register(o, oid)
        return o

    def register(self, o, oid):
        self.keep.append(o)
        self.oid[id(o)] = oid

    def oid_of(self, o):
        r = self.oid.get(id(o))
        if r is None:
            self.unknown += 1
            self.register(o, self.unknown)
            r = self.unknown
        return r

    def sx(self, o):
        c = self.eqc.setdefault((o.short_name, o.v), len(self.eqc) + 1)
        return f"({self.oid_of(o)} {o.short_name or '-'} {c})"


STRIDE = 1000


def op_sx(w, op):
    k = op[0]
    if k in ("append", "remove"):
        return f"({k} {w.sx(op[1])})"
    if k == "insert":
        return f"(insert {op[1]} {w.sx(op[2])})"
    if k == "extend":
        return "(extend" + "".join(" " + w.sx(x) for x in op[1]) + ")"
    if k == "pop":
        return f"(pop {op[1]})"
    if k in ("deepcopy", "pickle"):
        return f"({k} {STRIDE})"
    return f"({k})"


def op_json(w, op):
    def it(o):
        return [w.oid_of(o), o.short_name, o.v]
    k = op[0]
    if k in ("append", "remove"):
        return [k, it(op[1])]
    if k == "insert":
        return [k, op[1], it(op[2])]
    if k == "extend":
        return [k, [it(x) for x in op[1]]]
    if k == "pop":
        return [k, op[1]]
    return [k]


def ops_from_json(w, js):
    objs = {}

    def it(t):
        if t[0] not in objs:
            objs[t[0]] = w.base(t[0], t[1], t[2])
        return objs[t[0]]
    out = []
    for j in js:
        k = j[0]
        if k in ("append", "remove"):
            out.append((k, it(j[1])))
        elif k == "insert":
            out.append((k, j[1], it(j[2])))
        elif k == "extend":
            out.append((k, [it(x) for x in j[1]]))
        elif k == "pop":
            out.append((k, j[1]))
        else:
            out.append((k,))
    return out


def safe_base(sn):
    return "_" + sn if (sn[:1].isdigit() or keyword.iskeyword(sn)) else sn


class Runner:
    """executes one history on a real NamedItemList and on a plain-list shadow; observes; evaluates the invariant"""

    def __init__(self, cls, w):
        self.cls, self.w = cls, w
        self.nil = cls()
        self.shadow = []        # reference semantics: a plain Python list of the same objects

    # -- one operation on the real object; returns 'ok' or 'foreign'
    def apply(self, op):
        k = op[0]
        nil = self.nil
        try:
            if k == "append":
                nil.append(op[1])
            elif k == "insert":
                nil.insert(op[1], op[2])
            elif k == "extend":
                nil.extend(iter(op[1]))
            elif k == "remove":
                nil.remove(op[1])
            elif k == "pop":
                nil.pop(op[1])
            elif k == "clear":
                nil.clear()
            elif k == "copy":
                self._continue_on(nil.copy(), False)
            elif k == "copy2":
                self._continue_on(copy.copy(nil), False)
            elif k == "deepcopy":
                self._continue_on(copy.deepcopy(nil), True)
            elif k == "pickle":
                self._continue_on(pickle.loads(pickle.dumps(nil)), True)
            return "ok", None
        except Exception as e:  # noqa
            return "foreign", type(e).__name__

    def _continue_on(self, new, deep):
        old = self.nil
        self.copy_problem = None
        before = (list.copy(old), dict(old._item_dict)) if hasattr(old, "_item_dict") else None
        if new is old or type(new) is not type(old):
            self.copy_problem = "copy is the same object or of another type"
        if deep:
            olds, news = list(list.__iter__(old)), list(list.__iter__(new))
            for o, n in zip(olds, news):
                if id(n) not in self.w.oid:
                    self.w.register(n, self.w.oid_of(o) + STRIDE)
        self._orig_after = (old, before)
        self.nil = new

    # -- the same operation on the plain list; returns 'ok' | 'foreign' (what a list holding the items would do)
    def apply_shadow(self, op):
        k = op[0]
        sh = self.shadow
        try:
            if k == "append":
                if not op[1].short_name:
                    return "foreign"
                sh.append(op[1])
            elif k == "insert":
                if not op[2].short_name:
                    return "foreign"
                sh.insert(op[1], op[2])
            elif k == "extend":
                for x in op[1]:
                    if not x.short_name:
                        return "foreign"
                    sh.append(x)
            elif k == "remove":
                sh.remove(op[1])
            elif k == "pop":
                sh.pop(op[1])
            elif k == "clear":
                sh.clear()
            elif k in ("copy", "copy2"):
                self.shadow = list(sh)
            elif k in ("deepcopy", "pickle"):
                self.shadow = None      # identities of the copies are not predictable: checked structurally
            return "ok"
        except (ValueError, IndexError):
            return "foreign"

    def observe(self, outcome):
        w, nil = self.w, self.nil
        try:
            items = [w.oid_of(x) for x in list.__iter__(nil)]
            keys = list(nil.keys())
            vals = [w.oid_of(v) for v in nil.values()]
            attrs, gets = [], []
            for k in keys:
                try:
                    a = getattr(nil, k)
                    attrs.append(str(w.oid[id(a)]) if id(a) in w.oid else "own")
                except AttributeError:
                    attrs.append("missing")
                try:
                    g = nil[k]
                    gets.append(str(w.oid[id(g)]) if id(g) in w.oid else "other")
                except KeyError:
                    gets.append("missing")
            names = " ".join(f"({k} {v})" for k, v in zip(keys, vals))
            return (f"({outcome} (items {' '.join(map(str, items))}) (names {names}) (attr {' '.join(attrs)}) "
                    f"(get {' '.join(gets)}) (len {len(nil)}))")
        except Exception as e:  # noqa
            return f"(observe-failed {type(e).__name__})"

    def state_clauses(self):
        """the clauses of the invariant which speak about one state only"""
        bad = []
        nil = self.nil
        try:
            items = list(list.__iter__(nil))
            d = dict(nil.items())
            keys = list(nil.keys())
            vals = list(nil.values())
        except Exception as e:  # noqa
            return [("observable", f"views raise {type(e).__name__}")]
        # 2. names <-> occurrences one to one
        if sorted(map(id, vals)) != sorted(map(id, items)):
            unnamed = len([x for x in items if not any(x is v for v in vals)])
            dangling = len([v for v in vals if not any(x is v for x in items)])
            bad.append(("names-biject-occurrences",
                        f"{len(items)} list occurrences, {len(vals)} names, {unnamed} items without name, {dangling} names of absent items"))
        if len(keys) != len(set(keys)) or len(nil) != len(items):
            bad.append(("names-biject-occurrences", "duplicate keys or wrong len()"))
        # 3. key = short name made identifier-safe and unique; reachable as key and as attribute; shadows nothing
        for key, v in d.items():
            sn = getattr(v, "short_name", None)
            if not isinstance(key, str) or not isinstance(sn, str) or not sn:
                bad.append(("key-shape", f"key {key!r} for short name {sn!r}")); continue
            b = safe_base(sn)
            m = re.fullmatch(re.escape(b) + ("" if b.endswith("_") else "_") + r"([1-9][0-9]*)", key)
            if not (key == b or (m and int(m.group(1)) >= 2)):
                bad.append(("key-shape", f"key {key!r} is not {b!r} with a numeric suffix"))
            if not key.isidentifier() or keyword.iskeyword(key):
                bad.append(("key-shape", f"key {key!r} is not identifier-safe"))
            if hasattr(type(nil), key) or key in vars(nil):
                bad.append(("shadows-attribute", f"key {key!r} is an attribute of the list object"))
            try:
                if nil[key] is not v or getattr(nil, key) is not v:
                    bad.append(("reachable-by-name", f"nil[{key!r}] / getattr do not return the named item"))
            except Exception as e:  # noqa
                bad.append(("reachable-by-name", f"access by name {key!r} raises {type(e).__name__}"))
        return bad

    # -- the property statement evaluated on the real object; returns list of (clause, detail)
    def invariant(self, op, outcome, prev_items):
        bad = []
        nil = self.nil
        try:
            items = list(list.__iter__(nil))
            d = dict(nil.items())
            keys = list(nil.keys())
            vals = list(nil.values())
        except Exception as e:  # noqa
            return [("observable", f"views raise {type(e).__name__}")]
        k = op[0]
        # 1. the list holds the items in order (= plain list semantics of the history)
        if k in ("deepcopy", "pickle") and outcome == "ok":
            ok = len(items) == len(prev_items) and all(
                n == o and n is not o and n.short_name == o.short_name for n, o in zip(items, prev_items))
            if ok:   # same sharing pattern
                ok = [[a is b for b in items] for a in items] == [[a is b for b in prev_items] for a in prev_items]
            if not ok:
                bad.append(("list-order", "deep copy is not an item-wise copy with the same sharing"))
            self.shadow = list(items)
        elif self.shadow is None or len(items) != len(self.shadow) or any(a is not b for a, b in zip(items, self.shadow)):
            bad.append(("list-order", "list contents differ from plain list semantics of the history"))
            self.shadow = list(items)
        bad += self.state_clauses()
        # 4. the original of a copy is untouched
        oa = getattr(self, "_orig_after", None)
        if oa is not None:
            old, before = oa
            self._orig_after = None
            if before is not None and (list.copy(old) != before[0] or any(a is not b for a, b in zip(list.copy(old), before[0]))
                                       or list(old._item_dict.items()) != list(before[1].items())):
                bad.append(("copy-independent", "copying changed the original"))
            if getattr(self, "copy_problem", None):
                bad.append(("copy-independent", self.copy_problem))
            if k == "copy" and outcome == "ok" and nil._item_dict is old._item_dict:
                bad.append(("copy-independent", "copy shares the name dictionary with the original"))
        return bad


def already_broken(cls, w, ops):
    """was the state invariant already violated before the last operation? (then the shorter history reports it)"""
    try:
        r = Runner(cls, w)
        for op in ops:
            r.apply(op)
        return bool(r.state_clauses())
    except Exception:  # noqa
        return False


def run_history(ctx, cls, w, ops, fam, start=0):
    """run one history; returns the observation lines (from `start` on); reports invariant violations"""
    w.reset()
    try:
        r = Runner(cls, w)
    except Exception as e:  # noqa
        ctx.violate("observable", ["constructor"], type(e).__name__, {"ops": [], "family": fam}, "NamedItemList() raises")
        return ["(constructor-failed)"]
    lines = []
    for n, op in enumerate(ops):
        prev = list(list.__iter__(r.nil))
        outcome, exc = r.apply(op)
        expect = r.apply_shadow(op)
        if n < start:
            if r.shadow is None:
                r.shadow = list(list.__iter__(r.nil))
            r._orig_after = None
            continue
        lines.append(r.observe(outcome))
        bad = r.invariant(op, outcome, prev)
        if outcome != expect:
            bad.append(("raises-like-list", f"{op[0]} raised {exc}" if outcome == "foreign" else f"{op[0]} did not raise where a list does"))
        if bad and n > 0 and already_broken(cls, w, ops[:n]):
            ctx.count("violations_downstream_of_an_earlier_one_not_repeated")
            bad = []
        for clause, detail in bad[:3]:
            ctx.violate(clause, [op[0]], exc or "wrong-state",
                        {"ops": [op_json(w, o) for o in ops[:n + 1]], "family": fam},
                        f"after {[o[0] for o in ops[:n + 1]]}: {detail}")
    return lines


def alphabet(w, wide):
    a1, a2 = w.base(1, "x"), w.base(2, "x")          # equal but distinct
    b = w.base(3, "x_")                               # ends with "_": x_2 collides with the suffix of a2
    f = w.base(4, "x_2")                              # collides with the suffix form
    c = w.base(5, "class")                            # keyword
    d = w.base(6, "1st")                              # digit-leading
    e = w.base(7, "append")                           # method-like
    g = w.base(8, "keys")
    h = w.base(9, "x", 1)                             # same name, not equal
    core = [("append", a1), ("append", a2), ("append", b), ("append", f), ("append", c), ("append", e),
            ("insert", 0, a2), ("remove", a1), ("remove", a2), ("pop", -1), ("pop", 0),
            ("clear",), ("copy",), ("copy2",), ("deepcopy",), ("pickle",)]
    if not wide:
        return core
    return core + [("append", d), ("append", g), ("append", h), ("insert", 1, a1), ("insert", -1, b), ("insert", 9, d), ("insert", -9, e),
                   ("remove", b), ("remove", h), ("remove", e), ("pop", 1), ("pop", -2), ("pop", 5),
                   ("extend", [a1, a1]), ("extend", [c, a2, d])]


class Batch:
    """collects histories, asks the model driver in batches, compares"""

    def __init__(self, ctx, env_sx):
        self.ctx, self.env = ctx, env_sx
        self.pend = []
        self.drv = ctx.driver("drv_nil")
        self.ok = self.drv.available()
        if not self.ok:
            ctx.notes.append("driver drv_nil not built: correspondence skipped")

    def add(self, fam, w, ops, start, lines):
        self.pend.append((fam, "(h %d %s)" % (start, " ".join(op_sx(w, o) for o in ops)), [op_json(w, o) for o in ops], lines))
        if len(self.pend) >= 400:
            self.flush()

    def flush(self):
        if not self.pend or not self.ok:
            self.pend = []
            return
        req = f"(nil {self.env} (hists {' '.join(p[1] for p in self.pend)}))"
        rep = self.drv.query([req])[0].split(";")
        if len(rep) != len(self.pend):
            self.ctx.disagree("protocol", req[:300], rep[:3], f"{len(self.pend)} histories")
            self.pend = []
            return
        for (fam, sx, js, lines), r in zip(self.pend, rep):
            self.ctx.traces += 1
            mine = " ".join(lines)
            if r != mine:
                self.ctx.disagree(fam, {"ops": js}, r[-1500:], mine[-1500:])
            if "diverged" in r:
                self.ctx.disagree("model-fuel", {"ops": js}, r[-500:], "")
        if self.pend:
            self.ctx.sample({"request": self.pend[-1][1][:300], "model": rep[-1][-300:], "impl": " ".join(self.pend[-1][3])[-300:]}, limit=6)
        self.pend = []


def env_of(cls, ctx):
    fresh = cls()
    reserved = set(dir(cls)) | set(vars(fresh))
    # cross-check of the generated table with the live object (hasattr is what the code asks)
    probe = ["append", "keys", "sort", "copy", "_item_dict", "x", "x_2", "_class", "short_name", "__len__", "__dict__", "__weakref__"]
    for n in probe:
        if hasattr(fresh, n) != (n in reserved):
            ctx.notes.append(f"reserved-name table differs from hasattr for {n!r}")
            ctx.obligation("reserved-table-matches-hasattr", False, n)
    kw = list(keyword.kwlist)
    # hypotheses of theorem C16_key_safe about the keyword table, checked on today's interpreter
    ok = all(k and k[0] != "_" and not any(ch.isdigit() for ch in k) for k in kw)
    ctx.obligation("kwlist-meets-C16_key_safe-hypotheses", ok, "no keyword starts with '_' or contains a digit")
    ctx.count("reserved_names", len(reserved))
    return f"(kw {' '.join(kw)}) (reserved {' '.join(sorted(reserved))})"


CORPUS = [
    # the defect of the pinned commit: removing one of two equal items / one of two occurrences deletes both names
    [["append", [1, "x", 0]], ["append", [2, "x", 0]], ["remove", [1, "x", 0]]],
    [["append", [1, "x", 0]], ["append", [2, "x", 0]], ["pop", 0]],
    [["append", [1, "x", 0]], ["append", [1, "x", 0]], ["pop", -1]],
    [["append", [1, "x", 0]], ["append", [1, "x", 0]], ["remove", [1, "x", 0]]],
    [["extend", [[1, "x", 0], [2, "x", 0], [1, "x", 0]]], ["remove", [2, "x", 0]], ["pop", 0], ["append", [3, "x_", 0]], ["deepcopy"]],
    # removing b (== a, a first) must drop a's name, not b's
    [["append", [1, "x", 0]], ["append", [2, "x", 0]], ["remove", [2, "x", 0]], ["append", [1, "x", 0]]],
    # suffix collisions, reserved names, keyword and digit escapes, empty name
    [["append", [4, "x_2", 0]], ["append", [1, "x", 0]], ["append", [2, "x", 0]], ["append", [3, "x_", 0]], ["append", [3, "x_", 0]],
     ["append", [7, "append", 0]], ["append", [8, "keys", 0]], ["append", [10, "_item_dict", 0]], ["append", [5, "class", 0]],
     ["append", [11, "_class", 0]], ["append", [6, "1st", 0]], ["append", [12, "", 0]], ["pickle"], ["copy2"], ["pop", 3], ["copy"], ["pop", 99]],
    [["extend", [[1, "x", 0], [12, "", 0], [2, "x", 0]]], ["insert", 0, [12, "", 0]], ["pop", -1], ["pop", -1], ["remove", [1, "x", 0]]],
]


def nontrivial(ops):
    seen_ins = False
    for o in ops:
        if o[0] in ("append", "insert", "extend"):
            seen_ins = True
        elif seen_ins and o[0] != "clear":
            return True
    return False


def random_history(rng, w, pool_names, length):
    pool = []
    nxt = [100]

    def new_item():
        sn = rng.choice(pool_names)
        o = w.base(nxt[0], sn, rng.choice([0, 0, 0, 1]))
        nxt[0] += 1
        pool.append(o)
        return o

    def some_item():
        return rng.choice(pool) if pool and rng.random() < 0.6 else new_item()
    ops, size = [], 0
    for _ in range(length):
        r = rng.random()
        grow = 0.55 if size < 25 else 0.2
        if r < grow:
            c = rng.random()
            if c < 0.5:
                ops.append(("append", some_item())); size += 1
            elif c < 0.85:
                ops.append(("insert", rng.randint(-size - 2, size + 2), some_item())); size += 1
            else:
                xs = [some_item() for _ in range(rng.randint(0, 3))]
                ops.append(("extend", xs)); size += len(xs)
        elif r < grow + 0.3:
            if rng.random() < 0.5:
                ops.append(("remove", some_item()))
            else:
                ops.append(("pop", rng.choice([-1, -1, 0, rng.randint(-size - 1, size + 1)])))
            size = max(0, size - 1)
        elif r < grow + 0.32:
            ops.append(("clear",)); size = 0
        else:
            ops.append((rng.choice(["copy", "copy2", "deepcopy", "pickle"]),))
    return ops


POOL_NAMES = ["x", "x", "x", "x_", "x_2", "x_3", "x_2_2", "x__2", "class", "for", "_class", "1st", "2", "_2", "append", "keys", "sort",
              "copy", "pop", "get", "_item_dict", "__len__", "Y", "y_", "y_2"]


def run(ctx):
    try:
        from odxtools.nameditemlist import NamedItemList
    except Exception as e:  # noqa
        ctx.obligation("import odxtools.nameditemlist.NamedItemList", False, repr(e))
        return
    big = ctx.tier == "thorough"
    try:
        env = env_of(NamedItemList, ctx)
    except Exception as e:  # noqa
        ctx.obligation("reserved-table", False, repr(e))
        env = "(kw) (reserved)"
    batch = Batch(ctx, env)

    # (a) corpus
    for js in CORPUS:
        w = World()
        ops = ops_from_json(w, js)
        lines = run_history(ctx, NamedItemList, w, ops, "corpus")
        ctx.case(("corpus", repr(js)), nontrivial=True)
        batch.add("corpus", w, ops, 0, lines)
    batch.flush()

    # (b) exhaustive small scopes: every history is a prefix of a leaf; a leaf only observes the steps that
    #     its predecessor (in enumeration order) has not already observed
    for wide, depth in ((False, 5 if big else 4), (True, 4 if big else 3)):
        w = World()
        alpha = alphabet(w, wide)
        w.freeze()
        fam = f"exhaustive-{len(alpha)}ops-depth{depth}"
        prev = None
        for leaf in itertools.product(range(len(alpha)), repeat=depth):
            cp = 0
            if prev is not None:
                while leaf[cp] == prev[cp]:
                    cp += 1
            prev = leaf
            ops = [alpha[i] for i in leaf]
            lines = run_history(ctx, NamedItemList, w, ops, fam, start=cp)
            for n in range(cp, depth):
                ctx.case((wide, leaf[:n + 1]), nontrivial=nontrivial(ops[:n + 1]))
            batch.add(fam, w, ops, cp, lines)
            ctx.count(fam)
        batch.flush()

    # (c) random long histories
    for n in range(4000 if big else 300):
        rng = ctx.sub_rng("random", n)
        w = World()
        length = rng.choice([5, 10, 20, 40, 80, 200]) if n % 4 else 200
        ops = random_history(rng, w, POOL_NAMES, length)
        lines = run_history(ctx, NamedItemList, w, ops, "random")
        ctx.case(("random", ctx.seed, n), nontrivial=nontrivial(ops))
        ctx.histo("random_history_length", length)
        for o in ops:
            ctx.histo("random_ops", o[0])
        batch.add("random", w, ops, 0, lines)
    batch.flush()


def replay(ctx, data):
    from odxtools.nameditemlist import NamedItemList
    w = World()
    ops = ops_from_json(w, data["witness"]["ops"])
    before = len(ctx.violations)
    run_history(ctx, NamedItemList, w, ops, "replay")
    return len(ctx.violations) == before
