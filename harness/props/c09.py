"""C09 — a layer sees exactly the objects ODX value inheritance prescribes."""
import itertools
import json
import multiprocessing as mp
import os
import time

import common
import inherit_lib as IL
from extract import layerprio

ID = "C09"
LEAN_TARGETS = ["OdxVerif.Props.C09"]
DRIVERS = ["drv_inherit"]
P = "OdxVerif.Inherit."
THEOREMS = [P + t for t in ["C09_priority_table", "C09_refines", "C09_refines_mem", "C09_conflict_iff", "C09_conflict_spec",
                            "C09_local_overrides", "C09_inherited_from_best_parent", "C09_excluded_not_inherited",
                            "C09_parent_unchanged", "C09_category_table", "C09_parentref_paths"]]
RULE = ("hierarchies = DAGs of 1-6 layers over the five layer types (ordered parent lists, diamonds), 1-3 short names placed locally in any "
        "subset of layers, NOT-INHERITED subsets per parent reference and exclusion group, rendered as ODX XML and loaded by the real loader; "
        "one case = (hierarchy, object category); distinct = distinct model request of the bottom layer; non-trivial = at least one parent "
        "reference whose parent shows an object of the category")
TRUSTED = ["model lean/OdxVerif/Model/Inherit.lean is hand-written; tied to HierarchyElement._compute_available_objects by comparing, per layer and "
           "object category, the ordered view of the loaded database with the model's dictionary order",
           "extractor harness/extract/layerprio.py (Python ast); its tables are cross-checked against the live enum/dataclasses on every run",
           "abstract objects: (short name, tag); tag = (defining layer, content variant) for categories whose objects carry an ODXLINK id, content "
           "variant alone for UNIT-GROUPs (no id, dataclass equality by value); the mapping is part of the correspondence check",
           "ElementTree/expat, NamedItemList construction and ODXLINK resolution are exercised differentially only"]
ASSUMPTIONS = ["strict_mode = True (default): an unresolvable inheritance conflict raises OdxError; the lenient mode is the subject of C17",
               "short names are unique among the local objects of one layer and category (hypothesis WF of the theorems; ODX name-space rule)",
               "DIAG-COMM-REF proxies and IMPORT-REFs are not generated; diag variables / variable groups are covered by the table obligation only"]

UNITS = ["dc", "dop", "table", "gnr", "fc", "sc", "aa", "ug"]      # one independent pattern each when packing
LIGHT_REPL = {"dc": ["svc", "job"], "dop": ["dop", "struct"], "table": ["table"], "gnr": ["gnr"], "fc": ["fc"], "sc": ["sc"],
              "aa": ["aa"], "ug": ["ug"]}
HEAVY = ["dtc", "eopf", "sfld", "mux", "envd", "envdd", "dlf", "demf"]


def regen(ctx):
    layerprio.regenerate(common.REPO, common.VERIF)


GENERATORS = [regen]


# --- tie of kind (1) (task W15): Gen/InheritPrio.lean is regenerated from DiagLayerType.inheritance_priority and
# HierarchyElement._get_parent_refs_sorted_by_priority of the current source by the Python->Lean translator and proved equal to
# LayerKind.prio / the model's stable sort (Proofs/InheritPrioGenEq.lean)
LEAN_TARGETS = LEAN_TARGETS + ["OdxVerif.Props.C09Gen"]
THEOREMS = THEOREMS + ["OdxVerif.Inherit." + t for t in ['gen_inheritancePriority_eq', 'gen_parentRefs_eq', 'gen_sortDesc_eq', 'C09_gen_priority_tie', 'C09_gen_priority_table', 'C09_gen_parent_order']]
TRUSTED = TRUSTED + ["translator harness/extract/py2lean.py + primitives lean/OdxVerif/Model/PyRt.lean for DiagLayerType.inheritance_priority (dict literal + "
                     "look-up) and HierarchyElement._get_parent_refs_sorted_by_priority (sorted(key=, reverse=) = Py.sortedByKeyM: keys first, then a "
                     "stable sort in either direction; getattr(raw, 'parent_refs', []) = the list of parent references, empty for layers without)"]


def regen_inherit_prio(ctx):
    """Gen/InheritPrio.lean from the current source; Unsupported (source left the translator's subset) = broken obligation"""
    from extract import py2lean
    py2lean.regenerate_inherit_prio(common.REPO, common.VERIF)


GENERATORS = GENERATORS + [regen_inherit_prio]


# ------------------------------------------------------------------------------------------------
# worker side: load one hierarchy with the real loader and report what every layer shows
def _cat_of(space, clsname):
    if space == "dc":
        return "job" if clsname == "SingleEcuJob" else "svc"
    return space


def _raw_locals(layer, space):
    raw = layer.diag_layer_raw
    ddds = raw.diag_data_dictionary_spec
    try:
        if space == "dc":
            return list(raw.diag_comms)
        if space == "gnr":
            return list(raw.global_negative_responses)
        if space == "fc":
            return list(raw.functional_classes)
        if space == "sc":
            return list(raw.state_charts)
        if space == "aa":
            return list(raw.additional_audiences)
        if ddds is None:
            return []
        if space == "ug":
            return list(ddds.unit_spec.unit_groups) if ddds.unit_spec is not None else []
        attr = {"dop": "data_object_props", "struct": "structures", "dtc": "dtc_dops", "eopf": "end_of_pdu_fields", "sfld": "static_fields",
                "mux": "muxs", "envd": "env_datas", "envdd": "env_data_descs", "dlf": "dynamic_length_fields",
                "demf": "dynamic_endmarker_fields", "table": "tables"}[space]
        return list(getattr(ddds, attr))
    except Exception:  # noqa
        return []


def used_spaces(h):
    sp = set()
    for L in h["layers"]:
        for c, objs in L.get("objs", {}).items():
            if objs:
                sp.add(IL.space_of(c))
    return sorted(sp)


def ancestors(h, i):
    seen, todo = set(), [i]
    while todo:
        j = todo.pop()
        if j in seen:
            continue
        seen.add(j)
        if h["layers"][j]["kind"] != "ECU-SHARED-DATA":
            todo += [p for p, _ in h["layers"][j].get("parents", [])]
    return seen


def impl_views(h, db, spaces, problems, do_decode=True):
    from odxtools.exceptions import OdxError
    views = {}
    n = len(h["layers"])
    layers = [db.diag_layers[IL.lname(i)] for i in range(n)]
    for i, layer in enumerate(layers):
        for sp in spaces:
            try:
                objs = [o for o in IL.VIEW_GETTERS[sp](layer) if IL._name(o) >= 0]
                view = []
                for o in objs:
                    cat = _cat_of(sp, type(o).__name__)
                    li = IL._def_layer(o)
                    v = IL._variant(o)
                    view.append((IL._name(o), IL.tag_of(cat, li if li is not None else 0, v)))
                    # the object shown is the very object the defining layer holds (no copies)
                    cands = [li] if li is not None else range(n)
                    if not any(o is x for j in cands for x in _raw_locals(layers[j], sp)):
                        problems.append(("identity", i, sp, IL._name(o)))
                views[(i, sp)] = view
            except Exception as e:  # noqa
                views[(i, sp)] = "foreign:" + type(e).__name__
        if do_decode and "dc" in spaces and isinstance(views.get((i, "dc")), list):
            # behaviour: every service in the view decodes its own request through layer.decode, and services of
            # ancestors that are overridden or excluded do not
            shown = {}
            try:
                for o in layer.diag_comms:
                    if type(o).__name__ == "DiagService" and IL._name(o) >= 0:
                        shown[(IL._name(o), IL._variant(o), IL._def_layer(o))] = o
            except Exception:  # noqa
                pass
            for j in sorted(ancestors(h, i)):
                for nme, v in h["layers"][j].get("objs", {}).get("svc", []):
                    key = (nme, v, j)
                    try:
                        msgs = layer.decode(IL.sid_of(nme, v, j))
                        got = [m.service for m in msgs]
                    except OdxError:
                        got = []
                    except Exception as e:  # noqa
                        problems.append(("decode-foreign:" + type(e).__name__, i, "dc", nme))
                        continue
                    if key in shown:
                        if not (len(got) == 1 and got[0] is shown[key]):
                            problems.append(("decode-inherited", i, "dc", nme))
                    elif got:
                        problems.append(("decode-hidden", i, "dc", nme))
    return views


def eval_doc(args):
    h, want_prefix = args
    out = {"err": None, "views": {}, "problems": []}
    try:
        spaces = used_spaces(h)
        db, err = IL.load(h)
        out["err"] = err
        if db is None:
            return out
        out["views"] = impl_views(h, db, spaces, out["problems"])
        if want_prefix and len(h["layers"]) >= 2:
            h2 = {"layers": h["layers"][:-1]}
            db2, err2 = IL.load(h2)
            if db2 is None:
                out["problems"].append(("prefix-load:" + str(err2), len(h2["layers"]) - 1, "*", 0))
            else:
                v2 = impl_views(h2, db2, spaces, [], do_decode=False)
                for key, view in v2.items():
                    if out["views"].get(key) != view:
                        out["problems"].append(("parent-changed", key[0], key[1], 0))
    except Exception as e:  # noqa
        out["err"] = "foreign:" + type(e).__name__
    return out


# ------------------------------------------------------------------------------------------------
# comparison with the model (correspondence) and with the specification (direct oracle)
def names_of(h, sp):
    ns = set()
    for L in h["layers"]:
        for c in IL.SPACES[sp]:
            for n, _ in L.get("objs", {}).get(c, []):
                ns.add(n)
        grp = IL.CATS[IL.SPACES[sp][0]][0]
        if grp:
            for _, ex in L.get("parents", []):
                ns.update(ex.get(grp, []))
    ns.add(9)
    return sorted(ns)


def doc_lines(h):
    spaces = used_spaces(h)
    return {(i, sp): IL.request_line(h, i, sp, names_of(h, sp)) for i in range(len(h["layers"])) for sp in spaces}


_PARSED = {}


def _parse(r):
    p = _PARSED.get(r)
    if p is None and r not in _PARSED:
        p = _PARSED[r] = IL.parse_reply(r)
    return p


def judge(h, res, replies):
    """-> (disagreements [(what, key, model, impl)], failures [(clause, features, observed, detail)])"""
    dis, fails = [], []
    parsed = {k: _parse(r) for k, r in replies.items()}
    if any(p is None for p in parsed.values()):
        dis.append(("bad-driver-reply", None, [r for k, r in replies.items() if parsed[k] is None][:1], None))
        return dis, fails
    wf = all(p["wf"] for p in parsed.values())
    model_err = sorted(k for k, p in parsed.items() if p["model"] == "err")
    spec_conf = sorted(k for k, p in parsed.items() if p["conflict"])
    err = res["err"]
    if err is not None:
        if err != "odx":
            fails.append(("loads-or-odxerror", ["foreign-exception"], err, "loader raised a non-OdxError exception"))
            dis.append(("foreign", None, "err" if model_err else "ok", err))
            return dis, fails
        if not model_err:
            dis.append(("impl-raises", None, "ok", "odx"))
        if wf and not spec_conf:
            fails.append(("error-only-on-conflict", ["raises-without-conflict"], "OdxError",
                          "the loader raised OdxError although no layer has an unsettled name clash"))
        return dis, fails
    if model_err:
        dis.append(("model-raises", model_err[0], "err", "ok"))
    if wf and spec_conf:
        i, sp = spec_conf[0]
        fails.append(("conflict-is-reported", ["no-error-on-conflict", sp], "loaded",
                      f"layer {i} category {sp}: unequal offers of equal priority without local definition, but the loader raised nothing"))
    for key, p in parsed.items():
        view = res["views"].get(key)
        if isinstance(view, str) or view is None:
            fails.append(("view-available", ["view-raises", key[1]], str(view), f"reading the view of layer {key[0]} raised"))
            continue
        view = [tuple(x) for x in view]
        if p["model"] != "err" and p["model"] != view:
            dis.append(("view", key, p["model"], view))
        if not wf or p["conflict"]:
            continue
        d = dict(view)
        if len(d) != len(view):
            fails.append(("one-object-per-name", ["duplicate-name", key[1]], "duplicate", f"layer {key[0]} shows two objects with one short name"))
        for n, exp in p["vis"].items():
            got = d.get(n)
            if got != exp:
                kind = "missing" if got is None else ("extra" if exp is None else "wrong-object")
                fails.append(("visible-set", [kind, key[1]], kind,
                              f"layer {key[0]} category {key[1]} name n{n}: shows {IL.untag(key[1], got) if got is not None else None}, "
                              f"specification says {IL.untag(key[1], exp) if exp is not None else None} (defining layer, variant, is-job)"))
        for n in d:
            if n not in p["vis"]:
                fails.append(("visible-set", ["extra", key[1]], "extra", f"layer {key[0]} shows unexpected name n{n}"))
    for what, i, sp, n in res["problems"]:
        clause = {"identity": "object-identity", "parent-changed": "parent-unchanged"}.get(what, "behaviour-decode" if what.startswith("decode") else what)
        fails.append((clause, [what, sp], what, f"layer {i} category {sp} name n{n}: {what}"))
    return dis, fails


class Runner:
    def __init__(self, ctx):
        self.ctx = ctx
        self.drv = ctx.driver("drv_inherit")
        self.cache = {}
        self.pool = None
        self.nproc = int(os.environ.get("C09_WORKERS", "0")) or max(1, min(8, (os.cpu_count() or 2) - 1))
        self.shrunk = 0
        self.budget_docs = 0

    def start(self):
        if self.nproc > 1:
            self.pool = mp.get_context("fork").Pool(self.nproc)

    def stop(self):
        if self.pool:
            self.pool.close()
            self.pool.join()

    def query(self, lines):
        need = [l for l in dict.fromkeys(lines) if l not in self.cache]
        if need:
            for l, r in zip(need, self.drv.query(need)):
                self.cache[l] = r
        return [self.cache[l] for l in lines]

    def eval_single(self, h, want_prefix=False):
        """synchronous evaluation of one hierarchy (replay, shrinking)"""
        res = eval_doc((h, want_prefix))
        lines = doc_lines(h)
        reps = self.query(list(lines.values())) if self.drv.available() else []
        return judge(h, res, dict(zip(lines.keys(), reps))) if reps or not lines else ([], [])

    def run_batch(self, family, docs, prefix_every=0):
        """docs: list of hierarchies"""
        ctx = self.ctx
        if not docs:
            return
        if not self.drv.available():
            ctx.notes.append("driver drv_inherit not built: correspondence and specification oracle skipped")
            return
        jobs = [(h, bool(prefix_every) and (k % prefix_every == 0)) for k, h in enumerate(docs)]
        if self.pool:
            results = self.pool.map(eval_doc, jobs, chunksize=max(1, min(64, len(jobs) // (self.nproc * 4) or 1)))
        else:
            results = [eval_doc(j) for j in jobs]
        all_lines = [doc_lines(h) for h in docs]
        self.query([l for dl in all_lines for l in dl.values()])
        for h, res, dl in zip(docs, results, all_lines):
            reps = {k: self.cache[l] for k, l in dl.items()}
            dis, fails = judge(h, res, reps)
            k = len(h["layers"])
            ctx.histo("family", family)
            ctx.histo("layers", k)
            ctx.histo("loader_outcome", res["err"] or "ok")
            ctx.histo("bottom_kind", h["layers"][-1]["kind"])
            ctx.count("documents_loaded")
            for (i, sp), l in dl.items():
                ctx.traces += 1
                if i == k - 1:
                    L = h["layers"][-1]
                    nontriv = L["kind"] != "ECU-SHARED-DATA" and any(
                        any(h["layers"][a].get("objs", {}).get(c) for c in IL.SPACES[sp] for a in ancestors(h, j)) for j, _ in L.get("parents", []))
                    ctx.case(l, nontrivial=nontriv)
                    ctx.histo("category", sp)
                    if _parse(reps[(i, sp)]) and _parse(reps[(i, sp)])["conflict"]:
                        ctx.count("spec_conflict_cases")
            for what, key, m, im in dis:
                ctx.disagree(family + ":" + what, {"hierarchy": h, "at": list(key) if key else None}, str(m)[:600], str(im)[:600])
            for clause, feats, obs, detail in fails:
                hh = h
                if self.shrunk < 6:
                    self.shrunk += 1
                    hh = self.shrink(h, clause, feats)
                ctx.violate(clause, feats, obs, {"hierarchy": hh, "xml": IL.render(hh)[0][:6000] if len(json.dumps(hh)) < 3000 else None}, detail)
        if len(ctx.samples) < 6:
            h = docs[len(docs) // 2]
            dl = all_lines[len(docs) // 2]
            if dl:
                key = sorted(dl)[-1]
                ctx.sample({"family": family, "request": dl[key][:400], "reply": self.cache[dl[key]][:300],
                            "impl": str(results[len(docs) // 2]["views"].get(key))[:300] if results[len(docs) // 2]["err"] is None else results[len(docs) // 2]["err"]})

    def shrink(self, h, clause, feats):
        """greedy: drop layers from the bottom, categories, objects, exclusions, parent edges while the same failure remains"""
        def fails_same(x):
            try:
                _, f = self.eval_single(x, want_prefix=(clause == "parent-unchanged"))
            except Exception:  # noqa
                return False
            return any(c == clause and ft == feats for c, ft, _, _ in f)
        cur = json.loads(json.dumps(h))
        budget = 120
        changed = True
        while changed and budget > 0:
            changed = False
            cands = []
            if len(cur["layers"]) > 1:
                cands.append(("pop", None))
            for i, L in enumerate(cur["layers"]):
                for c in list(L.get("objs", {})):
                    cands.append(("cat", (i, c)))
                    for k in range(len(L["objs"][c])):
                        cands.append(("obj", (i, c, k)))
                for e, (j, ex) in enumerate(L.get("parents", [])):
                    cands.append(("edge", (i, e)))
                    for g in list(ex):
                        cands.append(("excl", (i, e, g)))
            for kind, a in cands:
                if budget <= 0:
                    break
                x = json.loads(json.dumps(cur))
                try:
                    if kind == "pop":
                        x["layers"].pop()
                    elif kind == "cat":
                        del x["layers"][a[0]]["objs"][a[1]]
                    elif kind == "obj":
                        del x["layers"][a[0]]["objs"][a[1]][a[2]]
                        x["layers"][a[0]].pop("dc_order", None)
                    elif kind == "edge":
                        del x["layers"][a[0]]["parents"][a[1]]
                    elif kind == "excl":
                        del x["layers"][a[0]]["parents"][a[1]][1][a[2]]
                except (KeyError, IndexError):
                    continue
                budget -= 1
                if fails_same(x):
                    cur = x
                    changed = True
                    break
        return cur


# ------------------------------------------------------------------------------------------------
# generators
NON_ESD = [k for k in IL.KINDS if k != "ECU-SHARED-DATA"]


def ordered_subsets(items, maxlen=None):
    out = [()]
    for r in range(1, (maxlen or len(items)) + 1):
        out += list(itertools.permutations(items, r))
    return out


def shapes(k):
    """parent lists (ordered) per layer; every layer is an ancestor of the bottom layer k-1"""
    def rec(i, acc):
        if i == k:
            reach, todo = set(), [k - 1]
            while todo:
                j = todo.pop()
                if j not in reach:
                    reach.add(j)
                    todo += list(acc[j])
            if len(reach) == k:
                yield [list(p) for p in acc]
            return
        for ps in ordered_subsets(list(range(i))):
            yield from rec(i + 1, acc + [ps])
    yield from rec(0, [])


def kind_assignments(shape):
    opts = [NON_ESD if ps else IL.KINDS for ps in shape]
    return itertools.product(*opts)


def base_of(shape, kinds):
    return {"layers": [{"kind": kd, "parents": [[j, {}] for j in ps], "objs": {}} for kd, ps in zip(kinds, shape)]}


def apply_pattern(h, unit, cats, placement, excl, names_to_cat=None):
    """placement: per layer list of (name, variant); excl: {(layer, edge index): [names]}"""
    grp = IL.CATS[IL.SPACES[unit][0]][0] if unit in IL.SPACES else IL.CATS[unit][0]
    for i, objs in enumerate(placement):
        if not objs:
            continue
        if unit == "dc":
            svc = [[n, v] for n, v in objs if n % 2 == 1]
            job = [[n, v] for n, v in objs if n % 2 == 0]
            if svc:
                h["layers"][i]["objs"]["svc"] = svc
            if job and "job" in cats:
                h["layers"][i]["objs"]["job"] = job
            elif job:
                h["layers"][i]["objs"].setdefault("svc", []).extend(job)
        else:
            for c in cats:
                h["layers"][i]["objs"][c] = [[n, v] for n, v in objs]
    if grp:
        for (i, e), names in excl.items():
            if names:
                h["layers"][i]["parents"][e][1][grp] = list(names)


def patterns(base, names, prune=True):
    """all (placement, exclusions) over the base: each layer defines any subset of names (variant 0);
    each edge excludes any subset of the names its parent shows (other exclusions are no-ops)"""
    k = len(base["layers"])
    subsets = [c for r in range(len(names) + 1) for c in itertools.combinations(names, r)]
    edges = [(i, e, j) for i, L in enumerate(base["layers"]) for e, (j, _) in enumerate(L["parents"])]
    for pl in itertools.product(subsets, repeat=k):
        placement = [[(n, 0) for n in s] for s in pl]
        # names shown per layer regardless of exclusions (upper bound): local or shown by some ancestor
        def shown(i, memo={}):
            s = set(pl[i])
            if base["layers"][i]["kind"] != "ECU-SHARED-DATA":
                for j, _ in base["layers"][i]["parents"]:
                    s |= shown(j)
            return s
        opts = []
        for (i, e, j) in edges:
            cand = sorted(shown(j)) if prune else list(names)
            opts.append([c for r in range(len(cand) + 1) for c in itertools.combinations(cand, r)])
        for ex in itertools.product(*opts):
            yield placement, {(i, e): list(x) for (i, e, j), x in zip(edges, ex)}


def conflict_hint(h):
    """spaces in which some layer has a conflict according to the Python mirror of the spec (steering only)"""
    out = []
    for sp in used_spaces(h):
        memo = {}
        if any(IL.spec_hint(h, i, sp, memo)[0] for i in range(len(h["layers"]))):
            out.append(sp)
    return out


def replicate_docs(base, placement, excl, rot):
    """the same pattern in every light category; categories in which it conflicts get documents of their own"""
    h = json.loads(json.dumps(base))
    for u in UNITS:
        apply_pattern(h, u, LIGHT_REPL[u], placement, excl)
    bad = conflict_hint(h)
    if not bad:
        return [h]
    docs = []
    uspaces = lambda u: ["dop", "struct"] if u == "dop" else [u]
    keep = [u for u in UNITS if not any(sp in bad for sp in uspaces(u))]
    if keep:
        g = json.loads(json.dumps(base))
        for u in keep:
            apply_pattern(g, u, LIGHT_REPL[u], placement, excl)
        docs.append(g)
    badu = [u for u in UNITS if any(sp in bad for sp in uspaces(u))]
    u = badu[rot % len(badu)]
    g = json.loads(json.dumps(base))
    apply_pattern(g, u, LIGHT_REPL[u], placement, excl)
    docs.append(g)
    return docs


def ug_variant_docs(base, placement):
    """UNIT-GROUPs are compared by value: all assignments of content variants to the defining layers (first fixed)"""
    defs = [(i, n) for i, objs in enumerate(placement) for n, _ in objs]
    by_name = {}
    for i, n in defs:
        by_name.setdefault(n, []).append(i)
    multi = [(n, ls) for n, ls in by_name.items() if len(ls) >= 2]
    if not multi:
        return []
    docs = []
    free = [(n, i) for n, ls in multi for i in ls[1:]]
    for bits in itertools.product([0, 1], repeat=len(free)):
        if not any(bits):
            continue
        var = dict(zip(free, bits))
        pl = [[(n, var.get((n, i), 0)) for n, _ in objs] for i, objs in enumerate(placement)]
        g = json.loads(json.dumps(base))
        apply_pattern(g, "ug", ["ug"], pl, {})
        docs.append(g)
    return docs


def packed_docs(base, pats, rot):
    """independent patterns, one per unit; conflicting ones are isolated"""
    docs = []
    good = []
    for k, (placement, excl) in enumerate(pats):
        u = UNITS[(rot + k) % len(UNITS)]
        g = json.loads(json.dumps(base))
        apply_pattern(g, u, [u] if u != "dc" else ["svc", "job"], placement, excl)
        if conflict_hint(g):
            docs.append(g)
        else:
            good.append((u, placement, excl))
    for c in range(0, len(good), len(UNITS)):
        g = json.loads(json.dumps(base))
        used = set()
        rest = []
        for u, placement, excl in good[c:c + len(UNITS)]:
            if u in used:
                u = next((x for x in UNITS if x not in used), None)
                if u is None:
                    rest.append((placement, excl))
                    continue
            used.add(u)
            apply_pattern(g, u, [u] if u != "dc" else ["svc", "job"], placement, excl)
        docs.append(g)
    return docs


def random_hierarchy(rng, kmax, heavy):
    k = rng.randint(2, kmax)
    layers = []
    for i in range(k):
        kind = rng.choice(IL.KINDS if i < k - 1 else NON_ESD + NON_ESD + ["ECU-SHARED-DATA"])
        cand = list(range(i))
        rng.shuffle(cand)
        nparents = min(len(cand), rng.choice([0, 1, 1, 2, 2, 3]))
        if i == k - 1 and cand:
            nparents = max(1, nparents)
        parents = [[j, {}] for j in cand[:nparents]]
        if kind == "ECU-SHARED-DATA" and rng.random() < 0.8:
            parents = []          # a few ECU-SHARED-DATA layers keep (ignored) PARENT-REFS
        layers.append({"kind": kind, "parents": parents, "objs": {}})
    h = {"layers": layers}
    spaces = rng.sample(UNITS + ["struct"] + (HEAVY if heavy else []), rng.randint(2, 6))
    names = [1, 2, 3]
    for sp in spaces:
        dens = rng.choice([0.2, 0.4, 0.6])
        for i, L in enumerate(layers):
            if sp == "dc":
                order = []
                for n in names:
                    if rng.random() < dens:
                        order.append([rng.choice(["svc", "svc", "job"]), n, rng.randint(0, 1)])
                rng.shuffle(order)
                if order:
                    L["dc_order"] = order
                    for c, n, v in order:
                        L["objs"].setdefault(c, []).append([n, v])
            else:
                objs = [[n, rng.randint(0, 1)] for n in names if rng.random() < dens]
                rng.shuffle(objs)
                if objs:
                    L["objs"][sp] = objs
        grp = IL.CATS[IL.SPACES[sp][0]][0]
        if grp:
            for L in layers:
                for pr in L["parents"]:
                    ex = [n for n in names + [4] if rng.random() < 0.2]
                    if ex and grp not in pr[1]:
                        pr[1][grp] = ex
    # mostly valid: keep at most one conflicting category (70 %: none)
    bad = conflict_hint(h)
    keep_one = rng.random() < 0.3
    for sp in bad[(1 if keep_one else 0):]:
        for L in layers:
            for c in IL.SPACES[sp]:
                L["objs"].pop(c, None)
            if sp == "dc":
                L.pop("dc_order", None)
    return h


# ------------------------------------------------------------------------------------------------
def crosscheck_tables(ctx):
    """the extracted tables against the live objects"""
    try:
        from odxtools.diaglayers.diaglayertype import DiagLayerType
        from odxtools.parentref import ParentRef
        from odxtools.diagdatadictionaryspec import DiagDataDictionarySpec
        import dataclasses
        ex = layerprio.extract_priorities(common.REPO)
        live = [(m.name, m.value, m.inheritance_priority) for m in DiagLayerType]
        ok = ex == live
        detail = "" if ok else f"extracted {ex} live {live}"
        cats = layerprio.extract_categories(common.REPO)
        pr_fields = {f.name for f in dataclasses.fields(ParentRef)}
        dd_fields = {f.name for f in dataclasses.fields(DiagDataDictionarySpec)}
        for view, getter, ni in cats:
            if ni and not ni.startswith("(") and ni not in pr_fields:
                ok, detail = False, detail + f" ParentRef has no field {ni};"
            if view.startswith("ddds.") and view.split(".")[1] not in dd_fields:
                ok, detail = False, detail + f" DiagDataDictionarySpec has no field {view};"
        for attr, _ in layerprio.extract_parentref_paths(common.REPO):
            if attr not in pr_fields:
                ok, detail = False, detail + f" ParentRef has no field {attr};"
        ctx.obligation("table-crosscheck:live-objects", ok, detail)
    except Exception as e:  # noqa
        ctx.obligation("table-crosscheck:live-objects", False, repr(e))


CORPUS = [
    # diamond + exclusion on every path + three priorities (Props/C09.lean exB), as services
    {"layers": [{"kind": "ECU-SHARED-DATA", "parents": [], "objs": {"svc": [[1, 0]], "dop": [[1, 0]], "ug": [[1, 0]]}},
                {"kind": "PROTOCOL", "parents": [], "objs": {"svc": [[1, 1], [3, 0]], "job": [[2, 0]], "dop": [[1, 1], [2, 0], [3, 0]], "ug": [[1, 1]]}},
                {"kind": "FUNCTIONAL-GROUP", "parents": [[1, {}]], "objs": {"job": [[2, 1]], "dop": [[2, 1]]}},
                {"kind": "BASE-VARIANT", "parents": [[1, {"dc": [3], "dop": [3]}], [2, {"dc": [3], "dop": [3]}], [0, {}]], "objs": {"svc": [[5, 0]]}},
                {"kind": "ECU-VARIANT", "parents": [[3, {}]], "objs": {}}]},
    # equal priority, different objects: conflict; settled locally; settled by exclusion; same object twice
    {"layers": [{"kind": "FUNCTIONAL-GROUP", "parents": [], "objs": {"table": [[1, 0]]}}, {"kind": "FUNCTIONAL-GROUP", "parents": [], "objs": {"table": [[1, 0]]}},
                {"kind": "ECU-VARIANT", "parents": [[0, {}], [1, {}]], "objs": {}}]},
    {"layers": [{"kind": "FUNCTIONAL-GROUP", "parents": [], "objs": {"gnr": [[1, 0]]}}, {"kind": "FUNCTIONAL-GROUP", "parents": [], "objs": {"gnr": [[1, 0]]}},
                {"kind": "ECU-VARIANT", "parents": [[0, {}], [1, {}]], "objs": {"gnr": [[1, 1]]}}]},
    {"layers": [{"kind": "FUNCTIONAL-GROUP", "parents": [], "objs": {"gnr": [[1, 0]]}}, {"kind": "FUNCTIONAL-GROUP", "parents": [], "objs": {"gnr": [[1, 0]]}},
                {"kind": "ECU-VARIANT", "parents": [[0, {"gnr": [1]}], [1, {}]], "objs": {}}]},
    {"layers": [{"kind": "PROTOCOL", "parents": [], "objs": {"sc": [[1, 0]], "ug": [[1, 0]]}}, {"kind": "FUNCTIONAL-GROUP", "parents": [[0, {}]], "objs": {}},
                {"kind": "FUNCTIONAL-GROUP", "parents": [[0, {}]], "objs": {}}, {"kind": "BASE-VARIANT", "parents": [[1, {}], [2, {}]], "objs": {}}]},
    # unit groups are compared by value: equal contents from two parents are no conflict, different contents are
    {"layers": [{"kind": "BASE-VARIANT", "parents": [], "objs": {"ug": [[1, 0]]}}, {"kind": "BASE-VARIANT", "parents": [], "objs": {"ug": [[1, 0]]}},
                {"kind": "ECU-VARIANT", "parents": [[0, {}], [1, {}]], "objs": {}}]},
    {"layers": [{"kind": "BASE-VARIANT", "parents": [], "objs": {"ug": [[1, 0]]}}, {"kind": "BASE-VARIANT", "parents": [], "objs": {"ug": [[1, 1]]}},
                {"kind": "ECU-VARIANT", "parents": [[0, {}], [1, {}]], "objs": {}}]},
]


def run(ctx):
    big = ctx.tier == "thorough"
    crosscheck_tables(ctx)
    R = Runner(ctx)
    R.start()
    t0 = time.time()
    try:
        R.run_batch("corpus", CORPUS, prefix_every=1)
        # 1. exhaustive, one short name, <= 3 layers: every shape x layer types x placement x exclusions, in all light categories
        rot = 0
        docs = []
        for k in (1, 2, 3):
            for shape in shapes(k):
                for kinds in kind_assignments(shape):
                    base = base_of(shape, kinds)
                    for placement, excl in patterns(base, [1]):
                        docs += replicate_docs(base, placement, excl, rot)
                        docs += ug_variant_docs(base, placement)
                        rot += 1
                        if len(docs) >= 4000:
                            R.run_batch("exhaustive-1name", docs, prefix_every=17)
                            docs = []
        R.run_batch("exhaustive-1name", docs, prefix_every=17)
        ctx.count("exhaustive_1name_patterns", rot)
        # 2. two short names (a service and a job in the diag-comm name space): exhaustive <= 2 layers, in all light categories
        docs = []
        n2 = 0
        for k in (1, 2):
            for shape in shapes(k):
                for kinds in kind_assignments(shape):
                    base = base_of(shape, kinds)
                    for placement, excl in patterns(base, [1, 2]):
                        docs += replicate_docs(base, placement, excl, n2)
                        n2 += 1
        R.run_batch("exhaustive-2names-2layers", docs, prefix_every=13)
        # 2b. stars: three parentless parents of every type triple all defining the name, bottom layer with/without a
        #     local definition, with and without one exclusion (priority interplay of three offers)
        docs = []
        ns = 0
        for kinds in itertools.product(IL.KINDS, repeat=3):
            for bk in NON_ESD:
                base = base_of([[], [], [], [0, 1, 2]], list(kinds) + [bk])
                for loc in ([], [(1, 0)]):
                    for exi in (None, 0, 1, 2):
                        placement = [[(1, 0)], [(1, 0)], [(1, 0)], loc]
                        excl = {(3, exi): [1]} if exi is not None else {}
                        docs += replicate_docs(base, placement, excl, ns)
                        ns += 1
        R.run_batch("star-3-parents", docs, prefix_every=29)
        ctx.count("star_patterns", ns)
        # 3. two names, 3 layers: exhaustive in the thorough tier (independent patterns packed per category), sampled in quick
        rng = ctx.sub_rng("two-names")
        bases3 = [base_of(s, kd) for s in shapes(3) for kd in kind_assignments(s)]
        docs = []
        n3 = 0
        if big:
            for b, base in enumerate(bases3):
                pats = list(patterns(base, [1, 2]))
                n3 += len(pats)
                docs += packed_docs(base, pats, b)
                if len(docs) >= 6000:
                    R.run_batch("exhaustive-2names-3layers", docs)
                    docs = []
            R.run_batch("exhaustive-2names-3layers", docs)
        else:
            for _ in range(260):
                base = rng.choice(bases3)
                pats = list(patterns(base, [1, 2]))
                pick = rng.sample(pats, min(len(pats), 16))
                n3 += len(pick)
                docs += packed_docs(base, pick, rng.randint(0, 7))
            R.run_batch("sampled-2names-3layers", docs, prefix_every=7)
        ctx.count("two_name_3layer_patterns", n3)
        # 4. four layers (thorough): sampled patterns over all shapes
        if big:
            rng4 = ctx.sub_rng("four-layers")
            shapes4 = list(shapes(4))
            docs = []
            n4 = 0
            for _ in range(25000):
                s = rng4.choice(shapes4)
                kd = [rng4.choice(NON_ESD if ps else IL.KINDS) for ps in s]
                base = base_of(s, kd)
                pats = []
                for _ in range(8):
                    # one random pattern without enumerating the (large) product
                    pl = [[(n, 0) for n in (1, 2) if rng4.random() < 0.4] for _ in range(4)]
                    ex = {(i, e): [n for n in (1, 2) if rng4.random() < 0.3] for i, L in enumerate(base["layers"]) for e in range(len(L["parents"]))}
                    pats.append((pl, ex))
                n4 += len(pats)
                docs += packed_docs(base, pats, rng4.randint(0, 7))
                if len(docs) >= 6000:
                    R.run_batch("sampled-4layers", docs, prefix_every=11)
                    docs = []
            R.run_batch("sampled-4layers", docs, prefix_every=11)
            ctx.count("four_layer_patterns", n4)
        # 5. random: 2-5 (6) layers, diamonds, three names, both variants, services and jobs sharing names, all DOP kinds,
        #    exclusions of absent names, ECU-SHARED-DATA with ignored PARENT-REFS
        rngr = ctx.sub_rng("random")
        docs = [random_hierarchy(rngr, 6 if big else 5, heavy=True) for _ in range(30000 if big else 1500)]
        for c in range(0, len(docs), 4000):
            R.run_batch("random", docs[c:c + 4000], prefix_every=3)
    finally:
        R.stop()
    ctx.count("driver_lines_distinct", len(R.cache))
    ctx.count("workers", R.nproc)
    ctx.notes.append(f"generation+evaluation {time.time() - t0:.1f}s with {R.nproc} worker processes")


def replay(ctx, data):
    h = data["witness"]["hierarchy"]
    clause = data["signature"]["clause"]
    R = Runner(ctx)
    if not R.drv.available():
        print("driver drv_inherit not built; run ./check C09 once")
        return False
    _, fails = R.eval_single(h, want_prefix=(clause == "parent-unchanged"))
    for c, f, o, d in fails:
        print("still failing:", c, f, o, d)
    return not fails
