"""C12 — ISO-TP reassembly returns exactly the transmitted telegrams."""
import itertools
import common
import isotp_lib as L
from common import hexa
from extract import py2lean

ID = "C12"
LEAN_TARGETS = ["OdxVerif.Props.C12", "OdxVerif.Props.C12Gen"]
DRIVERS = ["drv_isotp"]
P = "OdxVerif.IsoTp."
THEOREMS = [P + t for t in ["C12_single", "C12_sequence", "C12_fc_noop", "C12_unknown_id_noop",
                            "C12_interleaved", "C12_active_cts",
                            # tie of kind (1): Gen/IsoTpStep.lean is regenerated from the source on every run (regen_isotp_step)
                            "gen_stepE_eq", "gen_step_eq", "gen_lookup_eq", "gen_feedE_eq", "gen_stInit_eq",
                            "C12_gen_step", "C12_gen_feed", "C12_interleaved_gen", "C12_sequence_gen"]]
RULE = ("streams = ISO 15765-2 segmentations (Spec.segment, mirrored in harness/isotp_lib.py) of 1-4 telegrams per ID, "
        "1-3 listened IDs + unrelated IDs + flow-control frames, randomly or exhaustively interleaved; lengths biased to "
        "segment boundaries, 16-frame wrap and 4095; distinct = distinct (ids, frame list); non-trivial = at least one multi-frame transfer or >1 ID")
TRUSTED = ["model lean/OdxVerif/Model/IsoTp.lean is hand-written; tied to odxtools/isotp_state_machine.py (a) by the theorem gen_stepE_eq: it equals, for all "
           "slot states and frames, the Lean function regenerated on every run from IsoTpStateMachine.decode_rx_frame/__init__ by the translator "
           "harness/extract/py2lean.py, (b) by event-trace comparison (callbacks, yields, final slot state)",
           "translator harness/extract/py2lean.py (Python subset -> Lean; typing, scoping, bytearray aliasing rules in its doc string) and the primitives "
           "lean/OdxVerif/Model/PyRt.lean (unbounded ints, bytes as List Nat with the AllBytes side condition, slices as drop/take, bitstruct u<n> fields "
           "as big-endian bit fields, exceptions as Except)",
           "candump regex parsing (read_telegrams) and python-can Message/Bus objects are exercised differentially only"]
ASSUMPTIONS = ["CAN frames are byte strings; can.BusABC reader/asyncio path of read_telegrams is not modelled",
               "telegram lengths 1..4095 (no 32-bit first-frame length escape)"]


def regen_isotp_step(ctx):
    """Gen/IsoTpStep.lean from the current source; Unsupported (source left the subset) = broken obligation"""
    py2lean.regenerate_isotp(common.REPO, common.VERIF)


GENERATORS = [regen_isotp_step]


def gen_stream(rng, n_ids, big):
    ids = rng.sample(range(0x700, 0x7F0), n_ids)
    streams, expect = [], {}
    for cid in ids:
        dl = rng.choice(L.DLS)
        frames, pl = [], []
        for _ in range(rng.randint(1, 3 if big else 2)):
            lens = L.boundary_lengths(dl)
            n = rng.choice(lens) if rng.random() < 0.7 else rng.randint(1, 400)
            if not big and n > 600:
                n = rng.randint(1, 300)
            p = bytes(rng.getrandbits(8) for _ in range(n))
            pad = bytes([rng.choice([0xAA, 0x00, 0xCC, 0x55])]) * rng.choice([0, 0, 1, 3, 7]) if rng.random() < 0.6 else \
                bytes(rng.getrandbits(8) for _ in range(rng.randint(0, 5)))
            fs = L.segment(p, dl, pad)
            # flow-control frames on the same ID sprinkled in
            out = []
            for f in fs:
                out.append((cid, f))
                if rng.random() < 0.1:
                    out.append((cid, bytes([0x30 + rng.randint(0, 2), rng.getrandbits(8), 0])))
            frames += out
            pl.append(p)
        streams.append(frames)
        expect[cid] = pl
    # unrelated IDs
    noise = [(rng.choice([0x100, 0x6FF, 0x7FF]), bytes(rng.getrandbits(8) for _ in range(rng.randint(0, 8))))
             for _ in range(rng.randint(0, 4))]
    streams.append(noise)
    return ids, streams, expect


def check_stream(ctx, ids, frames, expect, fam, pending):
    line, teles, exc, _ = L.run_impl(ids, frames)
    got = {cid: [p for (r, p) in teles if r == cid] for cid in ids}
    multi = any(len(f) and f[0] >> 4 == 1 for _, f in frames)
    ctx.case((tuple(ids), tuple(frames)), nontrivial=multi or len(ids) > 1)
    ctx.histo("frames_per_stream", min(len(frames) // 10 * 10, 100))
    ctx.histo("n_ids", len(ids))
    if exc or got != expect:
        bad = [c for c in ids if got.get(c) != expect[c]]
        ctx.violate("exact-telegrams", [fam, "raises" if exc else "wrong-telegrams"], exc or "mismatch",
                    {"ids": ids, "frames": [[c, f.hex()] for c, f in frames],
                     "expected": {str(c): [p.hex() for p in v] for c, v in expect.items()},
                     "got": {str(c): [p.hex() for p in v] for c, v in got.items()}},
                    f"reassembly of a well-formed stream differs for ids {bad}" + (f" ({exc})" if exc else ""))
    pending.append((fam, ids, frames, line))


def flush_model(ctx, pending):
    drv = ctx.driver("drv_isotp")
    if not drv.available():
        ctx.notes.append("driver drv_isotp not built: correspondence skipped")
        return
    replies = drv.query([L.model_line(ids, fr) for (_, ids, fr, _) in pending])
    for (fam, ids, fr, line), rep in zip(pending, replies):
        ctx.traces += 1
        if rep != line:
            ctx.disagree(fam, {"ids": ids, "frames": [[c, f.hex()] for c, f in fr]}, rep[:2000], line[:2000])
    if pending:
        ctx.sample({"request": L.model_line(pending[0][1], pending[0][2])[:300], "model==impl": replies[0] == pending[0][3]})


def run(ctx):
    big = ctx.tier == "thorough"
    rng = ctx.rng
    pending = []
    # corpus: the CAN-FD single-frame escape (fixed defect) and the 16-frame wrap
    for (p, dl) in [(bytes(range(8)), 12), (bytes(range(10)), 64), (bytes(x % 256 for x in range(6 + 7 * 17)), 8),
                    (bytes(x % 251 for x in range(4095)), 8), (bytes(x % 251 for x in range(4095)), 64), (b"\x01", 8)]:
        check_stream(ctx, [0x7E0], [(0x7E0, f) for f in L.segment(p, dl, b"\xAA\xAA")], {0x7E0: [p]}, "corpus", pending)
    # 1. random interleavings
    for n in range(3000 if big else 1200):
        ids, streams, expect = gen_stream(rng, rng.randint(1, 3), big)
        check_stream(ctx, ids, L.interleave(rng, streams), expect, "random-interleave", pending)
    # 2. every length at every frame size (single ID): boundary set, thorough: all 1..4095 for dl=8 and 64
    for dl in L.DLS:
        lens = L.boundary_lengths(dl)
        if big and dl in (8, 64):
            lens = range(1, 4096)
        for n in lens:
            p = bytes((x * 7 + n) % 256 for x in range(n))
            pad = b"\xAA" * (n % 3)
            check_stream(ctx, [0x7E8], [(0x7E8, f) for f in L.segment(p, dl, pad)], {0x7E8: [p]}, "all-lengths", pending)
            ctx.histo("dl", dl)
    # 3. exhaustive interleavings of small streams (<= 8 frames quick, <= 10 thorough), 2-3 IDs
    lim = 10 if big else 8
    for trial in range(40 if big else 16):
        n_ids = rng.choice([2, 3])
        ids = rng.sample(range(0x700, 0x7F0), n_ids)
        streams, expect = [], {}
        budget = lim
        for cid in ids:
            dl = 8
            n = rng.choice([3, 7, 8, 12, 13, 14, 20])
            p = bytes(rng.getrandbits(8) for _ in range(n))
            fs = [(cid, f) for f in L.segment(p, dl, b"\x55" * rng.randint(0, 2))]
            if len(fs) > budget - (n_ids - len(streams) - 1):
                p = bytes(rng.getrandbits(8) for _ in range(rng.randint(1, 7)))
                fs = [(cid, f) for f in L.segment(p, dl, b"")]
            budget -= len(fs)
            streams.append(fs)
            expect[cid] = [p]
        if budget > 0:
            streams.append([(ids[0], b"\x30\x00\x00")])
        cnt = 0
        for fr in L.all_interleavings(streams):
            check_stream(ctx, ids, fr, expect, "exhaustive-interleave", pending)
            cnt += 1
            if cnt >= (3000 if big else 600):
                break
        ctx.count("exhaustive_interleaving_sets")
    flush_model(ctx, pending)
    # 4. text logs: same frames through read_telegrams in the three candump formats
    for n in range(300 if big else 160):
        ids, streams, expect = gen_stream(rng, rng.randint(1, 3), False)
        frames = [(c, f) for (c, f) in L.interleave(rng, streams) if len(f) > 0]
        for fmt in ("normal", "log", "fdlog"):
            try:
                teles = L.run_text_log(ids, frames, fmt)
                exc = None
            except Exception as e:  # noqa
                teles, exc = [], type(e).__name__
            got = {cid: [p for (r, p) in teles if r == cid] for cid in ids}
            ctx.case(("text", fmt, tuple(ids), tuple(frames)))
            ctx.histo("text_format", fmt)
            if exc or got != expect:
                ctx.violate("text-log-same-telegrams", [fmt, "raises" if exc else "wrong-telegrams"], exc or "mismatch",
                            {"ids": ids, "format": fmt, "frames": [[c, f.hex()] for c, f in frames]},
                            f"read_telegrams({fmt} log) differs from the transmitted telegrams")
    # 5. active decoder: one clear-to-send frame per first frame; compare with the model
    act = []
    for n in range(600 if big else 320):
        ids, streams, expect = gen_stream(rng, rng.randint(1, 2), False)
        frames = L.interleave(rng, streams)
        tx = [i + 0x100 + 8 for i in ids]
        ps, pv = rng.choice([0, 0, 8, 12]), rng.choice([0xAA, 0x00, 0xCC])
        try:
            out, teles, sent = L.run_active(ids, tx, ps, pv, frames)
            exc = None
        except Exception as e:  # noqa
            out, teles, sent, exc = [], [], [], type(e).__name__
        ctx.case(("active", tuple(ids), tuple(frames), ps, pv))
        n_ff = {c: sum(1 for (cc, f) in frames if cc == c and len(f) >= 2 and f[0] >> 4 == 1) for c in ids}
        n_sf = {c: sum(1 for (cc, f) in frames if cc == c and len(f) >= 1 and f[0] >> 4 == 0) for c in ids}
        cts = bytes([0x30, 0xFF, 0x00])
        cts = cts + bytes([pv]) * max(0, ps - 3)
        ok = exc is None
        for c, t in zip(ids, tx):
            mine = [p for (tid, p) in sent if tid == t]
            # every first frame answered by a CTS frame (single frames are acknowledged too by odxtools;
            # further CTS frames after 255 consecutive frames are legal)
            if len([p for p in mine if p == cts]) < n_ff[c] or any(p != cts for p in mine):
                ok = False
        got = {cid: [p for (r, p) in teles if r == cid] for cid in ids}
        if not ok or got != expect:
            ctx.violate("active-cts", ["active", "raises" if exc else "missing-or-wrong-cts"], exc or "mismatch",
                        {"rx": ids, "tx": tx, "pad": [ps, pv], "frames": [[c, f.hex()] for c, f in frames], "sent": [[t, p.hex()] for t, p in sent]},
                        "active decoder did not answer every first frame with 30 FF 00 (+padding) on the paired TX id")
        act.append((ids, tx, ps, pv, frames, out))
    drv = ctx.driver("drv_isotp")
    if drv.available() and act:
        reps = drv.query([L.active_model_line(i, t, ps, pv, fr) for (i, t, ps, pv, fr, _) in act])
        for (i, t, ps, pv, fr, out), rep in zip(act, reps):
            ctx.traces += 1
            sends = " ".join(out)
            msends = " ".join(x for x in _split_top(rep) if x.startswith("(send"))
            if sends != msends:
                ctx.disagree("active", {"rx": i, "tx": t, "pad": [ps, pv], "frames": [[c, f.hex()] for c, f in fr]}, msends[:1000], sends[:1000])


def _split_top(rep):
    """top-level items of '(ok a b c)'"""
    items, depth, cur = [], 0, ""
    for ch in rep[4:-1] if rep.startswith("(ok ") else "":
        if ch == "(":
            depth += 1
        if depth:
            cur += ch
        if ch == ")":
            depth -= 1
            if depth == 0:
                items.append(cur); cur = ""
    return items


def replay(ctx, data):
    w = data["witness"]
    ids = w.get("ids") or w.get("rx")
    frames = [(c, bytes.fromhex(h)) for c, h in w["frames"]]
    if "expected" in w:
        _, teles, exc, _ = L.run_impl(ids, frames)
        got = {str(c): [p.hex() for (r, p) in teles if r == c] for c in ids}
        return exc is None and got == w["expected"]
    return False
