"""C11 — writing a database to PDX and loading it back preserves it (partial: see LEVEL_TEXT)."""
import collections
import io
import itertools
import multiprocessing as mp
import os
import shutil
import tempfile
import warnings
import zipfile
from pathlib import Path
from xml.etree import ElementTree

import common
import pdx_lib as L
import pdx_rich as R
from extract import pdxschema

ID = "C11"
LEAN_TARGETS = ["OdxVerif.Props.C11"]
DRIVERS = ["drv_pdx"]
P = "OdxVerif.Pdx."
THEOREMS = [P + t for t in [
    "C11_escape", "C11_escape_injective", "C11_escape_text", "C11_escape_attr", "C11_escape_whitespace_counterexample",
    "C11_make_xml_attrib_counterexample", "C11_schema_generic", "C11_schema_general", "C11_schema_loss",
    "C11_schema_table", "C11_schema_table_spec", "C11_schema_roundtrip", "C11_order", "C11_order_error_iff",
    "C11_order_effective", "C11_order_lenient_counterexample", "C11_entry_points_agree"]]
LEVEL_TEXT = ("partial: the main clause (write -> load gives an equal database, second write is byte-identical, same encode/decode "
              "behaviour) is established by a differential round trip on the real code only (shipped examples, hand-written documents "
              "covering the element classes the examples lack, generated documents, and every single-field perturbation of them); "
              "Jinja2 rendering and expat are not modelled. Lean theorems cover (a) escaping: unescape(escape s) = s for all strings, with "
              "the XML white-space envelope and the unescaped make_xml_attrib of the pinned commit as counterexample theorems, (b) the "
              "generic schema lemma R ⊆ W → read R (write W e) = restrict R e and the inclusion obligation reads ⊆ writes ∪ allowlist over "
              "the table regenerated from every from_et and every template on each run, (c) load-order independence of the per-file fold, "
              "of the ODXLINK map and of what refresh() derives from it per layer (communication parameters, inherited objects), "
              "and agreement of the file-type dispatch of the three entry points")
RULE = ("one case = one database round trip, one load order / entry point / loader call history (of a file set or of one distribution of the layer "
        "hierarchy over documents), one single-field perturbation (object path, field, new value) or one "
        "escaping string; distinct = distinct (database, path, field, value) resp. file order resp. string; non-trivial = the perturbed value "
        "differs from the original and the writer accepted the database")
TRUSTED = [
    "Jinja2 rendering, expat/ElementTree, zipfile are exercised by the differential round trip only (not modelled)",
    "extractor harness/extract/pdxschema.py (Python ast over from_et + Jinja2 AST over the templates with macro inlining); cross-checked on every "
    "run: every slot occurring in a document written by the real templates must be in the extracted writes, and every slot whose removal from "
    "an input document changes the parsed database must be in the extracted reads",
    "model lean/OdxVerif/Model/Pdx.lean (escape/decodeText/decodeAttr, processAll/links, dispatch) is hand-written; tied to markupsafe.escape, "
    "expat, Database._process_xml_tree/_build_odxlinks and the suffix tests of add_pdx_file/load_files/load_directory by drv_pdx correspondence; "
    "Part E (PARENT-REF chains unfolded through the ODXLINK map + the C15/C09 models of the two inheritance schemes) is tied to comparam_refs and "
    "the effective object lists of the real layers after refresh() on the cross-document hierarchy family",
    "comparison of databases = recursive comparison of dataclasses.fields (private attributes = resolved-reference caches ignored, lists in "
    "order); an ODXLINK reference is compared by (ref_id, identity of the object it resolves to) in the whole-database round trip",
    "derived state of a loaded database = every public property of every layer and of the database, every query method of a layer that takes at "
    "most a protocol, and every public property of every dataclass object that answers with a scalar / an object with an ODXLINK id / a list "
    "(pdx_lib.effective_tree; enumerated from the live classes); objects with an id are compared by (class, short name, id)",
]
ASSUMPTIONS = [
    "strict mode (default): a MODEL-VERSION mismatch between files raises; in lenient mode the model version of the database depends on the file "
    "order (theorem C11_order_lenient_counterexample)",
    "envelope of the escaping clause: strings of XML 1.0 characters without CR (text) resp. without TAB/LF/CR (attribute values); XML "
    "normalises that white space on reading (C11_escape_whitespace_counterexample) — treated as outside 'mis-escaped'",
    "Description.text is serialized XHTML by design (Description.from_et) and is perturbed with well-formed markup only",
    "fields not read from the element's own slots (data types handed down from the DOP, layer/response kind implied by the tag, document "
    "fragments implied by the position; list pdx_lib.CONTEXT_FIELDS) are compared in the whole-database round trip but not perturbed on their own",
    "observed at the three container lists + model version (property anchors), the derived state of the layers and encode/decode on sample "
    "messages; the database short name (index.xml) and the keys of auxiliary_files depend on the entry point by construction and are reported "
    "as a note only",
    "ODX 2.0-only alternatives that the writer (always MODEL-VERSION 2.2.0) does not emit are allow-listed in Props/C11.lean (allowlist)",
]


def regen(ctx):
    rows, w, funcs, unreachable = pdxschema.regenerate(common.REPO, common.VERIF)
    ctx.schema = (rows, w, funcs, unreachable)
    f2, bases = pdxschema.scan_readers(common.REPO)
    reads, tags, _ = pdxschema.close_readers(f2, bases)
    by_tag = {}
    for q in f2:                                    # every parser function incl. module-level helpers, written tag or not
        for t in tags[q]:
            for p in reads[q]:
                cur = t
                for comp in p:
                    by_tag.setdefault(cur, set()).add(comp)
                    cur = comp
    ctx.reads_by_tag = by_tag
    ctx.count("schema_rows", len(rows))
    ctx.count("schema_parser_functions", len(funcs))
    ctx.count("schema_templates", w.n_templates)
    ctx.count("schema_read_slots", sum(len(r[2]) for r in rows))
    for n in sorted(set(w.unresolved)):
        ctx.notes.append("extractor: " + n)


GENERATORS = [regen]


# local work-around (BUILDING.md: no edits to common code): findings recorded in fixes/known_C11*.jsonl count as known until
# they are merged into /verif/known_findings.jsonl (entries de-duplicated by id)
def _load_known_with_local(pid, _orig=common.load_known):
    import json
    out = _orig(pid)
    if pid == ID:
        have = {e.get("id") for e in out}
        for f in sorted((common.VERIF / "fixes").glob("known_C11*.jsonl")):
            for line in f.read_text().splitlines():
                line = line.strip()
                if line and not line.startswith("#"):
                    e = json.loads(line)
                    if e.get("property") == pid and e.get("id") not in have:
                        have.add(e.get("id"))
                        out.append(e)
    return out


common.load_known = _load_known_with_local


# slots excused in Props/C11.lean (kept in step by hand; only used to explain a failing table obligation)
LEAN_EXCUSED = {"@DOCREF", "@DOCTYPE", "DIAG-VARIABLES/DIAG-VARIABLE", "DIAG-VARIABLES/DIAG-VARIABLE-REF", "VARIABLE-GROUPS/VARIABLE-GROUP",
                "POS-RESPONSE-SUPPRESSABLE", "VALUE", "ENV-DATA-DESCS/ENV-DATA-DESC/ENV-DATAS/ENV-DATA", "ENV-DATAS/ENV-DATA",
                "DATA-OBJECT-PROP-REF", "@CATEGORY", "COMPARAMS/COMPARAM", "COMPLEX-COMPARAMS/COMPLEX-COMPARAM",
                "DATA-OBJECT-PROPS/DATA-OBJECT-PROP", "UNIT-SPEC"}

# fields whose perturbation would leave the set of databases an ODX document can describe
SKIP_FIELDS = {
    ("EnvironmentData", "all_value"),       # presence flag of the choice ALL-VALUE | DTC-VALUES; the writer derives it from dtc_values
}
RICH = ["rmeta", "rdict", "rcomm", "rhard"]


# =================================================================================================
# databases under test
def example_files():
    return sorted((common.REPO / "examples").glob("*.pdx"))


def gen_xml(seed, idx, n_comp=4):
    """a generated document (harness/odxgen, written by another builder; optional)"""
    import random
    import odxgen
    rng = random.Random(f"{seed}/C11/gen/{idx}")
    comps = []
    for j in range(n_comp):
        c = odxgen.gen_composite(rng, name=f"G{j}")
        comps.append(c)
    return odxgen.to_xml(comps), comps


def open_db(src, seed=0):
    """src: 'example:<file name>' | 'rich:<name>' | 'richall' | 'seq:<name>' | 'gen:<idx>' | 'xdoc:<partition>[:rev]' | 'namesake:<base>/<renames>'"""
    from odxtools.database import Database
    kind, _, arg = src.partition(":")
    with warnings.catch_warnings():
        warnings.simplefilter("ignore")
        if kind == "example":
            db = Database()
            db.add_pdx_file(str(common.REPO / "examples" / arg))
            db.refresh()
            return db
        if kind == "rich":
            return R.load(arg)
        if kind == "richall":
            db = Database()
            for n in RICH:
                for fn, data in R.AUX[n].items():
                    db.add_auxiliary_file(fn, io.BytesIO(data))
                db._process_xml_tree(ElementTree.fromstring(R.DOCS[n]()))
            db.refresh()
            return db
        if kind == "seq":
            return R.load_docs(R.seq_variants()[arg])
        if kind == "xdoc":      # the five-layer hierarchy distributed over containers; documents parent first / (rev) child first
            code, _, rev = arg.partition(":")
            m = R.xdoc_members(code)
            return R.load_docs([m[n] for n in R.xdoc_parent_first(code, reverse=bool(rev))])
        if kind == "namesake":  # documents sharing a short name across categories, put together from isolated parses (no loader history)
            base, _, code = arg.partition("/")
            members, aux, _ = namesake_members(base, code)
            db, err = L.load_isolated(members, aux)
            if db is None:
                raise RuntimeError(err)
            return db
        if kind == "gen":
            xml, _ = gen_xml(seed, int(arg))
            db = Database()
            db._process_xml_tree(ElementTree.fromstring(xml))
            db.refresh()
            return db
    raise ValueError(src)


# =================================================================================================
# behaviour: encode / decode on sample messages
SOMERSAULT_CALLS = [("session_start", {}), ("session_stop", {}), ("tester_present", {}), ("do_forward_flips", {"forward_soberness_check": 0x12, "num_flips": 3}),
                    ("do_backward_flips", {"backward_soberness_check": 0x21, "num_flips": 2}), ("report_status", {}),
                    ("set_operation_params", {"use_fire_ring": True}), ("compulsory_program", {})]
FIXED_PDUS = ["1000", "1001", "3e00", "ba1203", "7f1011", "5000", "fa0507", "7fba7f", "bd", "00", "", "ffffffff", "22f190", "62f19007"]


def _exc(e):
    return "raises:" + type(e).__name__


def behaviour(db):
    """canonical record of what the database does on sample messages (compared between the two databases)"""
    out = []
    with warnings.catch_warnings():
        warnings.simplefilter("ignore")
        try:
            layers = list(db.diag_layers)
        except Exception as e:
            return [("layers", _exc(e))]
        for dl in layers:
            pdus = set(FIXED_PDUS) | set(R.SAMPLE_PDUS)
            try:
                services = [s for s in dl.services if hasattr(s, "encode_request")]
            except Exception as e:
                out.append((dl.short_name, "services", _exc(e)))
                continue
            calls = {name: kw for name, kw in SOMERSAULT_CALLS}
            for svc in services[:80]:
                kw = calls.get(svc.short_name, {})
                try:
                    raw = bytes(svc.encode_request(**kw))
                    pdus.add(raw.hex())
                    res = raw.hex()
                except Exception as e:
                    res = _exc(e)
                out.append((dl.short_name, "encode", svc.short_name, res))
                if not kw and res.startswith("raises"):
                    # a request with required parameters: give each of them the value 1 (inherited services whose DOPs
                    # were found by short name in the layer that defines them encode differently per definition)
                    try:
                        kw1 = {p.short_name: 1 for p in svc.request.required_parameters}
                        raw = bytes(svc.encode_request(**kw1))
                        pdus.add(raw.hex())
                        res = raw.hex()
                    except Exception as e:
                        res = _exc(e)
                    out.append((dl.short_name, "encode-required=1", svc.short_name, res))
                try:
                    req = svc.request
                    if req is not None:
                        out.append((dl.short_name, "prefix", svc.short_name, bytes(req.coded_const_prefix()).hex()))
                    for resp in list(svc.positive_responses)[:2] + list(svc.negative_responses)[:1]:
                        pre = bytes(resp.coded_const_prefix(request_prefix=bytes.fromhex(res) if not res.startswith("raises") else b""))
                        out.append((dl.short_name, "rprefix", svc.short_name, resp.short_name, pre.hex()))
                        if pre:
                            pdus.add((pre + b"\x01\x02\x03\x04").hex())
                            pdus.add(pre.hex())
                except Exception as e:
                    out.append((dl.short_name, "prefix", svc.short_name, _exc(e)))
            for h in sorted(pdus)[:160]:
                try:
                    msgs = dl.decode(bytes.fromhex(h))
                    res = [(m.service.short_name, m.coding_object.short_name, L.tree(m.param_dict)) for m in msgs]
                except Exception as e:
                    res = _exc(e)
                out.append((dl.short_name, "decode", h, res))
    return out


def gen_behaviour(db, comps, seed, idx):
    """generated documents: encode generated values / decode the resulting PDUs on the objects of the database"""
    import random
    import codec_oracles as O
    from odxgen import values as V
    rng = random.Random(f"{seed}/C11/genval/{idx}")
    out = []
    raw = db.diag_layers[0].diag_layer_raw
    for c in comps:
        try:
            obj = {"request": raw.requests, "pos-response": raw.positive_responses, "neg-response": raw.negative_responses,
                   "global-neg-response": raw.global_negative_responses}.get(c.kind, raw.diag_data_dictionary_spec.structures)[c.name]
        except Exception as e:
            out.append((c.name, "lookup", _exc(e)))
            continue
        for k in range(3):
            try:
                v, trig = V.gen_value(rng, c), V.gen_trigger(rng, c)
            except Exception:
                continue
            r = O.impl_encode(obj, v, trig)
            out.append((c.name, "encode", k, r.status, r.pdu.hex() if r.ok else None))
            if r.ok:
                d = O.impl_decode(obj, r.pdu)
                out.append((c.name, "decode", k, d.status, L.tree(d.value) if d.ok else None))
    return out


# =================================================================================================
# the whole-database round trip
def effective_findings(db, db2, clause, limit=40):
    """differences between the derived state of two loaded databases (what each layer ends up with after inheritance, its
    communication parameters and protocols, the answers of its query methods): [(clause, features, observed, detail)]"""
    try:
        e1, e2 = L.effective_tree(db), L.effective_tree(db2)
    except Exception as e:
        return [("harness-input", ["effective"], L.err_class(e), str(e)[:200])]
    out = []
    for d in L.diff(e1, e2, limit=limit):
        out.append((clause, [effective_feature(d)], observed_of(d), f"{d['path']}: {d['left']} -> {d['right']}"))
    return out


def effective_feature(d):
    """<layer class>.<property or query> of a difference between two effective images"""
    import re
    m = re.match(r"^(?:\.effective)?\.layers\.([^.\[]+/[^.\[]+)\.([A-Za-z_0-9]+)", d["path"])
    if m:
        return f"layer.{m.group(2)}"
    m = re.match(r"^(?:\.effective)?\.lists\.([A-Za-z_0-9]+)", d["path"])
    if m:
        return f"database.{m.group(1)}"
    m = re.match(r"^(?:\.effective)?\.resolved\..*?:([A-Za-z_0-9]+\.[A-Za-z_0-9]+)", d["path"])
    if m:
        return m.group(1)
    return feature_of(d)


def feature_of(d):
    return f"{d['cls']}.{d['field']}"


def observed_of(d):
    if d["right"] in ("None", "('missing',)") or (d["right"].startswith("<list of 0") and not d["left"].startswith("<list of 0")):
        return "dropped"
    if d["left"] in ("None",) or d["left"].startswith("<list of 0"):
        return "added"
    return "altered"


def unresolved_feature(err):
    """which kind of document an ODXLINK reference that cannot be resolved after the reload points into (from the message of
    OdxLinkDatabase.resolve): tells a wrong DOCREF to a comparam subset from one to a container"""
    import re
    m = re.search(r"could not be resolved.*?doc_type=<DocType\.([A-Z_]+)", err or "", re.S)
    return ["unresolved:" + m.group(1)] if m else []


def roundtrip(src, seed=0):
    """-> dict(findings=[(clause, features, observed, detail)], stats)"""
    out = {"src": src, "findings": [], "objects": 0, "classes": [], "ok": False, "fields": 0}
    try:
        db = open_db(src, seed)
    except Exception as e:
        out["findings"].append(("harness-input", ["open:" + src.split(":")[0]], L.err_class(e), str(e)[:200]))
        return out
    objs = list(L.db_objects(db))
    out["objects"] = len(objs)
    out["classes"] = sorted({type(o).__name__ for _, o in objs})
    out["fields"] = len({(type(o).__name__, f.name) for _, o in objs for f in L.public_fields(o)})
    pdx1, err = L.write_db(db)
    if pdx1 is None:
        out["findings"].append(("write-raises", ["whole-database", err.split(":")[1] if ":" in err else err], "write-raises", err))
        return out
    db2, err = L.load_pdx_bytes(pdx1)
    if db2 is None:
        kind = "xml-parse-error" if err.startswith("xml-parse-error") else "reload-raises"
        out["findings"].append((kind, ["whole-database", err.split(":")[1] if ":" in err else err] + unresolved_feature(err), kind, err[:240]))
        return out
    diffs = L.diff(L.db_tree(db, resolve=True), L.db_tree(db2, resolve=True), limit=300)
    for d in diffs:
        out["findings"].append(("field-preserved", [feature_of(d)], observed_of(d), f"{d['path']}: {d['left']} -> {d['right']}"))
    out["findings"] += effective_findings(db, db2, "effective-state-preserved")
    pdx2, err = L.write_db(db2)
    if pdx2 is None:
        out["findings"].append(("second-write-raises", ["whole-database"], "write-raises", err))
        return out
    m1, m2 = L.odx_members(pdx1), L.odx_members(pdx2)
    for n in sorted(set(m1) | set(m2)):
        if m1.get(n) != m2.get(n):
            a, b = (m1.get(n) or b"").decode("utf-8", "replace").splitlines(), (m2.get(n) or b"").decode("utf-8", "replace").splitlines()
            first = next((i for i, (x, y) in enumerate(zip(a, b)) if x != y), min(len(a), len(b)))
            out["findings"].append(("idempotence", ["odx-member-bytes"], "differs",
                                    f"{n} line {first + 1}: {a[first][:120] if first < len(a) else '<eof>'} | {b[first][:120] if first < len(b) else '<eof>'}"))
    a1 = {k: v for k, v in L.all_members(pdx1).items() if k not in m1 and k != "index.xml"}
    a2 = {k: v for k, v in L.all_members(pdx2).items() if k not in m2 and k != "index.xml"}
    if a1 != a2:
        out["findings"].append(("idempotence", ["auxiliary-files"], "differs", f"{sorted(a1)} vs {sorted(a2)}"))
    try:
        if src.startswith("gen:"):
            _, comps = gen_xml(seed, int(src.split(":")[1]))
            b1, b2 = gen_behaviour(db, comps, seed, int(src.split(":")[1])), gen_behaviour(db2, comps, seed, int(src.split(":")[1]))
        else:
            b1, b2 = behaviour(db), behaviour(db2)
        out["behaviour_cases"] = len(b1)
        out["behaviour_ok"] = sum(1 for x in b1 if not any(isinstance(y, str) and y.startswith("raises") for y in x))
        if b1 != b2:
            k = next((i for i, (x, y) in enumerate(zip(b1, b2)) if x != y), min(len(b1), len(b2)))
            out["findings"].append(("behaviour", ["encode-decode"], "differs", f"{str(b1[k] if k < len(b1) else None)[:200]} | {str(b2[k] if k < len(b2) else None)[:200]}"))
    except Exception as e:
        out["findings"].append(("harness-input", ["behaviour"], L.err_class(e), str(e)[:200]))
    out["ok"] = not out["findings"]
    out["members"] = len(m1)
    return out


# =================================================================================================
# perturbation workers
_W = {}


def _winit(repo, seed):
    os.environ["ODX_REPO"] = repo
    warnings.simplefilter("ignore")
    common.import_repo()
    L.install_bytecode_cache()
    _W.update(dbs={}, bases={}, pool=None, seed=seed)


def _wdb(src):
    if src not in _W["dbs"]:
        _W["dbs"][src] = open_db(src, _W["seed"])
        _W["bases"][src] = L.baseline(_W["dbs"][src]) or frozenset()
    return _W["dbs"][src], _W["bases"][src]


def _wpool(srcs):
    if _W["pool"] is None:
        _W["pool"] = L.Pool()
        for s in srcs:
            try:
                _W["pool"].harvest(_wdb(s)[0])
            except Exception:
                pass
    return _W["pool"]


def _wperturb(task):
    src, path, cls, fname, k, variant, donors, family = task
    try:
        db, base = _wdb(src)
        r = L.apply_and_roundtrip(db, path, fname, k, _wpool(donors), variant_index=variant, base=base, family=family)
    except Exception as e:
        r = {"status": "skipped", "kind": None, "diffs": [], "tried": 0, "why": "harness:" + type(e).__name__ + ":" + str(e)[:120]}
    r.update(src=src, path=path, cls=cls, field=fname, k=k, family=family)
    if family in ("falsy", "wide") and "decl" not in r:
        try:
            r["decl"] = L.declaring_class(L.resolve_path(_wdb(src)[0], path), fname)
        except Exception:
            r["decl"] = cls
    return r


def _wroundtrip(task):
    src, seed = task
    try:
        return roundtrip(src, seed)
    except Exception as e:
        return {"src": src, "findings": [("harness-input", ["roundtrip"], L.err_class(e), str(e)[:200])], "objects": 0, "classes": [], "ok": False, "fields": 0}


# ---- write-sequence family: several different databases written one after the other by ONE process
def seq_sources():
    return ["seq:" + n for n in R.seq_variants()]


def seq_findings(src, seed, ref_members=None):
    """write -> load -> compare with the source; optionally compare the ODX members with those of a write in a fresh process"""
    out = []
    try:
        db = open_db(src, seed)
    except Exception as e:
        return [("harness-input", ["open"], L.err_class(e), str(e)[:200])], None
    pdx, err = L.write_db(db)
    if pdx is None:
        return [("write-raises", ["write-sequence"], "write-raises", err)], None
    members = L.odx_members(pdx)
    db2, err = L.load_pdx_bytes(pdx)
    if db2 is None:
        out.append(("write-sequence", ["reload"], "xml-parse-error" if err.startswith("xml-parse-error") else "reload-raises", err))
    else:
        for d in L.diff(L.db_tree(db, resolve=True), L.db_tree(db2, resolve=True), limit=20):
            out.append(("write-sequence", [feature_of(d)], observed_of(d), f"{d['path']}: {d['left']} -> {d['right']}"))
        out += [("write-sequence",) + f[1:] for f in effective_findings(db, db2, "write-sequence", limit=20) if f[0] != "harness-input"]
    if ref_members is not None and members != ref_members:
        n = next((k for k in sorted(set(members) | set(ref_members)) if members.get(k) != ref_members.get(k)), "?")
        a = (ref_members.get(n) or b"").decode("utf-8", "replace").splitlines()
        b = (members.get(n) or b"").decode("utf-8", "replace").splitlines()
        i = next((j for j, (x, y) in enumerate(zip(a, b)) if x != y), min(len(a), len(b)))
        out.append(("write-sequence", ["bytes-differ-from-fresh-process"], "differs",
                    f"{n} line {i + 1}: alone {a[i][:140] if i < len(a) else '<eof>'} | in sequence {b[i][:140] if i < len(b) else '<eof>'}"))
    return out, members


def _wreference(task):
    """(fresh process) the ODX members a database gives when it is the only one this process ever writes"""
    src, seed = task
    warnings.simplefilter("ignore")
    try:
        f, members = seq_findings(src, seed)
        return src, members
    except Exception:
        return src, None


def _wsequence(task):
    """(fresh process) write the databases in the given order; -> [(src, findings)]"""
    order, seed, *rest = task
    refs = rest[0] if rest else {}
    warnings.simplefilter("ignore")
    res = []
    for src in order:
        try:
            f, _ = seq_findings(src, seed, refs.get(src))
        except Exception as e:
            f = [("harness-input", ["sequence"], L.err_class(e), str(e)[:200])]
        res.append((src, f))
    return res


def write_sequences(ctx, rng, n_orders):
    srcs = seq_sources() + ["example:" + f.name for f in example_files()] + ["rich:rmeta", "rich:rhard"]
    mpctx = mp.get_context("fork")
    with mpctx.Pool(min(8, len(srcs)), maxtasksperchild=1) as pool:       # one fresh process per task
        refs = {s: m for s, m in pool.map(_wreference, [(s, ctx.seed) for s in srcs], chunksize=1) if m is not None}
        orders = [list(srcs), list(reversed(srcs))]
        for _ in range(n_orders):
            orders.append(rng.sample(srcs, len(srcs)))
        # every ordered pair of the small variants occurs adjacently in some order
        small = seq_sources()
        orders.append([x for a in small for b in small if a != b for x in (a, b)])
        results = pool.map(_wsequence, [(o, ctx.seed, refs) for o in orders], chunksize=1)
    for order, res in zip(orders, results):
        ctx.histo("write_sequence_length", len(order))
        for i, (src, findings) in enumerate(res):
            ctx.case(("sequence", tuple(order[:i + 1])), nontrivial=i > 0)
            for clause, feats, obs, detail in findings:
                if clause == "harness-input":
                    ctx.histo("unusable_input", "sequence:" + obs)
                    continue
                ctx.violate(clause, feats + ["after-other-writes"] if i > 0 else feats, obs,
                            {"kind": "sequence", "order": order[:i + 1], "seed": ctx.seed, "detail": detail},
                            f"writing {src} as number {i + 1} of the sequence {order[:i + 1]} in one process: {clause} {feats} {obs}: {detail}"[:500])
    ctx.count("write_sequences", len(orders))
    ctx.count("write_sequence_writes", sum(len(o) for o in orders))


def enumerate_sites(srcs, seed, per_field, rng):
    """[(src, path, cls, field, k)] — per (class, field) up to `per_field` objects, spread over the databases"""
    by = collections.OrderedDict()
    for src in srcs:
        try:
            db = open_db(src, seed)
        except Exception:
            continue
        for path, cls, fname in L.sites(db):
            if L.is_context(cls, fname) or (cls, fname) in SKIP_FIELDS:
                continue
            by.setdefault((cls, fname), []).append((src, path))
    tasks = []
    for (cls, fname), lst in by.items():
        picks = [lst[0]]
        if per_field > 1 and len(lst) > 1:
            rest = lst[1:]
            rng.shuffle(rest)
            picks += rest[:per_field - 1]
        for j, (src, path) in enumerate(picks):
            tasks.append((src, path, cls, fname, j))
    return tasks, len(by)


def enumerate_order_sites(srcs, seed, per_sig, rng):
    """[(src, path, cls, field, k)] for the list-order family: per (class, field, set of element kinds in the list) up to
    `per_sig` lists with at least two items, the longest first (ties: first found) — so every list that mixes element
    kinds (references and inline elements, the parameter classes) is reached in each combination that occurs"""
    by = collections.OrderedDict()
    for src in srcs:
        try:
            db = open_db(src, seed)
        except Exception:
            continue
        for path, cls, fname, kinds, n in L.order_sites(db):
            if (cls, fname) in SKIP_FIELDS:
                continue
            by.setdefault((cls, fname, kinds), []).append((n, src, path))
    tasks = []
    for (cls, fname, kinds), lst in by.items():
        best = sorted(range(len(lst)), key=lambda i: (-lst[i][0], i))
        picks = best[:1]
        rest = best[1:]
        if per_sig > 1 and rest:
            rng.shuffle(rest)
            picks += rest[:per_sig - 1]
        for j, i in enumerate(picks):
            tasks.append((lst[i][1], lst[i][2], cls, fname, j))
    return tasks, len(by), sum(1 for (_, _, kinds) in by if len(kinds) > 1)


def enumerate_wide_sites(srcs, seed, per_sig, rng):
    """[(src, path, cls, field, k)] for the wide-number family: per (class, field, Python type of the number that is there now)
    up to `per_sig` objects — a CODED-VALUE is an integer under A_UINT32 and a float under A_FLOAT64, coefficients likewise"""
    by = collections.OrderedDict()
    for src in srcs:
        try:
            db = open_db(src, seed)
        except Exception:
            continue
        for path, cls, fname, kind in L.wide_sites(db):
            if (cls, fname) in SKIP_FIELDS:
                continue
            by.setdefault((cls, fname, kind), []).append((src, path))
    tasks = []
    for (cls, fname, kind), lst in by.items():
        picks = [lst[0]]
        if per_sig > 1 and len(lst) > 1:
            rest = lst[1:]
            rng.shuffle(rest)
            picks += rest[:per_sig - 1]
        for j, (src, path) in enumerate(picks):
            tasks.append((src, path, cls, fname, j))
    return tasks, collections.Counter(kind for (_, _, kind) in by)


def perturb_features(r):
    cls = "OdxLinkRef" if (r["field"] == "ref_docs") else r["cls"]
    if r.get("family") == "order":      # one signature per list field (the kind of re-ordering is in the witness)
        return [f"{cls}.{r['field']}", "list-order"]
    if r.get("family") in ("falsy", "wide"):    # one signature per declaring class: LONG-NAME of 60 element classes is one template line
        return [f"{r.get('decl') or cls}.{r['field']}", r.get("kind") or r.get("family")]
    return [f"{cls}.{r['field']}"]


def report_perturbation(ctx, r):
    """turn one perturbation result into bookkeeping / a violation"""
    st = r["status"]
    if r.get("family") in ("falsy", "order", "wide") and st == "skipped" and r.get("why") == "no-variant":
        return          # not a scalar field / not a list with two items / not a number
    if r.get("family") in ("order", "wide"):    # one evaluated case per order / number that was written and loaded
        tv = r.get("tried_values") or []
        for kind, val in tv[:-1] if st in ("same", "diff", "xml-parse-error", "write-raises") else tv:
            ctx.case(("perturb", r["src"], r["path"], r["field"], val), nontrivial=True)
        if r.get("family") == "order":
            for kind, val in tv:
                ctx.histo("order_perturbation_kind", kind if kind.count("-") == 1 else "order-by-kind-" + kind.rsplit("-", 1)[-1])
            ctx.count("order_perturbations", len(tv))
        else:
            for kind, val in tv:
                ctx.histo("wide_perturbation_kind", kind)
            ctx.count("wide_perturbations", len(tv))
            ctx.count("wide_sites")
    ctx.histo("perturbation_status", st)
    ctx.histo("perturbation_kind", r.get("kind"))
    ctx.case(("perturb", r["src"], r["path"], r["field"], str(r.get("value"))), nontrivial=st in ("same", "diff", "xml-parse-error"))
    if st in ("same", "skipped"):
        if st == "skipped":
            ctx.histo("perturbation_skipped_why", (r.get("why") or "").split(":")[0] + ":" + ((r.get("why") or "").split(":") + ["", ""])[1][:30])
        return
    w = {"kind": "perturb", "src": r["src"], "path": r["path"], "cls": r["cls"], "field": r["field"], "k": r["k"], "variant": r.get("variant"),
         "value": r.get("value"), "seed": ctx.seed, "family": r.get("family", "default")}
    feats = perturb_features(r)
    if st == "diff" and isinstance(r.get("value"), dict) and "donor" in str(r["value"].get("value", "")):
        # a DONOR element taken from another object of the document carries numbers typed for ITS host (int coefficients of an integer
        # compu method); in the new host the declared type may be a float type, so the written "0" is read back as 0.0: the same number
        # under the declared type. Such a tree is not a state any loader produces -- a difference that is only this retyping is not a
        # loss (round 9: a false alarm of this harness in the thorough tier, see DESIGN.md I.8).
        def _num(x):
            import ast
            try:
                v = ast.literal_eval(x)
            except Exception:  # noqa
                return None
            if isinstance(v, tuple) and len(v) == 2 and v[0] == "float":
                try:
                    return float(v[1])
                except Exception:  # noqa
                    return None
            return float(v) if isinstance(v, (int, float)) and not isinstance(v, bool) else None
        rest = [d for d in r["diffs"] if not (_num(d["left"]) is not None and _num(d["left"]) == _num(d["right"]))]
        if not rest:
            ctx.count("donor_numbers_retyped_by_the_new_host(not a loss)")
            return
        r = {**r, "diffs": rest}
    if st == "diff":
        own = [d for d in r["diffs"] if d["field"] == r["field"]] or r["diffs"]
        d = own[0]
        obs = observed_of(d)
        ctx.violate("field-preserved", feats, obs, {**w, "diff": r["diffs"][:3]},
                    f"{r['cls']}.{r['field']} set to {r.get('value')} is {obs} by write -> load ({d['path'][-70:]}: {d['left'][:60]} -> {d['right'][:60]})")
    elif st == "xml-parse-error":
        ctx.violate("field-preserved", feats, "xml-parse-error", {**w, "error": r.get("why")},
                    f"{r['cls']}.{r['field']} set to {r.get('value')}: the written PDX is not well-formed XML ({r.get('why')})")
    elif st == "write-raises":
        ctx.violate("field-preserved", feats, "write-raises", {**w, "error": r.get("why")},
                    f"{r['cls']}.{r['field']} set to {r.get('value')}: write_pdx_file raises ({r.get('why')})")


# =================================================================================================
# load order / entry points
def order_images(members, order, how, tmpdir=None, aux=None):
    """load the ODX members (dict name -> bytes) in the given order through one entry point; `aux` = auxiliary files
    (added in front of / behind the ODX files alternately); -> (image | None, error class)"""
    from odxtools.database import Database
    import odxtools.loadfile as LF
    aux = aux or {}
    if aux and not how.startswith("trees"):
        members = {**members, **aux}
        order = (list(aux) + list(order)) if len(order) % 2 else (list(order) + list(aux))
    try:
        with warnings.catch_warnings():
            warnings.simplefilter("ignore")
            if how in ("trees", "trees-refresh-twice", "trees-stepwise"):
                # call histories of the loader: one refresh() at the end / a second refresh() of the complete database /
                # a refresh() after every document (one that fails because a referenced document is still missing is
                # abandoned; the last one sees all documents)
                db = Database()
                for n, data in aux.items():
                    db.add_auxiliary_file(n, io.BytesIO(data))
                for n in order:
                    db._process_xml_tree(ElementTree.fromstring(members[n]))
                    if how == "trees-stepwise" and n != order[-1]:
                        try:
                            db.refresh()
                        except Exception:
                            pass
                db.refresh()
                if how == "trees-refresh-twice":
                    db.refresh()
            elif how == "zip":
                buf = io.BytesIO()
                with zipfile.ZipFile(buf, "w") as z:
                    for n in order:
                        z.writestr(n, members[n])
                db = Database()
                db.add_pdx_file(io.BytesIO(buf.getvalue()))
                db.refresh()
            elif how == "zipobj":
                buf = io.BytesIO()
                with zipfile.ZipFile(buf, "w") as z:
                    for n in order:
                        z.writestr(n, members[n])
                db = Database()
                db.add_pdx_file(zipfile.ZipFile(io.BytesIO(buf.getvalue())))
                db.refresh()
            else:
                d = Path(tmpdir)
                for n in order:
                    (d / n).write_bytes(members[n])
                if how == "files":
                    # (load_files keys auxiliary files by their full path, so LIBRARY/CODE-FILE cannot be resolved: run it from inside the directory)
                    cwd = os.getcwd()
                    os.chdir(d)
                    try:
                        db = LF.load_files(*order)
                    finally:
                        os.chdir(cwd)
                elif how == "odxfile":
                    db = Database()
                    for n in order:
                        if n in aux:
                            db.add_auxiliary_file(n, io.BytesIO(aux[n]))
                        else:
                            db.add_odx_file(str(d / n))
                    db.refresh()
                elif how == "pdxpath":
                    pth = d / "x.pdx"
                    with zipfile.ZipFile(pth, "w") as z:
                        for n in order:
                            z.writestr(n, members[n])
                    db = LF.load_file(pth)
                else:
                    db = LF.load_directory(d)
        return loaded_image(db), None
    except Exception as e:
        return None, L.err_class(e)


def loaded_image(db):
    """everything "the loaded database" is: the described attributes of every element (container lists sorted by short name), the
    state refresh() derives from them (per layer: inherited / overridden objects, communication parameters, protocols, query results)
    and what the layers do (encode / decode on sample messages)"""
    img = L.sort_containers(L.db_tree(db, resolve=True))
    return (img[0], img[1], list(img[2]) + [("effective", L.effective_tree(db)), ("behaviour", ("list", sorted(behaviour(db), key=lambda x: str(x[0]))))])      # (layers follow the container order: grouped by layer name)


def image_part(d):
    """which part of a loaded image a difference lies in"""
    p = d["path"]
    return "effective" if p.startswith(".effective") else "behaviour" if p.startswith(".behaviour") else "described"


def order_reference(members, aux=None):
    """the database the members give in alphabetical order; when that order cannot be loaded, in the first of the reversed / rotated
    orders that can (the failing order is then reported as depending on the file order instead of hiding the whole file set)"""
    names = sorted(members)
    err = None
    for o in [names, names[::-1]] + [names[i:] + names[:i] for i in range(1, len(names))]:
        ref, e = order_images(members, o, "trees", aux=aux)
        err = err or e
        if ref is not None:
            return ref, None
    return None, err


def seq_members(name):
    """the documents of a write-sequence variant as archive members (container name + .odx-d)"""
    out = {}
    for x in R.seq_variants()[name]:
        out[ElementTree.fromstring(x).find("DIAG-LAYER-CONTAINER").get("ID") + ".odx-d"] = x.encode()
    return out


def order_checks(ctx, name, members, rng, n_orders, exhaustive_upto=4, aux=None):
    names = sorted(members)
    ref, err = order_reference(members, aux)
    ctx.case(("order", name, tuple(names), "trees"))
    if ref is None:
        ctx.count("order_reference_unloadable")
        return
    if len(names) <= exhaustive_upto:
        orders = [list(p) for p in itertools.permutations(names)]
    else:
        orders = [list(reversed(names))] + [rng.sample(names, len(names)) for _ in range(n_orders)]
        for i in range(len(names)):         # every file first / last once
            orders.append([names[i]] + names[:i] + names[i + 1:])
    for o in orders:
        for how in ("trees",) if len(orders) > 8 else ("trees", "zip"):
            img, err = order_images(members, o, how, aux=aux)
            ctx.case(("order", name, tuple(o), how))
            ctx.histo("order_entry_point", how)
            if img != ref:
                d = L.diff(ref, img)[:2] if img is not None else []
                ctx.violate("load-order-independence", [how, "file-order"] + sorted({image_part(x) for x in d}), err or "differs",
                            {"kind": "order", "src": name, "order": o, "how": how},
                            f"loading {name} in order {o} via {how} gives a different database ({err or d})")
    tmp = tempfile.mkdtemp(prefix="c11_")
    try:
        for j, how in enumerate(("zip", "zipobj", "files", "odxfile", "pdxpath", "dir", "trees-refresh-twice", "trees-stepwise")):
            o = orders[j % len(orders)]
            sub = os.path.join(tmp, how)
            os.mkdir(sub)
            img, err = order_images(members, o, how, sub, aux=aux)
            ctx.case(("order", name, tuple(o), how))
            ctx.histo("order_entry_point", how)
            if img != ref:
                d = L.diff(ref, img)[:2] if img is not None else []
                ctx.violate("load-order-independence", [how, "entry-point"] + sorted({image_part(x) for x in d}), err or "differs",
                            {"kind": "order", "src": name, "order": o, "how": how},
                            f"loading {name} via {how} gives a different database than via _process_xml_tree ({err or d})")
    finally:
        shutil.rmtree(tmp, ignore_errors=True)


# ---- cross-document hierarchy family: one five-layer hierarchy, every distribution of the layers over documents, every document order
def xdoc_orders(code, exhaustive):
    """orders of the members of partition `code`: every permutation of the container documents (exhaustive) or the parent-first,
    the child-first order, every rotation of them and every container first once; the two comparam documents go in front, behind,
    around or into the middle of the containers in turn"""
    m = R.xdoc_members(code)
    pf = [n for n in R.xdoc_parent_first(code) if n.endswith(".odx-d")]
    if exhaustive or len(pf) <= 3:
        perms = [list(p) for p in itertools.permutations(pf)]
    else:
        perms = []
        for base in (pf, pf[::-1]):
            for i in range(len(base)):
                perms.append(base[i:] + base[:i])
        for i in range(len(pf)):
            perms.append([pf[i]] + [x for x in pf[::-1] if x != pf[i]])
        perms = [list(x) for x in dict.fromkeys(tuple(p) for p in perms)]
    cs, spec = "xcs.odx-cs", "xspec.odx-c"
    out = []
    for j, p in enumerate(perms):
        k = j % 5
        h = len(p) // 2
        out.append([cs, spec] + p if k == 0 else p + [spec, cs] if k == 1 else [spec] + p + [cs] if k == 2
                   else p[:h] + [cs, spec] + p[h:] if k == 3 else [cs] + p + [spec])
    return m, out


def xdoc_findings(code, exhaustive, hows=("trees",)):
    """-> (number of cases, [(features, observed, witness, what)])"""
    members, orders = xdoc_orders(code, exhaustive)
    members = {n: x.encode() for n, x in members.items()}
    ref, ref_order, err0 = None, None, None
    imgs = []
    tmp = tempfile.mkdtemp(prefix="c11x_")
    try:
        for j, o in enumerate(orders):
            how = hows[j % len(hows)]
            sub = os.path.join(tmp, str(j))
            os.mkdir(sub)
            img, err = order_images(members, o, how, sub)
            shutil.rmtree(sub, ignore_errors=True)
            imgs.append((o, how, img, err))
            if ref is None and img is not None:
                ref, ref_order = img, o
    finally:
        shutil.rmtree(tmp, ignore_errors=True)
    out = []
    for o, how, img, err in imgs:
        if ref is None or img != ref:
            d = L.diff(ref, img)[:2] if img is not None and ref is not None else []
            out.append(([how, "file-order"] + sorted({image_part(x) for x in d}), err or "differs",
                        {"kind": "xdoc-order", "code": code, "order": o, "how": how, "ref_order": ref_order},
                        f"hierarchy distributed as {code} over the containers: loading {o} via {how} gives a different database than "
                        f"loading {ref_order} ({err or [(x['path'], x['left'], x['right']) for x in d]})"[:600]))
    return len(imgs), out


def _wxdoc(task):
    code, exhaustive, hows = task
    try:
        return code, xdoc_findings(code, exhaustive, hows)
    except Exception as e:
        return code, (0, [(["harness"], "foreign:" + type(e).__name__, {"kind": "xdoc-order", "code": code}, "harness: " + str(e)[:200])])


def xdoc_checks(ctx, pool, big):
    """every partition of the hierarchy; quick: every order for up to three containers, 11 / 14 chosen orders for four / five"""
    parts = R.xdoc_partitions()
    all_hows = ("trees", "zip", "trees-stepwise", "files", "dir", "trees-refresh-twice", "odxfile", "pdxpath", "zipobj")
    tasks = [(c, big, all_hows if (i % 4 == 0 or big) else ("trees", "zip", "trees-stepwise", "trees-refresh-twice")) for i, c in enumerate(parts)]
    for code, (n, findings) in pool.map(_wxdoc, tasks, chunksize=1):
        ctx.count("xdoc_orders", n)
        ctx.histo("xdoc_containers", len(set(code)))
        for j in range(n):
            ctx.case(("xdoc-order", code, j))
        for feats, obs, wit, what in findings:
            if feats == ["harness"]:
                ctx.notes.append(f"xdoc {code}: {what}")
                continue
            ctx.violate("load-order-independence", feats, obs, wit, what)


# ---- namesake family: documents of different categories (and a document and a layer) that carry the same short name
_NAMESAKE = {}


def namesake_bases():
    """file sets that contain documents of all three categories: the shipped example and a two-container distribution of the
    cross-document hierarchy (with its COMPARAM-SUBSET and COMPARAM-SPEC documents); -> {base: (members, auxiliary files)}"""
    if not _NAMESAKE:
        ex = example_files()[0]
        with zipfile.ZipFile(ex) as z:
            members = {n: z.read(n) for n in z.namelist() if Path(n).suffix.lower().startswith(".odx")}
            aux = {n: z.read(n) for n in z.namelist() if n not in members and n.lower() != "index.xml" and not n.endswith(".orig")}
        _NAMESAKE["example"] = (members, aux)
        _NAMESAKE["xdoc"] = ({n: x.encode() for n, x in R.xdoc_members("00011").items()}, {})
    return _NAMESAKE


def namesake_variants(members):
    """every way to give ONE document the name of a document of another category or of a diagnostic layer (never the name of a
    document of its own category: that is not legal), and every way to put a document of each category under one name;
    -> [(code 'member=new name[;member=new name]', (category of the renamed document | 'all', kind of the name's owner))]"""
    infos = {n: L.doc_info(d) for n, d in members.items()}
    files = sorted(infos)
    names = [(infos[f]["name"], infos[f]["kind"]) for f in files] + [(l, "layer") for f in files for l in infos[f]["layers"]]
    out = {}
    for f in files:
        own = {j["name"] for j in infos.values() if j["kind"] == infos[f]["kind"]}
        for nm, k in names:
            if nm not in own:
                out.setdefault(f"{f}={nm}", (infos[f]["kind"], k))
    by = {k: [f for f in files if infos[f]["kind"] == k] for k in ("dlc", "subset", "spec")}
    for k, fs in by.items():
        for t in fs:
            others = [by[o][(files.index(t)) % len(by[o])] for o in by if o != k and by[o]]
            if len(others) == 2:
                out.setdefault(";".join(f"{f}={infos[t]['name']}" for f in others), ("all", k))
    return list(out.items())


def namesake_members(base, code):
    members, aux = namesake_bases()[base]
    renamed = []
    for part in code.split(";"):
        f, _, nm = part.partition("=")
        members = L.rename_document(members, f, nm)
        renamed.append(nm + Path(f).suffix)
    return members, aux, renamed


def namesake_orders(members, renamed, exhaustive):
    """alphabetical, reversed (both relative orders of every pair of documents), each renamed document and each namesake of it
    first; exhaustive: every document first and last once"""
    names = sorted(members)
    stems = {Path(r).stem for r in renamed}
    front = [n for n in names if exhaustive or Path(n).stem in stems]
    orders = [names, names[::-1]] + [[n] + [x for x in names if x != n] for n in front]
    if exhaustive:
        orders += [[x for x in names if x != n] + [n] for n in names]
    return [list(o) for o in dict.fromkeys(tuple(o) for o in orders)]


NAMESAKE_HOWS = ("trees", "zip", "files", "dir", "odxfile", "pdxpath", "zipobj", "trees-stepwise", "trees-refresh-twice")


def namesake_findings(base, code, exhaustive, shift=0):
    """reference: the database put together from documents parsed in isolation (no loader call history); every order / entry
    point must give that database; -> (number of cases, [(features, observed, witness, what)])"""
    members, aux, renamed = namesake_members(base, code)
    refdb, err = L.load_isolated(members, aux)
    wit = {"kind": "namesake-order", "base": base, "code": code}
    if refdb is None:
        return 1, [(["isolated", "namesake-documents"], err.split(":")[0] if err.startswith("odx") or err.startswith("xml") else ":".join(err.split(":")[:2]),
                    dict(wit, order=None, how="isolated"), f"{base} with {code}: the documents parsed one by one cannot be put together ({err})")]
    ref = loaded_image(refdb)
    out, n = [], 0
    tmp = tempfile.mkdtemp(prefix="c11n_")
    try:
        for j, o in enumerate(namesake_orders(members, renamed, exhaustive)):
            for how in (NAMESAKE_HOWS if exhaustive else (NAMESAKE_HOWS[(shift + 2 * j) % 9], NAMESAKE_HOWS[(shift + 2 * j + 1) % 9])):
                sub = os.path.join(tmp, f"{j}_{how}")
                os.mkdir(sub)
                img, err = order_images(members, o, how, sub, aux=aux)
                shutil.rmtree(sub, ignore_errors=True)
                n += 1
                if img != ref:
                    d = L.diff(ref, img)[:2] if img is not None else []
                    out.append(([how, "namesake-documents"] + sorted({image_part(x) for x in d}), err or "differs", dict(wit, order=o, how=how),
                                f"{base} with {code} (documents of different categories / a layer with the same short name): loading {o} via {how} "
                                f"does not give the database the documents describe ({err or [(x['path'], x['left'], x['right']) for x in d]})"[:700]))
    finally:
        shutil.rmtree(tmp, ignore_errors=True)
    return n, out


def _wnamesake(task):
    base, code, exhaustive, shift = task
    try:
        return (base, code), namesake_findings(base, code, exhaustive, shift)
    except Exception as e:
        return (base, code), (0, [(["harness"], "foreign:" + type(e).__name__, {"kind": "namesake-order", "base": base, "code": code}, "harness: " + str(e)[:200])])


def namesake_selection(big, rng):
    """thorough: every variant; quick: one per (category of the renamed document, kind of the name's owner) and base"""
    sel = []
    for base, (members, _) in namesake_bases().items():
        try:
            vs = namesake_variants(members)
        except Exception:
            continue
        if not big:
            by = collections.OrderedDict()
            for code, sig in vs:
                by.setdefault(sig, []).append(code)
            vs = [(rng.choice(codes), sig) for sig, codes in by.items()]
        sel += [(base, code, sig) for code, sig in vs]
    return sel


def namesake_checks(ctx, pool, big, sel):
    for (base, code), (n, findings) in pool.map(_wnamesake, [(b, c, big, i) for i, (b, c, _) in enumerate(sel)], chunksize=1):
        ctx.count("namesake_loads", n)
        for j in range(n):
            ctx.case(("namesake-order", base, code, j))
        for feats, obs, wit, what in findings:
            if feats == ["harness"]:
                ctx.notes.append(f"namesake {base} {code}: {what}")
                continue
            ctx.violate("load-order-independence", feats, obs, wit, what)
    for _, _, sig in sel:
        ctx.histo("namesake_variant", sig[0] + "<-" + sig[1])


# ---- derived state against the Lean model
def _ddds(attr):
    return lambda dl: list(getattr(dl.diag_layer_raw.diag_data_dictionary_spec, attr)) if dl.diag_layer_raw.diag_data_dictionary_spec is not None else []

def _unit_groups(dl):
    us = dl.diag_data_dictionary_spec.unit_spec
    return list(us.unit_groups) if us is not None else []

# object category -> (local objects of a layer, NOT-INHERITED list of a parent ref, what the layer offers after refresh())
EFFECTIVE_CATEGORIES = [
    ("diag_comms", lambda dl: list(dl._get_local_diag_comms(None)), lambda pr: pr.not_inherited_diag_comms, lambda dl: list(dl.diag_comms)),
    ("global_negative_responses", lambda dl: list(dl.diag_layer_raw.global_negative_responses), lambda pr: pr.not_inherited_global_neg_responses,
     lambda dl: list(dl.global_negative_responses)),
    ("data_object_props", _ddds("data_object_props"), lambda pr: pr.not_inherited_dops, lambda dl: list(dl.diag_data_dictionary_spec.data_object_props)),
    ("tables", _ddds("tables"), lambda pr: pr.not_inherited_tables, lambda dl: list(dl.diag_data_dictionary_spec.tables)),
    ("functional_classes", lambda dl: list(dl.diag_layer_raw.functional_classes), lambda pr: [], lambda dl: list(dl.functional_classes)),
    ("additional_audiences", lambda dl: list(dl.diag_layer_raw.additional_audiences), lambda pr: [], lambda dl: list(dl.additional_audiences)),
    ("state_charts", lambda dl: list(dl.diag_layer_raw.state_charts), lambda pr: [], lambda dl: list(dl.state_charts)),
    ("unit_groups", lambda dl: list(dl._get_local_unit_groups()), lambda pr: [], _unit_groups),
]


def effective_lines(db, fuel=8):
    """-> [(category, request line, expected reply of the model = what the implementation derived)]"""
    layers = [dl for dlc in db.diag_layer_containers for dl in dlc.diag_layers]
    num = {id(dl): i + 1 for i, dl in enumerate(layers)}
    files = [f"(f {dlc.short_name} dlc f 1 " + " ".join(f"({dl.odx_id.local_id} {num[id(dl)]})" for dl in dlc.diag_layers) + ")"
             for dlc in db.diag_layer_containers]
    files += [f"(f {c.short_name} subset f 1)" for c in db.comparam_subsets] + [f"(f {c.short_name} spec f 1)" for c in db.comparam_specs]
    keys = [(dl.odx_id.doc_fragments[0].doc_name, dl.odx_id.local_id) for dl in layers]
    cpnum = {}

    def cptag(cp):
        return cpnum.setdefault(id(cp), len(cpnum) + 1)
    cps_raw = {id(dl): " ".join(f"({cptag(cp)} {cp.spec_ref.ref_id} {cp.protocol_snref or '-'})" for cp in getattr(dl.diag_layer_raw, "comparam_refs", []))
               for dl in layers}
    cps_impl = {}
    for dl in layers:
        if hasattr(dl, "comparam_refs"):
            cps_impl[id(dl)] = "(cps" + "".join(f" {cptag(cp)}" for cp in dl.comparam_refs) + ")"
    out = []
    for cat, local_of, ni_of, eff_of in EFFECTIVE_CATEGORIES:
        names, reps = {}, {}

        def obj(o):
            n = names.setdefault(o.short_name, len(names) + 1)
            rs = reps.setdefault(n, [])
            for j, r in enumerate(rs):
                try:
                    same = r is o or r == o
                except Exception:
                    same = r is o
                if same:
                    return f"({n} {j + 1})"
            rs.append(o)
            return f"({n} {len(rs)})"
        raws, expect = [], []
        for dl in layers:
            prs = ""
            for pr in getattr(dl.diag_layer_raw, "parent_refs", []):
                ref = pr.layer_ref
                excl = " ".join(str(names.setdefault(x, len(names) + 1)) for x in ni_of(pr))
                dt = getattr(getattr(ref.ref_docs[0], "doc_type", None), "value", "CONTAINER")      # DOCREF + DOCTYPE: the fragment
                dt = dt if dt in ("CONTAINER", "COMPARAM-SUBSET", "COMPARAM-SPEC") else "CONTAINER"
                prs += f" (({ref.ref_docs[0].doc_name} {dt} {ref.ref_id}){' ' + excl if excl else ''})"
            raws.append(f"(o {num[id(dl)]} {dl.variant_type.value} (cps {cps_raw[id(dl)]}) (locals {' '.join(obj(o) for o in local_of(dl))}) (parents{prs}))")
        for dl, (fr, i) in zip(layers, keys):
            try:
                objs = "(objs ok" + "".join(" " + obj(o) for o in eff_of(dl)) + ")"
            except AttributeError:
                objs = None          # ECU-SHARED-DATA layers do not offer this category
            expect.append((fr, i, cps_impl.get(id(dl)), objs))
        line = f"(effective {fuel} (files {' '.join(files)}) (raw {' '.join(raws)}) (keys {' '.join(f'({a} {b})' for a, b in keys)}))"
        out.append((cat, line, expect))
    return out


def effective_compare(reply, expect):
    """the parts of the model's reply that the implementation answers differently: [(layer, what, model, implementation)]"""
    import re
    got = re.findall(r"\(l (\S+) (\S+) (\(cps[^()]*\)) (\(objs(?:[^()]|\([^()]*\))*\))\)", reply)
    if len(got) != len(expect):
        return [("*", "reply", reply[:200], f"{len(expect)} layers")]
    bad = []
    for (fr, i, cps, objs), (fr2, i2, icps, iobjs) in zip(got, expect):
        norm = lambda s: re.sub(r"\s+", " ", s).replace(" )", ")")
        if icps is not None and norm(cps) != norm(icps):
            bad.append((f"{fr}/{i}", "comparam_refs", cps, icps))
        if iobjs is not None and norm(objs) != norm(iobjs):
            bad.append((f"{fr}/{i}", "objects", objs, iobjs))
    return bad


def effective_model_correspondence(ctx, big):
    """the derived state of the layers (comparam_refs and, per object category, the objects a layer ends up with) in the real
    database after refresh() against the Lean model (`Pdx.effectiveComparams` / `Pdx.effectiveObjects`: PARENT-REF chains unfolded
    through the ODXLINK map, then the C15 / C09 models) -- on the shipped example, the hand-written multi-layer documents and the
    cross-document hierarchy in every distribution over containers, documents parent first and child first"""
    drv = ctx.driver("drv_pdx")
    if not drv.available():
        ctx.notes.append("drv_pdx not built: effective-state correspondence skipped")
        return
    parts = R.xdoc_partitions()
    if not big:
        parts = [c for c in parts if len(set(c)) in (1, 2, 5)]
    srcs = ["example:" + f.name for f in example_files()] + ["rich:rmeta"] + seq_sources()
    srcs += [f"xdoc:{c}{r}" for c in parts for r in ("", ":rev") if r == "" or len(set(c)) > 1]
    lines, exps = [], []
    for src in srcs:
        try:
            with warnings.catch_warnings():
                warnings.simplefilter("ignore")
                db = open_db(src, ctx.seed)
                for cat, line, expect in effective_lines(db):
                    lines.append(line)
                    exps.append((src, cat, expect))
        except Exception as e:
            ctx.histo("effective_model_unusable", src.split(":")[0] + ":" + L.err_class(e))     # (reported by the direct oracle)
    for reply, line, (src, cat, expect) in zip(drv.query(lines), lines, exps):
        ctx.traces += 1
        ctx.histo("effective_model_category", cat)
        bad = effective_compare(reply, expect)
        if bad:
            lay, what, model, impl = bad[0]
            ctx.disagree("effective-state-model", f"{src} {cat} layer {lay} {what}: {line}"[:1500], model, impl)


def mini_doc(frag, kind, version):
    body = {"dlc": f'<DIAG-LAYER-CONTAINER ID="{frag}"><SHORT-NAME>{frag}</SHORT-NAME><ECU-SHARED-DATAS><ECU-SHARED-DATA ID="x"><SHORT-NAME>x_{frag}</SHORT-NAME>'
                   f'</ECU-SHARED-DATA></ECU-SHARED-DATAS></DIAG-LAYER-CONTAINER>',
            "subset": f'<COMPARAM-SUBSET ID="{frag}" CATEGORY="c"><SHORT-NAME>{frag}</SHORT-NAME><DATA-OBJECT-PROPS><DATA-OBJECT-PROP ID="x"><SHORT-NAME>x</SHORT-NAME>'
                      f'<COMPU-METHOD><CATEGORY>IDENTICAL</CATEGORY></COMPU-METHOD><DIAG-CODED-TYPE BASE-DATA-TYPE="A_UINT32" xsi:type="STANDARD-LENGTH-TYPE">'
                      f'<BIT-LENGTH>8</BIT-LENGTH></DIAG-CODED-TYPE><PHYSICAL-TYPE BASE-DATA-TYPE="A_UINT32"/></DATA-OBJECT-PROP></DATA-OBJECT-PROPS></COMPARAM-SUBSET>',
            "spec": f'<COMPARAM-SPEC ID="{frag}"><SHORT-NAME>{frag}</SHORT-NAME></COMPARAM-SPEC>'}[kind]
    return f'<ODX MODEL-VERSION="{version}" {R.XSI}>{body}</ODX>'


def order_model_correspondence(ctx, rng, n):
    """Database._process_xml_tree over tiny documents vs the Lean model (processAll / links)"""
    from odxtools.database import Database
    from packaging.version import Version
    drv = ctx.driver("drv_pdx")
    reqs, impls, inputs = [], [], []
    for i in range(n):
        k = rng.randint(1, 5)
        files = []
        vers = rng.choice([["2.2.0"], ["2.2.0"], ["2.0.0"], ["2.2.0", "2.0.0"], ["2.2.0", "2.2.1"]])
        # every other file set draws the short names from a pool of two: documents of different categories then share a
        # name (namesakes; legal — a document is identified by name AND type); never two documents of one fragment
        pool_names = i % 2 == 1
        used = set()
        for j in range(k):
            kind = rng.choice(["dlc", "dlc", "subset", "spec"])
            v = rng.choice(vers)
            doctype = "dlc" if kind == "dlc" else "spec" if kind == "spec" and Version(v) >= Version("2.2") else "subset"
            name = f"F{j}"
            if pool_names:
                free = [n for n in ("N", "M") if (n, doctype) not in used]
                name = rng.choice(free) if free else name
            used.add((name, doctype))
            files.append((name, kind, v))
        if len({f for f, _, _ in files}) < len(files):
            ctx.count("order_model_namesake_sets")
        vnum = {"2.0.0": 200, "2.2.0": 220, "2.2.1": 221}
        line = "(load " + " ".join(f"(f {f} {kd} {'t' if Version(v) < Version('2.2') else 'f'} {vnum[v]}" + (" (x 1)" if kd != "spec" else "") + ")" for f, kd, v in files) + ")"
        try:
            with warnings.catch_warnings():
                warnings.simplefilter("ignore")
                db = Database()
                for f, kd, v in files:
                    db._process_xml_tree(ElementTree.fromstring(mini_doc(f, kd, v)))
                links = db._build_odxlinks()
            lk = []
            for oid in links:
                lk.append((oid.doc_fragments[0].doc_name + " " + oid.doc_fragments[0].doc_type.value, oid.local_id))
            keys = [(a, b) for a, b in lk if b == "x"]
            impl = ("(ok (" + " ".join(["dlcs"] + [c.short_name for c in db.diag_layer_containers]) + ") ("
                    + " ".join(["subsets"] + [c.short_name for c in db.comparam_subsets]) + ") ("
                    + " ".join(["specs"] + [c.short_name for c in db.comparam_specs]) + f") (version {vnum[str(db.model_version)]}) ("
                    + " ".join(["links"] + [f"({a} {b} 1)" for a, b in keys]) + "))")
        except Exception as e:
            impl = "(err)" if L.err_class(e) == "odx-error" else "(foreign:" + type(e).__name__ + ")"
        reqs.append(line)
        impls.append(impl)
        inputs.append(files)
    if not drv.available():
        ctx.notes.append("drv_pdx not built: order correspondence skipped")
        return
    for line, impl, model in zip(reqs, impls, drv.query(reqs)):
        ctx.traces += 1
        ctx.histo("order_model_outcome", model.split(" ")[0].strip("()"))
        if norm_links(model) != norm_links(impl):
            ctx.disagree("load-order-model", line, model, impl)


def norm_links(reply):
    """the ODXLINK part of a reply as a set (the model prints first-insertion order, the dict of the implementation too, but
    only the set is part of the claim)"""
    import re
    m = re.search(r"\(links(.*)\)\)$", reply)
    if not m:
        return reply
    items = sorted(re.findall(r"\([^()]*\)", m.group(1)))
    return reply[:m.start()] + "(links " + " ".join(items) + "))"


def dispatch_correspondence(ctx):
    """the suffix tests of the three entry points, observed on the real functions with recording stubs"""
    import odxtools.loadfile as LF
    from odxtools.database import Database
    drv = ctx.driver("drv_pdx")
    names = ["a.odx-d", "B.ODX-CS", "c.odx", "d.odx-xyz", "index.xml", "INDEX.XML", "e.jar", "f", "g.pdx", "H.PDX", "i.odxd", "j.xml", "k.odx-d.bak", "odx-d"]

    class Rec(Database):
        def __init__(self):
            super().__init__()
            self.log = []

        def _process_xml_tree(self, root):
            self.log.append("odx")

        def add_auxiliary_file(self, n, o=None):
            self.log.append("aux")

        def refresh(self):
            pass

    tmp = tempfile.mkdtemp(prefix="c11_")
    reqs, impls = [], []
    try:
        for n in names:
            sfx = Path(n).suffix.lower() or "-"
            # archive member
            buf = io.BytesIO()
            with zipfile.ZipFile(buf, "w") as z:
                z.writestr(n, b"<ODX><SHORT-NAME>s</SHORT-NAME></ODX>")
            db = Rec()
            try:
                db.add_pdx_file(io.BytesIO(buf.getvalue()))
                got = db.log[0] if db.log else "index"
            except Exception as e:
                got = "raises:" + type(e).__name__
            reqs.append(f"(dispatch pdx {sfx} {n.lower()})")
            impls.append(got)
            # load_files / load_directory
            d = os.path.join(tmp, n + ".d")
            os.mkdir(d)
            (Path(d) / n).write_bytes(buf.getvalue() if n.lower().endswith(".pdx") else b"<ODX><SHORT-NAME>s</SHORT-NAME></ODX>")
            for ep, fn in (("files", lambda: LF.load_files(Path(d) / n)), ("dir", lambda: LF.load_directory(d))):
                logs = []
                orig = LF.Database
                LF.Database = lambda: _mk(Rec, logs)
                try:
                    fn()
                    got = logs[0].log[0] if logs and logs[0].log else "index"
                    if n.lower().endswith(".pdx"):
                        got = "pdx"
                except Exception as e:
                    got = "raises:" + type(e).__name__
                finally:
                    LF.Database = orig
                reqs.append(f"(dispatch {ep} {sfx} {n.lower()})")
                impls.append(got)
    finally:
        shutil.rmtree(tmp, ignore_errors=True)
    if not drv.available():
        return
    for line, impl, model in zip(reqs, impls, drv.query(reqs)):
        ctx.traces += 1
        ctx.case(("dispatch", line))
        if model != impl:
            ctx.disagree("entry-point-dispatch", line, model, impl)


def _mk(cls, logs):
    o = cls()
    logs.append(o)
    return o


# =================================================================================================
# escaping correspondence
def cp_line(op, s):
    return f"({op} (cp" + "".join(f" {ord(c)}" for c in s) + "))"


def parse_cp(reply):
    import re
    if reply.startswith("(err"):
        return None
    return "".join(chr(int(x)) for x in re.findall(r"\d+", reply.split("(cp", 1)[1]))


def gen_strings(rng, n):
    alphabet = list("&<>\"'ab;#xlt gamp\t\n\r]") + ["ü", "€", "\U0001F600", "\x00", "\x0b", "￾", "퟿", "&amp;", "&#34;", "&lt;", "]]>", "&quot;", "&apos;", "&#39;", "&gt;"]
    out = ["", "&", "<", ">", "\"", "'", "a&b<c>d\"e'f", "&amp;", "&lt;", "]]>", "\r\n", "a\rb", "a\tb", "a\nb", "&#34;", "&#x22;", "&unknown;", "&amp", "x\x00y"] + L.META
    for _ in range(n):
        out.append("".join(rng.choice(alphabet) for _ in range(rng.randint(0, 9))))
    return out


def expat_text(raw):
    try:
        return ElementTree.fromstring(f"<a>{raw}</a>".encode("utf-8", "surrogatepass")).text or ""
    except Exception:
        return None


def expat_attr(raw):
    try:
        return ElementTree.fromstring(f'<a b="{raw}"/>'.encode("utf-8", "surrogatepass")).get("b")
    except Exception:
        return None


def escape_correspondence(ctx, rng, n):
    import markupsafe
    import odxtools.writepdxfile as W
    drv = ctx.driver("drv_pdx")
    strings = gen_strings(rng, n)
    lines, impls, meta = [], [], []
    for s in strings:
        ok = all(not (0xD800 <= ord(c) <= 0xDFFF) for c in s)
        if not ok:
            continue
        esc = str(markupsafe.escape(s))
        lines.append(cp_line("escape", s)); impls.append(esc); meta.append(("escape", s))
        # the decoders on arbitrary raw text (also ill-formed) and on escaped text
        for raw in (s, esc):
            if raw is s and not in_model_domain(raw):
                ctx.count("escape_raw_strings_outside_model_domain")
                continue
            lines.append(cp_line("text", raw)); impls.append(expat_text(raw)); meta.append(("text", raw))
            lines.append(cp_line("attr", raw)); impls.append(expat_attr(raw)); meta.append(("attr", raw))
        # direct oracle on the implementation: what make_xml_attrib writes must be read back as the value
        try:
            written = str(W.make_xml_attrib("B", s))
            got = ElementTree.fromstring(f"<a{written}/>".encode("utf-8")).get("B")
        except Exception as e:
            got = "raises:" + type(e).__name__
        in_env = all(L_xml_char(ord(c)) and c not in "\t\n\r" for c in s)
        ctx.case(("attrib", s), nontrivial=any(c in "&<>\"'" for c in s))
        if in_env and got != s:
            ctx.violate("no-mis-escaping", ["make_xml_attrib"], "altered" if not str(got).startswith("raises") else "xml-parse-error",
                        {"kind": "escape", "cp": [ord(c) for c in s]},
                        f"make_xml_attrib writes {s!r} so that it is read back as {got!r}")
    if not drv.available():
        ctx.notes.append("drv_pdx not built: escaping correspondence skipped")
        return
    for (op, s), impl, reply in zip(meta, impls, drv.query(lines)):
        ctx.traces += 1
        ctx.histo("escape_op", op)
        model = parse_cp(reply)
        if model != impl:
            ctx.disagree("escape-" + op, [ord(c) for c in s], reply, None if impl is None else [ord(c) for c in impl])


def in_model_domain(raw):
    """the decoders of the model cover character data without markup and the references the writer can emit plus the
    predefined entities; raw strings with other numeric references, comments, PIs or tags are outside"""
    import re
    if re.search(r"&#(?!3[49];)", raw):
        return False
    return not re.search(r"<[!?/A-Za-z_:]", raw)


def L_xml_char(c):
    return c in (9, 10, 13) or 0x20 <= c <= 0xD7FF or 0xE000 <= c <= 0xFFFD or 0x10000 <= c <= 0x10FFFF


# =================================================================================================
# extractor cross-checks
def slots_of_document(xml_bytes):
    """{(tag, slot)} present in a document (slot = child tag or @attribute; xsi:type normalised)"""
    out = set()
    root = ElementTree.fromstring(xml_bytes)
    for el in root.iter():
        for a in el.attrib:
            out.add((el.tag, "@" + ("xsi:type" if a.endswith("}type") else a)))
        for ch in el:
            out.add((el.tag, ch.tag))
    return out


def writer_cross_check(ctx, written_docs, w):
    """every slot the real templates produced must be known to the writer scan"""
    missing = set()
    for xml in written_docs:
        for tag, slot in slots_of_document(xml):
            s = w.slots.get(tag)
            if slot.startswith("@xsi:") or slot.startswith("@{") or slot.startswith("@xmlns") or slot == "@MODEL-VERSION" and False:
                continue
            if s is None or (slot not in s and "*" not in s and "@*" not in s):
                if tag == "DESC" or _inside_desc(slot):      # XHTML inside DESC is data, not template text
                    continue
                missing.add((tag, slot))
    xhtml = {t for t, _ in missing if t in ("p", "ul", "ol", "li", "br", "b", "i", "u", "sub", "sup")}
    missing = {m for m in missing if m[0] not in xhtml and m[0] != "ODX"}
    ctx.count("writer_cross_check_slots", sum(len(v) for v in w.slots.values()))
    ctx.obligation("extractor-writer-scan-complete", not missing, "slots emitted by the real templates but unknown to the scan: " + str(sorted(missing)[:8]))


def _inside_desc(slot):
    return slot in ("p", "ul", "ol", "li", "br", "b", "i", "u", "sub", "sup")


def reader_cross_check(ctx, docs, reads_by_tag, budget):
    """remove one slot from an input document; if the parsed (unrefreshed) database changes, the slot is read and must be in
    the extracted reads of some class parsed from that tag"""
    from odxtools.database import Database
    import odxtools.exceptions as X
    missing, tested = set(), 0

    import logging
    logging.getLogger("odxtools").setLevel(logging.CRITICAL)
    logging.getLogger().setLevel(logging.CRITICAL)

    def parse(root):
        old = X.strict_mode
        X.strict_mode = False
        try:
            with warnings.catch_warnings():
                warnings.simplefilter("ignore")
                db = Database()
                db._process_xml_tree(root)
                return L.db_tree(db)
        except Exception as e:
            return ("raises", type(e).__name__)
        finally:
            X.strict_mode = old

    seen = set()
    for xml in docs:
        root = ElementTree.fromstring(xml)
        ref = parse(root)
        parent = {c: p for p in root.iter() for c in p}
        for el in list(root.iter()):
            if el.tag in ("ODX",) or el.tag in ("p", "ul", "li", "DESC") and el is not root:
                if el.tag != "DESC":
                    continue
            for slot in ["@" + a for a in el.attrib] + sorted({c.tag for c in el}):
                key = (el.tag, "@xsi:type" if slot.endswith("}type") else slot)
                if key in seen or tested >= budget:
                    continue
                seen.add(key)
                tested += 1
                # remove, parse, restore
                if slot.startswith("@"):
                    val = el.attrib.pop(slot[1:])
                    img = parse(root)
                    el.attrib[slot[1:]] = val
                else:
                    kids = [(i, c) for i, c in enumerate(list(el)) if c.tag == slot]
                    for _, c in kids:
                        el.remove(c)
                    img = parse(root)
                    for i, c in kids:
                        el.insert(i, c)
                if img != ref and not (isinstance(img, tuple) and img and img[0] == "raises" and False):
                    known = reads_by_tag.get(el.tag, set())
                    if key[1] not in known and el.tag not in ("p", "ul", "li", "ol") and not _inside_desc(key[1]):
                        missing.add(key)
    ctx.count("reader_cross_check_slots_tested", tested)
    ctx.obligation("extractor-reader-scan-complete", not missing, "slots the parser demonstrably reads but the scan does not list: " + str(sorted(missing)[:8]))


# =================================================================================================
CORPUS = [  # (source, class, field): single-field perturbations that failed on the pinned commit (fixes/c11-*.patch)
    ("example:somersault.pdx", "Comparam", "display_level"), ("example:somersault.pdx", "ComplexComparam", "display_level"),
    ("example:somersault.pdx", "DiagService", "semantic"), ("rich:rmeta", "SpecialData", "value"),
    ("example:somersault.pdx", "CodedConstParameter", "oid"), ("example:somersault.pdx", "EcuVariantRaw", "oid"),
    ("example:somersault.pdx", "Table", "key_label"), ("example:somersault.pdx", "Table", "struct_label"), ("example:somersault.pdx", "Table", "admin_data"),
    ("example:somersault.pdx", "TableRow", "is_executable_raw"), ("example:somersault.pdx", "TableRow", "structure_snref"),
    ("example:somersault.pdx", "TableRow", "key_raw"), ("example:somersault.pdx", "StandardLengthType", "is_condensed_raw"),
    ("example:somersault.pdx", "MatchingRequestParameter", "bit_position"), ("example:somersault.pdx", "Request", "admin_data"),
    ("example:somersault.pdx", "Response", "admin_data"), ("example:somersault.pdx", "DiagDataDictionarySpec", "admin_data"),
    ("example:somersault.pdx", "EcuVariantRaw", "import_refs"), ("example:somersault.pdx", "Structure", "admin_data"),
    ("example:somersault.pdx", "DataObjectProperty", "physical_constr"), ("example:somersault.pdx", "PhysicalType", "precision"),
    ("rich:rdict", "DiagnosticTroubleCode", "is_temporary_raw"), ("rich:rdict", "DiagnosticTroubleCode", "long_name"),
    ("rich:rdict", "MultiplexerCase", "structure_snref"), ("rich:rdict", "StaticField", "is_visible_raw"),
    ("rich:rdict", "EnvironmentDataDescription", "param_snpathref"), ("rich:rdict", "Table", "table_diag_comm_connectors"),
    ("rich:rcomm", "OutputParam", "oid"), ("rich:rcomm", "ProgCode", "entrypoint"), ("rich:rcomm", "LengthKeyParameter", "odx_id"),
    ("rich:rmeta", "StateTransition", "external_access_method"), ("rich:rhard", "DynIdDefModeInfo", "dyn_def_message_ref"),
]


def run(ctx):
    big = ctx.tier == "thorough"
    rng = ctx.rng
    warnings.simplefilter("ignore")
    L.install_bytecode_cache()
    nproc = max(2, min(16, (os.cpu_count() or 4)))
    examples = ["example:" + f.name for f in example_files()]
    rich = ["rich:" + n for n in RICH]
    n_gen = 150 if big else 16
    gens = []
    try:
        import odxgen  # noqa: F401
        gens = [f"gen:{i}" for i in range(n_gen)]
    except Exception as e:
        ctx.notes.append("harness/odxgen not importable (" + type(e).__name__ + "): generated documents skipped")
    # the cross-document hierarchy: one container, one container per layer, and each way of cutting the chain of layers into
    # two documents, loaded parent first and child first (the written archive has the containers in the order of the database)
    xparts = R.xdoc_partitions()
    xsel = [c for c in xparts if len(set(c)) in (1, 5) or c in ("01111", "00111", "00011", "00001", "01000", "00100", "00010", "01010")]
    if big:
        xsel = xparts
    xdocs = [f"xdoc:{c}{r}" for c in xsel for r in ("", ":rev") if r == "" or len(set(c)) > 1]
    # documents of different categories (and a document and a layer) under one short name
    nsel = namesake_selection(big, ctx.sub_rng("namesake"))
    ctx.count("namesake_variants", len(nsel))
    whole = examples + rich + ["rich:rvars", "rich:rwide", "richall"] + seq_sources() + xdocs + [f"namesake:{b}/{c}" for b, c, _ in nsel] + gens
    donors = examples[:1] + rich

    import time
    phases, t_last = [], [time.time()]

    def phase(name):
        now = time.time()
        phases.append(f"{name} {now - t_last[0]:.1f}s")
        t_last[0] = now

    # ---- 0. write sequences (fresh processes; before this process has written anything)
    write_sequences(ctx, ctx.sub_rng("sequence"), 6 if big else 2)
    phase("write-sequences")

    with mp.get_context("fork").Pool(nproc, initializer=_winit, initargs=(str(common.REPO), ctx.seed)) as pool:
        # ---- 1. whole-database round trips (the main clause)
        rts = pool.map(_wroundtrip, [(s, ctx.seed) for s in whole], chunksize=1)
        classes = set()
        for r in rts:
            ctx.case(("roundtrip", r["src"]), nontrivial=r["objects"] > 0)
            ctx.histo("roundtrip_source", r["src"].split(":")[0])
            ctx.count("roundtrip_objects", r["objects"])
            ctx.count("behaviour_cases", r.get("behaviour_cases", 0))
            ctx.count("behaviour_cases_without_exception", r.get("behaviour_ok", 0))
            classes |= set(r["classes"])
            if r["ok"]:
                ctx.count("roundtrip_clean")
            for clause, feats, obs, detail in r["findings"]:
                if clause == "harness-input":
                    ctx.histo("unusable_input", feats[0] + ":" + obs)
                    if not r["src"].startswith("gen:"):
                        ctx.notes.append(f"input {r['src']} unusable: {feats} {obs} {detail}")
                    continue
                ctx.violate(clause, feats, obs, {"kind": "roundtrip", "src": r["src"], "seed": ctx.seed, "detail": detail},
                            f"{r['src']}: {clause} {feats} {obs}: {detail}"[:400])
        ctx.count("element_classes_in_databases", len(classes))
        phase("roundtrips")
        ctx.sample({"roundtrip": [(r["src"], r["objects"], len(r["findings"])) for r in rts[:10]]})

        # ---- 2. single-field perturbations: corpus first, then every (class, field)
        srcs = examples[:1] + rich + ["rich:rwide"] + gens[:4] + examples[1:]
        tasks, n_fields = enumerate_sites(srcs, ctx.seed, 4 if big else 1, rng)
        ctx.count("class_field_pairs", n_fields)
        first = {}
        for src in sorted({c[0] for c in CORPUS}):
            try:
                for path, cls, fname in L.sites(open_db(src, ctx.seed)):
                    first.setdefault((src, cls, fname), (src, path, cls, fname, 0))
            except Exception:
                pass
        corpus = [first[c] for c in CORPUS if c in first]
        ctx.count("corpus_cases", len(corpus))
        missing_corpus = [c for c in CORPUS if c not in first]
        if missing_corpus:
            ctx.notes.append("corpus sites not present in the databases any more: " + str(missing_corpus[:5]))
        jobs = [(s, p, c, f, k, None, donors, "default") for (s, p, c, f, k) in corpus + tasks]
        if big:   # a second value per field (other meta string / the other boolean / 0 instead of 3 ...)
            jobs += [(s, p, c, f, k + 1, None, donors, "default") for (s, p, c, f, k) in tasks if k == 0]
        # falsy-but-present boundary values (0, 0.0, False, "") for every scalar field: `{% if x %}` vs `{% if x is not none %}`
        jobs += [(s, p, c, f, k, None, donors, "falsy") for (s, p, c, f, k) in tasks if k <= (1 if big else 0)]
        # every order of a list the in-memory database can have (the parser only ever produces its own normal form):
        # lists mixing element kinds partitioned / interleaved by kind, every list reversed / rotated / swapped
        otasks, n_lists, n_mixed = enumerate_order_sites(srcs, ctx.seed, 3 if big else 1, ctx.sub_rng("order"))
        ctx.count("order_list_signatures", n_lists)
        ctx.count("order_list_signatures_mixed_kinds", n_mixed)
        jobs += [(s, p, c, f, k, None, donors, "order") for (s, p, c, f, k) in otasks]
        # numbers at the edges of the number representations (beyond 2**53 / 64 bit / 32 bit, floats that need 17 digits, extreme
        # exponents) for every integer / float valued field and the first item of every list of numbers
        wtasks, wkinds = enumerate_wide_sites(srcs, ctx.seed, 3 if big else 1, ctx.sub_rng("wide"))
        for kd, n in sorted(wkinds.items()):
            ctx.count("wide_signatures_" + kd, n)
        jobs += [(s, p, c, f, k, None, donors, "wide") for (s, p, c, f, k) in wtasks]
        results = pool.map(_wperturb, jobs, chunksize=8)
        for r in results:
            report_perturbation(ctx, r)
        ctx.count("perturbations", len(results))
        phase("perturbations")
        # ---- 2b. the cross-document hierarchy in every distribution over documents and every document order
        xdoc_checks(ctx, pool, big)
        phase("xdoc-orders")
        # ---- 2c. namesake documents in every relative order through every entry point
        namesake_checks(ctx, pool, big, nsel)
        phase("namesake-orders")
        ctx.sample({"perturbation": {k: results[len(corpus)][k] for k in ("src", "path", "field", "kind", "status")}} if len(results) > len(corpus) else {})

    # ---- 3. load order and entry points
    for ex in example_files():
        with zipfile.ZipFile(ex) as z:
            members = {n: z.read(n) for n in z.namelist() if Path(n).suffix.lower().startswith(".odx")}
            aux = {n: z.read(n) for n in z.namelist() if n not in members and n.lower() != "index.xml"}
        order_checks(ctx, "example:" + ex.name, members, rng, 40 if big else 5, aux=aux)
    rmembers = {n + ".odx-d": R.DOCS[n]().encode() for n in RICH}
    raux = {k: v for n in RICH for k, v in R.AUX[n].items()}
    order_checks(ctx, "rich-docs", rmembers, rng, 10, exhaustive_upto=4, aux=raux)
    # layers that inherit across documents (PARENT-REF with DOCREF): the derived layer's container before / behind its parent's
    for n in R.seq_variants():
        order_checks(ctx, "seq:" + n, seq_members(n), rng, 2)
    phase("load-orders")
    order_model_correspondence(ctx, ctx.sub_rng("ordermodel"), 3000 if big else 400)
    effective_model_correspondence(ctx, big)
    dispatch_correspondence(ctx)
    phase("order-model")

    # ---- 4. escaping
    escape_correspondence(ctx, ctx.sub_rng("escape"), 12000 if big else 1500)

    phase("escape")
    # ---- 5. extractor cross-checks + explanation of a failing table obligation
    schema = getattr(ctx, "schema", None)
    if schema is not None:
        rows, w, funcs, unreachable = schema
        written = []
        for s in examples[:1] + rich:
            try:
                pdx, err = L.write_db(open_db(s, ctx.seed))
                if pdx:
                    written += list(L.odx_members(pdx).values())
            except Exception:
                pass
        try:
            writer_cross_check(ctx, written, w)
            docs = [R.DOCS[n]().encode() for n in RICH + ["rvars"]]
            with zipfile.ZipFile(example_files()[0]) as z:
                docs += [z.read(n) for n in z.namelist() if Path(n).suffix.lower().startswith(".odx")]
            reader_cross_check(ctx, docs, getattr(ctx, "reads_by_tag", {}), 4000 if big else 1500)
        except Exception as e:
            ctx.obligation("extractor-cross-check", False, repr(e)[:200])
        gaps = sorted({(cls, tag, s) for cls, tag, rd, wr in rows for s in rd if s not in wr and s not in LEAN_EXCUSED})
        ctx.count("schema_gaps_not_excused", len(gaps))
        if gaps:
            ctx.notes.append("read-but-not-written slots not excused in Props/C11.lean (C11_schema_table cannot hold): " + str(gaps[:12]))
    phase("extractor-cross-checks")
    ctx.notes.append("wall time per phase of run(): " + ", ".join(phases))
    # informational: what depends on the entry point by construction
    ctx.notes.append("Database.short_name comes from index.xml and is only set by add_pdx_file; keys of auxiliary_files are member names "
                     "(archive), bare names (load_directory) or full paths (load_files) — outside the observed containers")


def replay(ctx, data):
    """re-run the direct oracle on a witness; True = the property holds on this input now"""
    w = data.get("witness", data)
    warnings.simplefilter("ignore")
    L.install_bytecode_cache()
    kind = w.get("kind")
    seed = w.get("seed", 0)
    if kind == "roundtrip":
        r = roundtrip(w["src"], seed)
        sig = data.get("signature")
        if sig:
            return not any(c == sig["clause"] and sorted(f) == sig["features"] for c, f, o, d in r["findings"])
        return r["ok"]
    if kind == "perturb":
        db = open_db(w["src"], seed)
        pool = L.Pool()
        for s in ["example:" + f.name for f in example_files()][:1] + ["rich:" + n for n in RICH]:
            try:
                pool.harvest(open_db(s, seed))
            except Exception:
                pass
        base = L.baseline(db) or frozenset()
        r = L.apply_and_roundtrip(db, w["path"], w["field"], w.get("k", 0), pool, variant_index=w.get("variant"), base=base,
                                  family=w.get("family", "default"))
        return r["status"] in ("same", "skipped")
    if kind == "sequence":
        res = _wsequence((w["order"], seed))
        return not any(f for _, f in res)
    if kind == "order":
        if w["src"].startswith("example:"):
            with zipfile.ZipFile(common.REPO / "examples" / w["src"].split(":", 1)[1]) as z:
                members = {n: z.read(n) for n in z.namelist() if Path(n).suffix.lower().startswith(".odx")}
        elif w["src"].startswith("seq:"):
            members = seq_members(w["src"].split(":", 1)[1])
        else:
            members = {n + ".odx-d": R.DOCS[n]().encode() for n in RICH}
        ref, _ = order_reference(members)
        tmp = tempfile.mkdtemp(prefix="c11_")
        try:
            img, _ = order_images(members, w["order"], w["how"], tmp)
        finally:
            shutil.rmtree(tmp, ignore_errors=True)
        return img is not None and img == ref
    if kind == "xdoc-order":
        members = {n: x.encode() for n, x in R.xdoc_members(w["code"]).items()}
        tmp = tempfile.mkdtemp(prefix="c11_")
        try:
            os.mkdir(os.path.join(tmp, "a"))
            os.mkdir(os.path.join(tmp, "b"))
            ref, _ = order_images(members, w.get("ref_order") or R.xdoc_parent_first(w["code"]), "trees", os.path.join(tmp, "a"))
            img, _ = order_images(members, w["order"], w["how"], os.path.join(tmp, "b"))
        finally:
            shutil.rmtree(tmp, ignore_errors=True)
        return img is not None and img == ref
    if kind == "namesake-order":
        members, aux, _ = namesake_members(w["base"], w["code"])
        refdb, _ = L.load_isolated(members, aux)
        if refdb is None:
            return False
        if w.get("order") is None:
            return True
        tmp = tempfile.mkdtemp(prefix="c11_")
        try:
            img, _ = order_images(members, w["order"], w["how"], tmp, aux=aux)
        finally:
            shutil.rmtree(tmp, ignore_errors=True)
        return img is not None and img == loaded_image(refdb)
    if kind == "escape":
        import odxtools.writepdxfile as W
        s = "".join(chr(c) for c in w["cp"])
        try:
            return ElementTree.fromstring(f"<a{W.make_xml_attrib('B', s)}/>".encode()).get("B") == s
        except Exception:
            return False
    return True
