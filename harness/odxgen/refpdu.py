"""independent positional reference interpreter for the simple tier (DESIGN.md C02 `Spec/Layout` in Python):
standard-length objects (all base types, encodings, byte orders, bit positions, non-condensed masks),
RESERVED, MATCHING-REQUEST-PARAM, nested structures with/without BYTE-SIZE, static fields.

It never looks at odxtools.  A PDU is the OR of one placement per object: bit j of an n-bit raw value at
bit position p occupying k = ceil((n+p)/8) bytes starting at byte B goes to byte B + k-1-(j+p)//8 (high-low)
or B + (j+p)//8 (low-high), bit (j+p) % 8.  Position of an object = origin of the enclosing structure +
BYTE-POSITION, or the end of the previous object.
"""
import struct
from dataclasses import dataclass
from typing import Any, Optional, Tuple

from . import desc as D
from .values import Unsupported, raw_of_int, int_of_raw, str_codec, to_internal, to_physical, f32


@dataclass
class Slot:
    path: Tuple            # parameter names / field indices from the composite root
    pos: int               # absolute byte position
    bitpos: int
    n: int                 # bit length
    hl: bool               # byte order used for placement
    kind: str              # const | value | matchreq | reserved
    param: Any
    dct: Optional[Any] = None
    dop: Optional[Any] = None
    raw: Optional[int] = None      # const / matchreq: fixed raw value

    @property
    def nbytes(self):
        return (self.n + self.bitpos + 7) // 8

    @property
    def mask(self):
        m = (1 << self.n) - 1
        if self.dct is not None and isinstance(self.dct, D.Std) and self.dct.mask is not None:
            m &= self.dct.mask
        return m


def numeric_order(dct) -> bool:
    """placement byte order: low-high only applies to numeric base types"""
    return D.is_hl(dct) or dct.bt not in D.NUMERIC


def raw_of_internal(dct, x) -> int:
    """raw bit pattern (as unsigned integer of dct.bitlen bits) of an internal value for a STANDARD-LENGTH type"""
    n, bt = dct.bitlen, dct.bt
    if bt in ("A_INT32", "A_UINT32"):
        r = raw_of_int(bt, dct.enc, n, x)
        if r is None:
            raise Unsupported(f"{x} not representable")
        return r
    if bt == "A_FLOAT32":
        return struct.unpack(">I", struct.pack(">f", x))[0]
    if bt == "A_FLOAT64":
        return struct.unpack(">Q", struct.pack(">d", x))[0]
    b = bytes(x) if bt == "A_BYTEFIELD" else x.encode(str_codec(bt, dct.enc, D.is_hl(dct)))
    if 8 * len(b) != n:
        raise Unsupported("length")
    return int.from_bytes(b, "big")


def internal_of_raw(dct, r):
    """(internal value, canonical?) of a raw pattern; canonical = has exactly this wire form"""
    n, bt = dct.bitlen, dct.bt
    if bt in ("A_INT32", "A_UINT32"):
        return int_of_raw(bt, dct.enc, n, r)
    if bt == "A_FLOAT32":
        v = struct.unpack(">f", r.to_bytes(4, "big"))[0]
        return v, v == v
    if bt == "A_FLOAT64":
        v = struct.unpack(">d", r.to_bytes(8, "big"))[0]
        return v, v == v
    b = r.to_bytes(n // 8, "big")
    if bt == "A_BYTEFIELD":
        return b, True
    codec = str_codec(bt, dct.enc, D.is_hl(dct))
    try:
        s = b.decode(codec)
    except UnicodeDecodeError:
        return None, False
    return s, s.encode(codec) == b


def _slots(params, origin, path, out, st):
    cur = origin
    for p in params:
        pos = origin + p.bytepos if p.bytepos is not None else cur
        bp = p.bitpos or 0
        t = p.type
        if t == "coded-const":
            if not isinstance(p.dct, D.Std) or p.dct.condensed:
                raise Unsupported("dct")
            s = Slot(path + (p.name,), pos, bp, p.dct.bitlen, numeric_order(p.dct), "const", p, dct=p.dct, raw=raw_of_internal(p.dct, p.value))
            out.append(s)
            cur = pos + s.nbytes
        elif t in ("value", "phys-const", "system"):
            d = p.dop
            if isinstance(d, D.SimpleDop):
                if not isinstance(d.dct, D.Std) or d.dct.condensed:
                    raise Unsupported("dct")
                kind = "value"
                raw = None
                if t == "phys-const":
                    kind, raw = "const", raw_of_internal(d.dct, to_internal(d, p.value))
                s = Slot(path + (p.name,), pos, bp, d.dct.bitlen, numeric_order(d.dct), kind, p, dct=d.dct, dop=d, raw=raw)
                out.append(s)
                cur = pos + s.nbytes
            elif isinstance(d, D.Struct):
                if bp:
                    raise Unsupported("structure at bit position")
                end = _slots(d.params, pos, path + (p.name,), out, st)
                if d.bytesize is not None:
                    if end - pos > d.bytesize:
                        raise Unsupported("BYTE-SIZE smaller than content")
                    end = pos + d.bytesize
                cur = end
            elif isinstance(d, D.StaticField):
                if bp:
                    raise Unsupported("field at bit position")
                c = pos
                for i in range(d.count):
                    end = _slots(d.item.params, c, path + (p.name, i), out, st)
                    if d.item.bytesize is not None:
                        end = max(end, c + d.item.bytesize) if end - c <= d.item.bytesize else end
                    if end - c > d.itemsize:
                        raise Unsupported("ITEM-BYTE-SIZE smaller than content")
                    c += d.itemsize
                cur = c
            elif isinstance(d, D.DtcDop):
                # a DTC-DOP is placed like the integer it carries (the coded value; trouble code = coded value (IDENTICAL) or its exact
                # integer LINEAR image, D.dtc_compu_simple); which trouble codes are described DTCs is decided by D.effective_dtcs
                # (own DTCs, DTC-REFs, DTCs inherited through LINKED-DTC-DOPS)
                if t != "value" or not isinstance(d.dct, D.Std) or d.dct.condensed or d.dct.mask is not None \
                        or d.dct.bt != "A_UINT32" or d.dct.enc not in (None, "NONE") or not D.dtc_compu_simple(d):
                    raise Unsupported("dtc-dop")
                s = Slot(path + (p.name,), pos, bp, d.dct.bitlen, numeric_order(d.dct), "value", p, dct=d.dct, dop=d)
                out.append(s)
                cur = pos + s.nbytes
            else:
                raise Unsupported(type(d).__name__)
        elif t == "reserved":
            s = Slot(path + (p.name,), pos, bp, p.bitlen, False, "reserved", p)
            out.append(s)
            cur = pos + s.nbytes
        elif t == "matching-request":
            s = Slot(path + (p.name,), pos, 0, 8 * p.bytelen, True, "matchreq", p)
            out.append(s)
            cur = pos + p.bytelen
        else:
            raise Unsupported(t)
        st["len"] = max(st["len"], cur)
    return cur


def slots(comp):
    """(slot list, PDU length) of a simple-tier composite; raises Unsupported otherwise"""
    out, st = [], {"len": 0}
    end = _slots(comp.params, 0, (), out, st)
    if comp.kind == "structure" and comp.bytesize is not None:
        st["len"] = max(st["len"], comp.bytesize)
    return out, st["len"]


def place(buf, used, s: Slot, raw: int) -> bool:
    """OR the raw value of a slot into buf; returns True if it overlaps bits claimed earlier"""
    k, overlap = s.nbytes, False
    m = s.mask
    for j in range(s.n):
        if not (m >> j) & 1:
            continue
        byte = s.pos + (k - 1 - (j + s.bitpos) // 8 if s.hl else (j + s.bitpos) // 8)
        bit = 1 << ((j + s.bitpos) % 8)
        if used[byte] & bit:
            overlap = True
        used[byte] |= bit
        if (raw >> j) & 1:
            buf[byte] |= bit
        else:
            buf[byte] &= ~bit
    return overlap


def lookup(value, path):
    v = value
    for k in path:
        if v is None:
            return None
        v = v[k] if isinstance(k, int) else v.get(k)
    return v


def assemble(sl, length, raws, trig=None):
    """PDU from slots and a mapping path -> raw value for the value slots; returns (pdu, used mask, overlap?)"""
    buf, used, overlap = bytearray(length), bytearray(length), False
    for s in sl:
        if s.kind == "reserved":
            continue
        if s.kind == "matchreq":
            if trig is None or len(trig) < s.param.reqpos + s.param.bytelen:
                raise Unsupported("no triggering request")
            raw = int.from_bytes(trig[s.param.reqpos:s.param.reqpos + s.param.bytelen], "big")
        elif s.kind == "const":
            raw = s.raw
        else:
            raw = raws[s.path]
        overlap |= place(buf, used, s, raw)
    return bytes(buf), bytes(used), overlap


def reference_pdu(comp, value, trig=None):
    """(pdu, used mask, overlap?) that the ODX positional layout prescribes for encode(comp, value)"""
    sl, length = slots(comp)
    raws = {}
    for s in sl:
        if s.kind == "value":
            v = lookup(value, s.path)
            if v is None:
                v = s.param.default
            if v is None:
                raise Unsupported("missing value")
            x = D.dtc_coded_of_code(s.dop, v.code) if isinstance(s.dop, D.DtcDop) else to_internal(s.dop, v)
            if x is None or (isinstance(s.dop, D.DtcDop) and not 0 <= x < (1 << s.n)):
                raise Unsupported("trouble code without coded value")
            if s.dct.mask is not None and isinstance(x, int):
                x &= s.dct.mask
            raws[s.path] = raw_of_internal(s.dct, x)
    return assemble(sl, length, raws, trig)


def value_of_raws(comp, sl, raws, trig=None):
    """the physical value tree (as decode should return it) for given raw slot values; None if some raw value is
    not valid/canonical.  Used for C03: PDUs built "from the wire"."""
    out = {}

    def put(path, v):
        d = out
        for i, k in enumerate(path[:-1]):
            nxt = path[i + 1]
            if isinstance(k, int):
                while len(d) <= k:
                    d.append({})
                d = d[k]
            else:
                if k not in d:
                    d[k] = [] if isinstance(nxt, int) else {}
                d = d[k]
        d[path[-1]] = v

    for s in sl:
        if s.kind == "reserved":
            put(s.path, 0)
            continue
        if s.kind == "matchreq":
            put(s.path, int.from_bytes(trig[s.param.reqpos:s.param.reqpos + s.param.bytelen], "little"))
            continue
        raw = s.raw if s.kind == "const" else raws[s.path]
        x, canon = internal_of_raw(s.dct, raw & s.mask if s.dct.mask is not None else raw)
        if not canon:
            return None
        if isinstance(s.dop, D.DtcDop):
            from .sexp import DtcVal
            x = D.dtc_code_of_coded(s.dop, x)
            if x not in [c for c, _ in D.effective_dtcs(s.dop)] or not 0 <= x < (1 << 32):
                return None             # not a described DTC (or no A_UINT32 value): strict decoding refuses it
            put(s.path, DtcVal(x))
        elif s.dop is not None:
            from .values import canonical_internal
            if not canonical_internal(s.dop, x):
                return None
            p = to_physical(s.dop, x)
            if s.dop.phys == "A_FLOAT32" and isinstance(p, float) and p == p and f32(p) != p:
                return None
            put(s.path, p)
        else:
            put(s.path, x)
    return out


# ------------------------------------------------------------------ sequential layouts with terminated objects
def minmax_terminator(dct) -> bytes:
    """termination sequence of a MIN-MAX-LENGTH-TYPE (ISO 22901-1 7.3.6.3.4: 0x00 / 0xFF, two bytes for A_UNICODE2STRING)"""
    if dct.term == "END-OF-PDU":
        return b""
    b = b"\x00" if dct.term == "ZERO" else b"\xff"
    return b * (2 if dct.bt == "A_UNICODE2STRING" else 1)


def minmax_raw(dct, v) -> bytes:
    return bytes(v) if dct.bt == "A_BYTEFIELD" else v.encode(str_codec(dct.bt, dct.enc, D.is_hl(dct)))


def minmax_wire_length(dct, data: bytes, start: int):
    """what a reader of the wire takes as the value of a MIN-MAX-LENGTH object that starts at `start`: (byte length of the value,
    bytes consumed incl. a terminator); None if the PDU ends before MIN-LENGTH.  The value ends in front of the first termination
    sequence that lies at an offset >= MIN-LENGTH which is a multiple of the sequence length (an odd-aligned 0000 inside a UTF-16
    string is two halves of neighbouring code units, not a terminator) and entirely inside MAX-LENGTH, else at MAX-LENGTH, else at
    the end of the PDU"""
    if start + dct.min > len(data):
        return None
    t = minmax_terminator(dct)
    limit = len(data) - start if dct.max is None else min(len(data) - start, dct.max)
    if t:
        off = dct.min + (-dct.min) % len(t)
        while off + len(t) <= limit:
            if data[start + off:start + off + len(t)] == t:
                return off, off + len(t)
            off += len(t)
    return limit, limit


def sequential_pdu(comp, value):
    """reference PDU of a composite whose parameters follow each other without explicit positions and are byte-aligned
    standard-length constants / values or MIN-MAX-LENGTH values (identical conversion): (pdu, expected decoded value tree), or None
    if `value` has no canonical wire form (a min-max value that is too short / long or that a reader of the wire would end early).
    Written from the ODX rules, never looks at odxtools.  A terminator follows a min-max value unless the value has MAX-LENGTH
    or ends the PDU."""
    out, exp = b"", {}
    n = len(comp.params)
    for i, p in enumerate(comp.params):
        if p.bytepos is not None or p.bitpos:
            raise Unsupported("explicit position")
        if p.type == "coded-const":
            dct, v = p.dct, p.value
        elif p.type == "value" and isinstance(p.dop, D.SimpleDop) and isinstance(p.dop.compu, D.Identical):
            dct, v = p.dop.dct, value[p.name]
        else:
            raise Unsupported(p.type)
        exp[p.name] = v
        if isinstance(dct, D.Std):
            if dct.bitlen % 8 or dct.mask is not None:
                raise Unsupported("std")
            b = raw_of_internal(dct, v).to_bytes(dct.bitlen // 8, "big")
            out += b if numeric_order(dct) else b[::-1]
        elif isinstance(dct, D.MinMax):
            raw = minmax_raw(dct, v)
            t = minmax_terminator(dct)
            if len(raw) < dct.min or (dct.max is not None and len(raw) > dct.max) or (t and len(raw) % len(t)):
                return None
            last = i == n - 1
            if dct.term == "END-OF-PDU" and not last:
                raise Unsupported("END-OF-PDU object in front of another one")
            piece = raw if (last or len(raw) == dct.max) else raw + t
            out += piece
            if last:
                continue
            # the reader of the wire must find exactly this value again (whatever follows)
            probe = out + b"\x5a"
            if minmax_wire_length(dct, probe, len(out) - len(piece)) != (len(raw), len(piece)):
                return None
        else:
            raise Unsupported(type(dct).__name__)
    # a value that ends the PDU: the reader must take all of it
    last = comp.params[-1]
    dct = last.dct if last.type == "coded-const" else last.dop.dct
    if isinstance(dct, D.MinMax):
        raw = minmax_raw(dct, exp[last.name])
        got = minmax_wire_length(dct, out, len(out) - len(raw))
        if got is None or got[0] != len(raw):
            return None
    return out, exp
