"""s-expression form of descriptions and values (harness/odxgen/SEXP.md)"""
import struct

from . import desc as D


def hx(b: bytes) -> str:
    return bytes(b).hex() if len(b) else "-"


def shex(s: str) -> str:
    return hx(s.encode("utf-8", "surrogatepass"))


def ival(v) -> str:
    if isinstance(v, bool):
        return f"(int {int(v)})"
    if isinstance(v, int):
        return f"(int {v})"
    if isinstance(v, float):
        return "(float %016x)" % struct.unpack(">Q", struct.pack(">d", v))[0]
    if isinstance(v, (bytes, bytearray)):
        return f"(bytes {hx(v)})"
    if isinstance(v, str):
        return f"(str {shex(v)})"
    raise TypeError(type(v))


def pval(v) -> str:
    """physical value tree -> <pval>; accepts what odxtools' decode returns as well as generated values"""
    if v is None:
        return "(none)"
    if isinstance(v, dict):
        return "(dict" + "".join(f" ({k} {pval(x)})" for k, x in v.items()) + ")"
    if isinstance(v, tuple) and len(v) == 2 and isinstance(v[0], str):
        return f"(pair {v[0]} {pval(v[1])})"
    if isinstance(v, tuple) and len(v) == 2 and isinstance(v[0], int) and not isinstance(v[1], int):
        return f"(keyed {v[0]} {pval(v[1])})"       # extension: mux case selected by switch-key value
    if isinstance(v, DtcVal):
        return f"(dtc {v.code})"
    if isinstance(v, tuple) and len(v) == 2 and v[0] is None and isinstance(v[1], dict):
        return f"(nokey {pval(v[1])})"              # extension: default case of a mux selected by None
    if isinstance(v, (list, tuple)):
        return "(list" + "".join(" " + pval(x) for x in v) + ")"
    if type(v).__name__ == "DiagnosticTroubleCode":
        return f"(dtc {v.trouble_code})"
    return ival(v)


class DtcVal:
    """a DTC in a generated value tree (passed to odxtools as its integer trouble code)"""
    __slots__ = ("code",)

    def __init__(self, code):
        self.code = code

    def __eq__(self, o):
        return isinstance(o, DtcVal) and o.code == self.code

    def __hash__(self):
        return hash(("dtc", self.code))

    def __repr__(self):
        return f"DTC({self.code:#x})"


def _b(x):
    return "t" if x else "f"


def dct(d) -> str:
    enc = f" (enc {d.enc})" if d.enc is not None else ""
    hl = f" (hl {_b(D.is_hl(d))})"
    if isinstance(d, D.Std):
        m = ""
        if d.mask is not None:
            m = " (mask %0*x)" % (2 * ((max(d.bitlen, d.mask.bit_length(), 1) + 7) // 8), d.mask)
        c = f" (condensed {_b(d.condensed)})" if d.condensed is not None else ""
        return f"(std (bt {d.bt}){enc}{hl} (bitlen {d.bitlen}){m}{c})"
    if isinstance(d, D.MinMax):
        mx = f" (max {d.max})" if d.max is not None else ""
        term = {"ZERO": "zero", "HEX-FF": "hex-ff", "END-OF-PDU": "end-of-pdu"}[d.term]
        return f"(minmax (bt {d.bt}){enc}{hl} (min {d.min}){mx} (term {term}))"
    if isinstance(d, D.Leading):
        return f"(leading (bt {d.bt}){enc}{hl} (bitlen {d.bitlen}))"
    if isinstance(d, D.ParamLen):
        return f"(paramlen (bt {d.bt}){enc}{hl} (key {d.key}))"
    raise TypeError(d)


def _isint(x):
    return isinstance(x, int) or (isinstance(x, float) and x.is_integer() and abs(x) < 2**53)


def compu(c) -> str:
    if isinstance(c, D.Identical):
        return "(identical)"
    if isinstance(c, D.Linear):
        if not (_isint(c.num0) and _isint(c.num1) and _isint(c.den)):
            return "(other)"
        s = f"(linear (num {int(c.num0)} {int(c.num1)}) (den {int(c.den)})"
        for nm, lim in (("lower", c.lower), ("upper", c.upper)):
            if lim is not None:
                if not _isint(lim[0]):
                    return "(other)"
                s += f" ({nm} {int(lim[0])} {lim[1].lower()})"
        return s + ")"
    if isinstance(c, D.TextTable):
        return "(texttable" + "".join(f" (scale {ival(lo)} {ival(hi)} {shex(t)}" + (f" {ival(c.inv[t])})" if c.inv and t in c.inv else ")") for lo, hi, t in c.scales) + ")"
    return "(other)"


def dop(d) -> str:
    if isinstance(d, D.SimpleDop):
        return f"(simple (dct {dct(d.dct)}) (phys {d.phys}) (compu {compu(d.compu)}))"
    if isinstance(d, D.DtcDop):
        return (f"(dtc (dct {dct(d.dct)}) (phys {d.phys}) (compu {compu(d.compu)}) (dtcs"
                + "".join(f" ({c} {n})" for c, n in D.effective_dtcs(d)) + "))")
    if isinstance(d, D.Struct):
        bs = f" (bytesize {d.bytesize})" if d.bytesize is not None else ""
        return f"(struct{bs} (params{''.join(' ' + param(p) for p in d.params)}))"
    if isinstance(d, D.StaticField):
        return f"(static-field (count {d.count}) (itemsize {d.itemsize}) (item {dop(d.item)}))"
    if isinstance(d, D.DynLenField):
        bp = f" (countbitpos {d.countbitpos})" if d.countbitpos is not None else ""
        return (f"(dyn-length-field (offset {d.offset}) (countbytepos {d.countbytepos}){bp} (countdop {dop(d.countdop)})"
                f" (item {dop(d.item)}))")
    if isinstance(d, D.EndMarkerField):
        return f"(end-marker-field (term {ival(d.term)}) (termdop {dop(d.termdop)}) (item {dop(d.item)}))"
    if isinstance(d, D.EopField):
        mn = f" (min {d.min})" if d.min is not None else ""
        mx = f" (max {d.max})" if d.max is not None else ""
        return f"(eop-field{mn}{mx} (item {dop(d.item)}))"
    if isinstance(d, D.Mux):
        bp = f" (bitpos {d.switch_bitpos})" if d.switch_bitpos is not None else ""
        cases = "".join(f" (case (name {c.name}) (lower {ival(c.lower)}) (upper {ival(c.upper)})"
                        + (f" (struct {dop(c.struct)})" if c.struct is not None else "") + ")" for c in d.cases)
        df = ""
        if d.default is not None:
            df = f" (default (name {d.default[0]})" + (f" (struct {dop(d.default[1])})" if d.default[1] is not None else "") + ")"
        return (f"(mux (bytepos {d.bytepos}) (switch (bytepos {d.switch_bytepos}){bp} (dop {dop(d.switch_dop)})) (cases{cases}){df}"
                f" (visible {_b(d.visible)}))")
    if isinstance(d, D.EnvDataDesc):
        envs = "".join(f" (env (name {e.name}) (dtcs{''.join(' %d' % c for c in e.dtcs)}) (all {_b(e.all)}) (struct {dop(e.struct)}))"
                       for e in d.envs)
        return f"(env-data-desc (param {d.param}) (envs{envs}))"
    raise TypeError(d)


def table(t) -> str:
    rows = ""
    for r in t.rows:
        rows += (f" (row (name {r.name}) (key {ival(r.key)})" + (f" (struct {dop(r.struct)})" if r.struct is not None else "")
                 + (f" (dop {dop(r.dop)})" if r.dop is not None else "") + ")")
    return f"(table (keydop {dop(t.keydop)}) (rows{rows}))"


def param(p) -> str:
    s = f"(param (name {p.name}) (type {p.type})"
    if p.bytepos is not None:
        s += f" (bytepos {p.bytepos})"
    if p.bitpos is not None:
        s += f" (bitpos {p.bitpos})"
    t = p.type
    if t == "coded-const":
        s += f" (dct {dct(p.dct)}) (value {ival(p.value)})"
    elif t == "phys-const":
        s += f" (dop {dop(p.dop)}) (value {pval(p.value)})"
    elif t == "value":
        s += f" (dop {dop(p.dop)})" + (f" (default {pval(p.default)})" if p.default is not None else "")
    elif t == "reserved":
        s += f" (bitlen {p.bitlen})"
    elif t == "matching-request":
        s += f" (reqpos {p.reqpos}) (bytelen {p.bytelen})"
    elif t == "nrc-const":
        s += f" (dct {dct(p.dct)}) (values{''.join(' ' + ival(v) for v in p.values)})"
    elif t == "length-key":
        s += f" (dop {dop(p.dop)})"
    elif t == "table-key":
        s += f" (table {table(p.table)})" + (f" (row {p.row})" if p.row is not None else "")
    elif t == "table-struct":
        s += f" (key {p.key})"
    elif t == "system":
        s += f" (dop {dop(p.dop)}) (sysparam {p.sysparam})"
    else:
        raise ValueError(t)
    return s + ")"


def composite(c) -> str:
    bs = f" (bytesize {c.bytesize})" if c.bytesize is not None else ""
    return f"(composite (name {c.name}) (kind {c.kind}){bs} (params{''.join(' ' + param(p) for p in c.params)}))"


def modelled(c) -> bool:
    """False if the description contains a construct that is not sent to the model (compu `(other)`)"""
    return "(other)" not in composite(c)


# ---- request lines
def encode_line(c, value, trig=None, strict=True) -> str:
    t = f" (trig {hx(trig)})" if trig is not None else ""
    return f"(encode {composite(c)} {pval(value)}{t} (strict {_b(strict)}))"


def decode_line(c, pdu, strict=True) -> str:
    return f"(decode {composite(c)} {hx(pdu)} (strict {_b(strict)}))"


def staticlen_line(c) -> str:
    return f"(staticlen {composite(c)})"


def prefix_line(c, trig=None) -> str:
    t = f" (trig {hx(trig)})" if trig is not None else ""
    return f"(prefix {composite(c)}{t})"
