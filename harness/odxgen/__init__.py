"""typed generator of ODX codec descriptions, values and PDUs (DESIGN.md §4.5)"""
from . import desc, sexp, xmlgen, values, refpdu, gen  # noqa: F401
from .xmlgen import to_xml, load  # noqa: F401
from .sexp import composite as to_sexp, pval as to_pval_sexp  # noqa: F401
from .values import gen_value, complete  # noqa: F401
from .refpdu import reference_pdu  # noqa: F401
from .gen import gen_composite  # noqa: F401
