"""random and enumerative generation of well-formed codec descriptions (DESIGN.md §4.5, envelope `wf` of §6/C01).

Well-formed by construction: bit positions only on atomic standard-length objects; composites byte aligned;
END-OF-PDU-terminated objects physically last; keys and the DTC parameter of an env-data-desc precede their
users in the same composite; no two objects claim the same bit (NRC-CONST and RESERVED claim nothing);
field items consume >= 1 byte; mux/table/DTC key sets disjoint; finite trees (no cycles).
"""
from collections import Counter
from dataclasses import dataclass

from . import desc as D
from .values import BIAS_LENGTHS, Unsupported, gen_simple, int_range


@dataclass
class Profile:
    max_depth: int = 3
    tier: str = "full"            # "simple": standard-length objects in nested structures / static fields only
    max_params: int = 4
    p_explicit: float = 0.3
    p_bytesize: float = 0.3
    p_eop: float = 0.2


QUICK = Profile(3)
THOROUGH = Profile(5)
SIMPLE = Profile(3, "simple")
SIMPLE_DEEP = Profile(5, "simple")


class G:
    def __init__(self, rng, profile):
        self.rng, self.profile, self.n = rng, profile, 0
        self.modes = Counter()
        self.in_field = 0

    def name(self, prefix="p"):
        self.n += 1
        return f"{prefix}{self.n}"


# ------------------------------------------------------------------ atomic pieces
def pick_bitlen(rng, lo=1, hi=64):
    cands = [x for x in BIAS_LENGTHS if lo <= x <= hi]
    if cands and rng.random() < 0.5:
        return rng.choice(cands)
    return rng.randint(lo, hi)


def gen_std(rng, bt=None, allow_bitlen_any=True, maxbits=64, mask_ok=True):
    bt = bt or rng.choice(["A_UINT32"] * 6 + ["A_INT32"] * 4 + ["A_FLOAT32", "A_FLOAT64", "A_ASCIISTRING", "A_UTF8STRING",
                                                                  "A_UNICODE2STRING", "A_BYTEFIELD", "A_BYTEFIELD"])
    enc = rng.choice(D.LEGAL_ENCODINGS[bt])
    hl = rng.choice([None, True, False, False])
    if bt in ("A_INT32", "A_UINT32"):
        lo = 4 if enc == "BCD-P" else 8 if enc == "BCD-UP" else 1
        n = pick_bitlen(rng, lo, maxbits)
    elif bt == "A_FLOAT32":
        n = 32
    elif bt == "A_FLOAT64":
        n = 64
    elif bt == "A_UNICODE2STRING":
        n = 16 * rng.randint(1, 3)
    else:
        n = 8 * rng.randint(1, 6)
    mask = None
    if mask_ok and bt == "A_UINT32" and enc in (None, "NONE") and rng.random() < 0.08:
        mask = rng.getrandbits(n) or 1
    elif mask_ok and bt == "A_BYTEFIELD" and rng.random() < 0.05:
        mask = rng.getrandbits(n) or 1
    return D.Std(bt, n, enc, hl, mask)


def gen_linear(rng, dct):
    n = dct.bitlen if isinstance(dct, D.Std) else 16
    lo, hi = int_range(dct.bt, dct.enc if dct.enc in ("1C", "2C", "SM") else None, min(n, 62))
    num1 = rng.choice([1, 1, 2, 3, 5, 10, -1, -2, 1, 7])
    den = rng.choice([1, 1, 1, 2, 4, 10])
    num0 = rng.choice([0, 0, 1, -1, 5, -40, 100])
    lower = upper = None
    if rng.random() < 0.4 and hi - lo >= 2:
        a = rng.randint(lo, min(hi, lo + 1000))
        b = rng.randint(a, min(hi, a + 1000))
        lower = (a, rng.choice(["CLOSED", "CLOSED", "OPEN"]))
        upper = (b, rng.choice(["CLOSED", "CLOSED", "OPEN"]))
        if a + (lower[1] == "OPEN") > b - (upper[1] == "OPEN"):
            lower = upper = None
    phys = rng.choice(["A_INT32", "A_INT32", "A_FLOAT64"])
    if phys == "A_INT32" and num1 > 0 and num0 >= 0 and dct.bt == "A_UINT32" and rng.random() < 0.5:
        phys = "A_UINT32"
    return D.Linear(num0, num1, den, lower, upper), phys


def gen_texttable(rng, dct):
    """disjoint scales over the integers of the coded type (signed types: also below 0); scales that cover a range may name the
    internal value to be encoded for their text by COMPU-INVERSE-VALUE (any value of the range, 0 where the range contains it)"""
    bottom, top = int_range(dct.bt, dct.enc if dct.enc in ("1C", "2C", "SM") else None, dct.bitlen)
    scales, inv = [], {}
    lo = max(bottom, rng.choice([0, 0, 1]) if bottom == 0 else rng.choice([bottom, -5, -3, -2, -1, -1, 0, 1]))
    for i in range(rng.randint(1, 4)):
        if i:
            lo += rng.choice([0, 0, 1, 2])
        if lo > top:
            break
        hi = min(top, lo + rng.choice([0, 0, 0, 1, 3, 4]))
        t = rng.choice(["off", "on", "err", "Zustand", "x y", "ä€", "n/a"]) + str(i)
        scales.append((lo, hi, t))
        if hi > lo and rng.random() < 0.6:
            inv[t] = rng.choice(([0, 0] if lo <= 0 <= hi else []) + [lo, hi, rng.randint(lo, hi)])
        lo = hi + 1
    if len(scales) > 1 and rng.random() < 0.3:
        rng.shuffle(scales)         # declaration order of disjoint scales is immaterial
    return D.TextTable(scales, inv or None), rng.choice(["A_UNICODE2STRING", "A_UTF8STRING", "A_ASCIISTRING"])


def gen_simple_dop(g, atomic_only=False, key_for_paramlen=None):
    """a simple DOP; atomic_only: STANDARD-LENGTH types only"""
    rng = g.rng
    full = g.profile.tier == "full" and not atomic_only
    r = rng.random()
    if key_for_paramlen is not None:
        bt = rng.choice(["A_BYTEFIELD", "A_BYTEFIELD", "A_ASCIISTRING", "A_UTF8STRING", "A_UNICODE2STRING", "A_UINT32", "A_INT32"])
        dct = D.ParamLen(bt, key_for_paramlen, None, rng.choice([None, True, False]))
    elif full and r < 0.10:
        bt = rng.choice(["A_BYTEFIELD", "A_ASCIISTRING", "A_UTF8STRING", "A_UNICODE2STRING"])
        enc = rng.choice(D.LEGAL_ENCODINGS[bt]) if bt != "A_BYTEFIELD" else None
        unit = 2 if bt == "A_UNICODE2STRING" else 1
        mn = unit * rng.randint(0, 2)
        mx = rng.choice([None, mn + unit * rng.randint(0, 3)])
        dct = D.MinMax(bt, mn, mx, rng.choice(["ZERO", "HEX-FF"]), enc, rng.choice([None, True, False]))
    elif full and r < 0.18:
        bt = rng.choice(["A_BYTEFIELD", "A_ASCIISTRING", "A_UTF8STRING", "A_UNICODE2STRING"])
        dct = D.Leading(bt, rng.choice([8, 8, 16, 4, 3, 12]), None, rng.choice([None, True, False]))
    else:
        dct = gen_std(rng)
    phys, compu = dct.bt, D.Identical()
    if dct.bt in D.STRINGS and rng.random() < 0.2:
        phys = rng.choice(D.STRINGS)
    # (LINEAR is computed in binary64 by odxtools: keep |num0 + num1*x| < 2^53 so that float rounding, which is
    # outside these properties, cannot interfere)
    if isinstance(dct, D.Std) and dct.mask is None and dct.bt in ("A_INT32", "A_UINT32") and dct.enc not in ("BCD-P", "BCD-UP") \
            and dct.bitlen <= 40:
        r = rng.random()
        if r < 0.15:
            compu, phys = gen_linear(rng, dct)
        elif r < 0.25 and dct.bitlen <= 16 and (dct.bt == "A_UINT32" or dct.bitlen >= 2):
            compu, phys = gen_texttable(rng, dct)
    return D.SimpleDop(dct, phys, compu)


def gen_bitpos(rng, dop_or_dct):
    dct = dop_or_dct.dct if isinstance(dop_or_dct, D.SimpleDop) else dop_or_dct
    if not isinstance(dct, D.Std):
        return None
    if dct.bt in D.NUMERIC[:2]:
        return rng.choice([None, None, 0, 1, 2, 3, 4, 5, 6, 7])
    if rng.random() < 0.15:
        return rng.randint(1, 7)
    return None


def uint_dop(rng, n=None, hl=None, bitlen_choices=(8, 8, 8, 16, 4, 7)):
    return D.SimpleDop(D.Std("A_UINT32", n or rng.choice(bitlen_choices), None, hl if hl is not None else rng.choice([None, False])), "A_UINT32")


# ------------------------------------------------------------------ extents
def param_extent(p):
    """static byte extent of a parameter from its own position (None = depends on the value)"""
    bp = p.bitpos or 0
    t = p.type
    if t in ("coded-const", "nrc-const"):
        return (bp + p.dct.bitlen + 7) // 8 if isinstance(p.dct, D.Std) else None
    if t == "reserved":
        return (bp + p.bitlen + 7) // 8
    if t == "matching-request":
        return p.bytelen
    if t == "table-key":
        return 0 if p.row is not None else dop_extent(p.table.keydop, bp)   # a static TABLE-ROW-REF key is not on the wire
    if t == "table-struct":
        return None
    return dop_extent(p.dop, bp)


def dop_extent(d, bp=0):
    if isinstance(d, (D.SimpleDop, D.DtcDop)):
        return (bp + d.dct.bitlen + 7) // 8 if isinstance(d.dct, D.Std) else None
    if isinstance(d, D.Struct):
        if d.bytesize is not None:
            return d.bytesize
        return params_extent(d.params)
    if isinstance(d, D.StaticField):
        return d.count * d.itemsize
    return None


def natural_layout(params):
    """[(position, extent|None)] relative to the composite origin; stops being known after a dynamic object"""
    out, cur = [], 0
    for p in params:
        pos = p.bytepos if p.bytepos is not None else cur
        if pos is None:
            out.append((None, param_extent(p)))
            continue
        e = param_extent(p)
        out.append((pos, e))
        cur = pos + e if e is not None else None
    return out


def params_extent(params):
    lay = natural_layout(params)
    ends = []
    for pos, e in lay:
        if pos is None or e is None:
            return None
        ends.append(pos + e)
    return max(ends or [0])


# ------------------------------------------------------------------ units (1-2 parameters each)
def unit_value_simple(g, depth, last, eop_ok):
    rng = g.rng
    dop = gen_simple_dop(g)
    p = D.value(g.name(), dop, bitpos=gen_bitpos(rng, dop))
    if rng.random() < 0.25 and not (isinstance(dop.dct, D.Leading) and dop.dct.bt == "A_BYTEFIELD"):
        try:
            p.default = gen_simple(rng, dop)[0]
            if isinstance(p.default, str) and (p.default != p.default.strip() or p.default == ""):
                p.default = None
        except Unsupported:
            p.default = None
    return [p]


def unit_coded_const(g, depth, last, eop_ok):
    rng = g.rng
    dct = gen_std(rng, mask_ok=False)
    dop = D.SimpleDop(dct, dct.bt)
    v = gen_simple(rng, dop)[1]
    if isinstance(v, str) and (v != v.strip() or v == ""):
        v = "c" * len(v.encode("utf-16-le" if dct.bt == "A_UNICODE2STRING" else "utf-8"))
        v = v[:dct.bitlen // (16 if dct.bt == "A_UNICODE2STRING" else 8)]
    if isinstance(v, float) and v != v:
        v = 1.0
    return [D.coded_const(g.name(), dct, v, bitpos=gen_bitpos(rng, dct))]


def unit_phys_const(g, depth, last, eop_ok):
    rng = g.rng
    for _ in range(5):
        dop = gen_simple_dop(g, atomic_only=True)
        try:
            v = gen_simple(rng, dop)[0]
        except Unsupported:
            continue
        if isinstance(v, str) and (v != v.strip() or v == ""):
            continue
        return [D.phys_const(g.name(), dop, v, bitpos=gen_bitpos(rng, dop))]
    return unit_coded_const(g, depth, last, eop_ok)


def unit_reserved(g, depth, last, eop_ok):
    rng = g.rng
    return [D.reserved(g.name(), pick_bitlen(rng, 1, 32), bitpos=rng.choice([None, None, 0, 3, 7]))]


def unit_system(g, depth, last, eop_ok):
    """SYSTEM parameter; for the predefined SYSPARAMs the DOP is able to hold the value odxtools supplies implicitly"""
    rng = g.rng
    # (round 9) user-defined SYSPARAMs include names that equal a predefined one up to case only: SYSPARAM values are case-sensitive, so
    # `Year` is a user-defined system parameter -- required, no implicit value -- at every site that distinguishes the two kinds
    sp = rng.choice(["TIMESTAMP", "SECOND", "MINUTE", "HOUR", "DAY", "MONTH", "YEAR", "CENTURY", "TESTERID", "MYSYSPARAM", "MYSYSPARAM",
                     rng.choice(["Year", "year", "TesterId", "timestamp", "Day", "CENTURY_"])])
    hl = rng.choice([None, True, False])
    if sp in ("TIMESTAMP", "TESTERID"):
        dct = D.Std("A_BYTEFIELD", 64, None, hl)
    elif sp not in ("SECOND", "MINUTE", "HOUR", "DAY", "MONTH", "YEAR", "CENTURY"):
        dct = gen_std(rng, rng.choice(["A_UINT32", "A_BYTEFIELD"]), mask_ok=False)
    else:
        dct = D.Std("A_UINT32", rng.choice([16, 16, 12, 32, 13, 24]) if sp == "YEAR" else rng.choice([8, 8, 16, 7, 9, 32]), None, hl)
    return [D.system(g.name(), D.SimpleDop(dct, dct.bt), sp, bitpos=gen_bitpos(rng, dct) if dct.bt == "A_UINT32" else None)]


def gen_struct(g, depth, eop_ok, static=False, min_bytes=0, first=None, no_keys=False):
    """a structure DOP; static: all content of static size; min_bytes: every instance consumes at least that"""
    rng = g.rng
    for _ in range(30):
        params = gen_params(g, depth, "structure", eop_ok, static=static, first=first, no_keys=no_keys or g.in_field > 0)
        ext = params_extent(params)
        if static and ext is None:
            continue
        if min_bytes and not _min_bytes_ok(params, min_bytes):
            continue
        bs = None
        if ext is not None and rng.random() < g.profile.p_bytesize:
            bs = ext + rng.choice([0, 0, 1, 2, 5])
            if bs == 0:
                bs = None
        return D.Struct(params, bs)
    return D.Struct([D.value(g.name(), D.u8())])


def _min_bytes_ok(params, k):
    """the first parameter is a byte-consuming static object (so that every item consumes >= k bytes)"""
    e = param_extent(params[0])
    return e is not None and e >= k


def unit_struct(g, depth, last, eop_ok):
    return [D.value(g.name(), gen_struct(g, depth + 1, eop_ok and last))]


def dyn_max_bytes(dct):
    """largest number of bytes an object of a LEADING-LENGTH / MIN-MAX type occupies for the values `values.gen_internal`
    generates (None: not bounded / not such a type)"""
    if isinstance(dct, D.Leading):
        return (dct.bitlen + 7) // 8 + min((1 << dct.bitlen) - 1, 6)
    if isinstance(dct, D.MinMax) and dct.term != "END-OF-PDU":
        return (dct.max if dct.max is not None else dct.min + 6) + (2 if dct.bt == "A_UNICODE2STRING" else 1)
    return None


def struct_max_extent(st):
    """upper bound of the bytes an instance of the structure occupies for generated values: sequential static parameters plus
    LEADING-LENGTH / MIN-MAX objects (None = no bound known)"""
    if st.bytesize is not None:
        return st.bytesize
    e = params_extent(st.params)
    if e is not None:
        return e
    if any(p.bytepos is not None for p in st.params):
        return None
    tot = 0
    for p in st.params:
        e = param_extent(p)
        if e is None and isinstance(p.dop, D.SimpleDop):
            e = dyn_max_bytes(p.dop.dct)
        if e is None:
            return None
        tot += e
    return tot


def unit_static_field(g, depth, last, eop_ok):
    """STATIC-FIELD; 30 % (full tier): the item structure has an input-dependent size (a LEADING-LENGTH or terminated
    MIN-MAX object among static parameters), ITEM-BYTE-SIZE reserves room for the largest generated value"""
    rng = g.rng
    g.in_field += 1
    item = gen_struct(g, depth + 1, False, static=True, min_bytes=1)
    if g.profile.tier == "full" and item.bytesize is None and all(p.bytepos is None for p in item.params) and rng.random() < 0.3:
        if rng.random() < 0.5:
            bt = rng.choice(["A_BYTEFIELD", "A_BYTEFIELD", "A_ASCIISTRING", "A_UTF8STRING", "A_UNICODE2STRING"])
            dct = D.Leading(bt, rng.choice([8, 8, 16, 4, 3, 12]), None, rng.choice([None, True, False]))
        else:
            bt = rng.choice(["A_BYTEFIELD", "A_ASCIISTRING", "A_UTF8STRING", "A_UNICODE2STRING"])
            unit = 2 if bt == "A_UNICODE2STRING" else 1
            mn = unit * rng.randint(0, 2)
            dct = D.MinMax(bt, mn, rng.choice([None, mn + unit * rng.randint(0, 3)]), rng.choice(["ZERO", "HEX-FF"]),
                           rng.choice(D.LEGAL_ENCODINGS[bt]) if bt != "A_BYTEFIELD" else None, rng.choice([None, True, False]))
        item.params.insert(rng.choice([1, len(item.params), len(item.params)]), D.value(g.name(), D.SimpleDop(dct, bt)))
    g.in_field -= 1
    ext = struct_max_extent(item)
    return [D.value(g.name(), D.StaticField(rng.randint(1, 3), ext + rng.choice([0, 0, 1, 3]), item))]


def unit_dyn_len_field(g, depth, last, eop_ok):
    rng = g.rng
    g.in_field += 1
    item = gen_struct(g, depth + 1, False, min_bytes=1)
    g.in_field -= 1
    cd = uint_dop(rng)
    bp = rng.choice([None, None, 0, 2]) if cd.dct.bitlen <= 6 else None
    size = ((bp or 0) + cd.dct.bitlen + 7) // 8
    cpos = rng.choice([0, 0, 0, 1])
    return [D.value(g.name(), D.DynLenField(cpos + size + rng.choice([0, 0, 0, 1, 2]), cpos, bp, cd, item))]


def unit_eop_field(g, depth, last, eop_ok):
    rng = g.rng
    g.in_field += 1
    item = gen_struct(g, depth + 1, False, min_bytes=1)
    g.in_field -= 1
    mn = rng.choice([None, None, 0, 1, 2])
    mx = rng.choice([None, None, (mn or 0) + rng.randint(0, 3)])
    return [D.value(g.name(), D.EopField(item, mn, mx))]


def unit_end_marker_field(g, depth, last, eop_ok):
    rng = g.rng
    td = uint_dop(rng, rng.choice([8, 8, 16, 24]), hl=rng.choice([True, False]))
    term = rng.choice([0, (1 << td.dct.bitlen) - 1, 0xFF, rng.getrandbits(td.dct.bitlen)]) & ((1 << td.dct.bitlen) - 1)
    first = D.value(g.name(), td)
    first.meta["first_of_end_marker_item"] = True
    g.in_field += 1
    item = gen_struct(g, depth + 1, False, first=first)
    g.in_field -= 1
    out = [D.value(g.name(), D.EndMarkerField(term, td, item))]
    if not (last and eop_ok):
        # not at the end of the PDU: the terminator is written by the field but left unconsumed; the
        # description has to describe it by an explicit constant (as the odxtools test-suite does)
        out.append(D.coded_const(g.name(), D.Std("A_UINT32", td.dct.bitlen, None, td.dct.hl), term))
    return out


def unit_minmax_eop(g, depth, last, eop_ok):
    rng = g.rng
    bt = rng.choice(["A_BYTEFIELD", "A_ASCIISTRING", "A_UTF8STRING", "A_UNICODE2STRING"])
    unit = 2 if bt == "A_UNICODE2STRING" else 1
    mn = unit * rng.randint(0, 2)
    dct = D.MinMax(bt, mn, rng.choice([None, mn + unit * rng.randint(0, 4)]), "END-OF-PDU",
                   rng.choice(D.LEGAL_ENCODINGS[bt]) if bt != "A_BYTEFIELD" else None, rng.choice([None, True, False]))
    return [D.value(g.name(), D.SimpleDop(dct, bt))]


def unit_mux(g, depth, last, eop_ok):
    rng = g.rng
    kd = uint_dop(rng, bitlen_choices=(8, 8, 4, 3, 16))
    kbp = rng.choice([None, None, 0, 1, 4]) if kd.dct.bitlen <= 4 else None
    ksize = ((kbp or 0) + kd.dct.bitlen + 7) // 8
    top = (1 << kd.dct.bitlen) - 1
    cases, lo = [], rng.choice([0, 0, 1, 2])
    for i in range(rng.randint(1, 3)):
        if lo > top:
            break
        hi = min(top, lo + rng.choice([0, 0, 1, 4]))
        st = gen_struct(g, depth + 1, eop_ok and last) if rng.random() < 0.85 else None
        cases.append(D.MuxCase(g.name("c"), lo, hi, st))
        lo = hi + 1 + rng.choice([0, 0, 1, 3])
    # CASEs need not be declared in ascending order of their limits (whatever the code sorts or walks in
    # declaration order must not depend on it)
    if len(cases) > 1 and rng.random() < 0.5:
        rng.shuffle(cases)
    default = None
    if rng.random() < 0.5:
        default = (g.name("dflt"), gen_struct(g, depth + 1, eop_ok and last) if rng.random() < 0.8 else None)
    # (no hole in front of content that may encode to nothing at the very end of the PDU)
    gap = rng.choice([0, 0, 0, 0, 1]) if not (eop_ok and last) else 0
    if gap and any(c.struct is None for c in cases) or (default and default[1] is None):
        g.modes["mux-gap-structless"] += 1
    return [D.value(g.name(), D.Mux(ksize + gap, 0, kbp, kd, cases, default))]


#: LINEAR compu methods of length keys: bit length = num0 + num1 * x (x = the integer on the wire): the key counts bytes, counts
#: bytes including itself, counts bits with an offset, ...; every multiple of 8 up to 64 has an inverse image >= 0
KEY_LINEAR = [(0, 8), (-8, 8), (-16, 8), (8, 8), (-8, 1), (0, 4), (-32, 2), (0, 1)]


def gen_length_key_dop(rng):
    """DOP of a LENGTH-KEY: unsigned identical (60 %), signed identical, or LINEAR (physical value can be negative or, with an
    unsigned physical type, invalid for small keys)"""
    r = rng.random()
    if r < 0.6:
        return uint_dop(rng, bitlen_choices=(8, 8, 16, 7, 12))
    if r < 0.7:
        return D.SimpleDop(D.Std("A_INT32", rng.choice([8, 16, 12]), rng.choice([None, "2C", "SM", "1C"]), rng.choice([None, False])), "A_INT32")
    kd = uint_dop(rng, bitlen_choices=(8, 8, 16, 7, 12))
    num0, num1 = rng.choice(KEY_LINEAR)
    return D.SimpleDop(kd.dct, rng.choice(["A_INT32", "A_INT32", "A_UINT32"]) if num0 < 0 else rng.choice(["A_INT32", "A_UINT32"]), D.Linear(num0, num1, 1))


def unit_length_key(g, depth, last, eop_ok):
    rng = g.rng
    kname = g.name("k")
    kd = gen_length_key_dop(rng)
    # (bit positions that make the key cross a byte boundary included: the placeholder must reserve those bytes too)
    key = D.length_key(kname, kd, bitpos=rng.choice([None, None, 0, 1, 3, 4, 7]))
    user = D.value(g.name(), gen_simple_dop(g, key_for_paramlen=kname))
    mid = []
    if rng.random() < 0.3:
        mid = [D.value(g.name(), D.u8())]
    return [key] + mid + [user]


def gen_table(g, depth, eop_ok):
    rng = g.rng
    kd = uint_dop(rng, bitlen_choices=(8, 8, 16, 4))
    keys = rng.sample(range(0, min(1 << kd.dct.bitlen, 256)), rng.randint(1, 3))
    rows = []
    for k in keys:
        if rng.random() < 0.6:
            rows.append(D.TableRow(g.name("r"), k, struct=gen_struct(g, depth + 1, eop_ok)))
        else:
            rows.append(D.TableRow(g.name("r"), k, dop=gen_simple_dop(g, atomic_only=rng.random() < 0.7)))
    return D.Table(kd, rows)


def unit_table(g, depth, last, eop_ok):
    rng = g.rng
    t = gen_table(g, depth, eop_ok and last)
    kname = g.name("tk")
    row = rng.choice(t.rows).name if rng.random() < 0.15 else None
    key = D.table_key(kname, t, row)
    mid = [D.value(g.name(), D.u8())] if rng.random() < 0.25 else []
    return [key] + mid + [D.table_struct(g.name(), kname)]


def gen_dtc_dop(g, n, hl):
    """a DTC-DOP; 40 %: some of its DTCs are not its own children but DTC-REFs to DTCs of another DTC-DOP of the layer or inherited
    through LINKED-DTC-DOPS (one level or a chain of two; some NOT-INHERITED; sometimes a library DTC whose short name the
    inheriting DOP defines itself and therefore is not inherited); the DTC-DOPs referred to are declared before or behind it"""
    rng = g.rng
    codes = rng.sample(range(1, 1 << min(n, 16)), 7)
    # 25 %: LINEAR compu method, coded value x -> trouble code a * x + b (every DTC-DOP of the document: the DTCs carry the physical
    # trouble code and are shared through DTC-REF / LINKED-DTC-DOPS); `codes` are the coded values, the DTCs get their images
    a, b = (rng.choice([2, 3, 5, 16]), rng.choice([0, 0, 1, 7])) if rng.random() < 0.25 else (1, 0)

    def mk(cs):
        return [(a * c + b, g.name("DTC")) for c in cs]

    def dd(dtcs, **kw):
        return D.DtcDop(D.Std("A_UINT32", n, None, hl), "A_UINT32", D.Identical() if (a, b) == (1, 0) else D.Linear(b, a, 1), dtcs, **kw)

    if rng.random() >= 0.4:
        return dd(mk(codes[:3]))
    mode = rng.choice(["linked", "linked", "ref", "chain", "linked+ref"])
    own = mk(codes[:rng.choice([0, 1, 1, 2])])
    lib = dd(mk(codes[2:5]), lib_first=rng.choice([None, True]))
    first = rng.choice([None, True, False])
    if mode == "ref":
        picks = rng.sample(lib.dtcs, rng.randint(1, 2))
        return dd(own or mk(codes[:1]), dtc_refs=[(lib, n_) for _, n_ in picks], lib_first=first)
    if mode == "chain":
        lib = dd(mk(codes[5:6]), linked=[D.LinkedDtcDop(lib, [lib.dtcs[0][1]] if rng.random() < 0.4 else [])], lib_first=rng.choice([None, True]))
    ni = [rng.choice(D.effective_dtcs(lib))[1]] if rng.random() < 0.4 else []
    if own and rng.random() < 0.25:
        # a local DTC with the short name of a library DTC: the local one wins, the library one is not inherited
        shadowed = next(((c, n_) for c, n_ in lib.dtcs if n_ not in ni), None)
        if shadowed is not None:
            own[0] = (own[0][0], shadowed[1])
    refs = None
    if mode == "linked+ref":
        other = dd(mk(codes[6:7]))
        refs = [(other, other.dtcs[0][1])]
    out = dd(own, dtc_refs=refs, linked=[D.LinkedDtcDop(lib, ni)], lib_first=first)
    if not D.effective_dtcs(out):
        out.dtcs = mk(codes[:1])
    return out


def unit_dtc(g, depth, last, eop_ok):
    rng = g.rng
    n = rng.choice([8, 16, 24, 24])
    dd = gen_dtc_dop(g, n, rng.choice([None, False]))
    codes = [c for c, _ in D.effective_dtcs(dd)]
    dname = g.name("d")
    out = [D.value(dname, dd)]
    if rng.random() < 0.6 and depth < g.profile.max_depth:
        envs = []
        if rng.random() < 0.5:
            envs.append(D.Env(g.name("envall"), [], True, gen_struct(g, depth + 1, False)))
        pool = list(codes)
        rng.shuffle(pool)
        while pool and rng.random() < 0.7:
            k = rng.randint(1, len(pool))
            envs.append(D.Env(g.name("env"), pool[:k], False, gen_struct(g, depth + 1, False)))
            pool = pool[k:]
        if envs:
            for e in envs:
                e.struct.bytesize = None if e.struct.bytesize is None else e.struct.bytesize
            out.append(D.value(g.name(), D.EnvDataDesc(dname, envs)))
    return out


def unit_matching_request(g, depth, last, eop_ok):
    rng = g.rng
    return [D.matching_request(g.name(), rng.randint(0, 2), rng.randint(1, 3))]


def unit_bitfield_group(g, depth, last, eop_ok):
    """2-4 integer objects packed bit-exactly into one word; positions are fixed up by `fix_groups`"""
    rng = g.rng
    W = rng.choice([1, 1, 2, 2, 4])
    hl = rng.choice([True, False])
    cuts = sorted(rng.sample(range(1, 8 * W), min(rng.randint(1, 3), 8 * W - 1)))
    bounds = [0] + cuts + [8 * W]
    gid = g.name("grp")
    out = []
    for o, e in zip(bounds, bounds[1:]):
        n = e - o
        if rng.random() < 0.15 and len(bounds) > 2:
            continue            # leave a hole of unclaimed bits
        rel = (W - 1 - (o + n - 1) // 8) if hl else o // 8
        bt = rng.choice(["A_UINT32", "A_UINT32", "A_INT32"])
        enc = rng.choice([None, "2C", "1C", "SM"]) if bt == "A_INT32" else None
        dop = D.SimpleDop(D.Std(bt, n, enc, hl), bt)
        if rng.random() < 0.15:
            p = D.coded_const(g.name(), dop.dct, gen_simple(rng, dop)[1], bitpos=o % 8)
        else:
            p = D.value(g.name(), dop, bitpos=o % 8)
        p.meta.update(group=gid, rel=rel, width=W)
        out.append(p)
    rng.shuffle(out)
    # the member which ends the word stays last in list order: what follows (and the padding of an enclosing
    # BYTE-SIZE structure / static field item) is placed relative to the cursor, i.e. behind the last parameter
    ends = [p for p in out if p.meta["rel"] + (p.bitpos + (p.dct or p.dop.dct).bitlen + 7) // 8 == W]
    if not ends:
        return unit_value_simple(g, depth, last, eop_ok)
    out.remove(ends[0])
    out.append(ends[0])
    return out


UNITS_SIMPLE = [(unit_value_simple, 50), (unit_coded_const, 12), (unit_phys_const, 5), (unit_reserved, 5), (unit_struct, 14),
                (unit_static_field, 5), (unit_bitfield_group, 9)]
UNITS_FULL = [(unit_value_simple, 40), (unit_coded_const, 10), (unit_phys_const, 5), (unit_reserved, 4), (unit_struct, 10),
              (unit_static_field, 4), (unit_dyn_len_field, 4), (unit_mux, 5), (unit_length_key, 5), (unit_table, 4),
              (unit_dtc, 3), (unit_system, 2), (unit_bitfield_group, 4)]
UNITS_EOP = [(unit_eop_field, 4), (unit_minmax_eop, 3), (unit_end_marker_field, 2), (unit_struct, 2), (unit_mux, 1), (unit_table, 1)]
NESTING = {unit_struct, unit_static_field, unit_dyn_len_field, unit_mux, unit_table, unit_dtc, unit_eop_field, unit_end_marker_field}
DYNAMIC = {unit_dyn_len_field, unit_mux, unit_length_key, unit_table, unit_dtc, unit_eop_field, unit_end_marker_field, unit_minmax_eop}


def choose(rng, table):
    tot = sum(w for _, w in table)
    r = rng.uniform(0, tot)
    for f, w in table:
        r -= w
        if r <= 0:
            return f
    return table[-1][0]


def fix_groups(params):
    """give the members of bit-field groups their explicit byte positions (relative to the natural cursor)"""
    cur = 0
    seen = {}
    for p in params:
        gid = p.meta.get("group")
        if gid is not None:
            if gid not in seen:
                if cur is None:
                    return False
                seen[gid] = cur
            p.bytepos = seen[gid] + p.meta["rel"]
            cur = seen[gid] + p.meta["width"]
            # keep the cursor after the whole word for whatever follows: the last member of the group in
            # list order may end earlier, so the follower gets an explicit position as well (see below)
            continue
        if seen and p.bytepos is None and cur is not None:
            # first parameter after a group: pin it
            p.bytepos = cur
        if cur is not None:
            pos = p.bytepos if p.bytepos is not None else cur
            e = param_extent(p)
            cur = pos + e if e is not None else None
    return True


def transform_layout(g, params, top):
    """explicit BYTE-POSITIONs on the static prefix: redundant, permuted (out of order) or with gaps"""
    rng = g.rng
    if any(p.bytepos is not None for p in params):
        g.modes["layout:group"] += 1
        return params
    if rng.random() >= g.profile.p_explicit:
        g.modes["layout:sequential"] += 1
        return params
    lay = natural_layout(params)
    k = 0
    while k < len(params) and lay[k][0] is not None:
        k += 1
    # params[:k] have known positions; params[k-1] may be dynamic in size
    if k == 0:
        return params
    mode = rng.choice(["redundant", "permute", "gap"])
    if mode == "redundant":
        for i in range(k):
            if rng.random() < 0.6:
                params[i].bytepos = lay[i][0]
    elif mode == "gap":
        # a hole of 1-3 unclaimed bytes; only in front of an object of static size (a hole directly in front of a
        # trailing object that may be empty would not be part of the PDU at all)
        ks = k if lay[k - 1][1] is not None else k - 1
        if ks >= 1:
            i0 = rng.randrange(ks)
            gap = rng.randint(1, 3)
            for i in range(i0, ks):
                params[i].bytepos = lay[i][0] + gap
        else:
            mode = "sequential"
    else:
        m = k if (k < len(params) or lay[k - 1][1] is None) else k
        # keep the physically last parameter last (nested structures without BYTE-SIZE continue at the cursor)
        m = min(m, len(params)) - 1
        if m >= 2:
            for i in range(k):
                params[i].bytepos = lay[i][0]
            head = params[:m]
            for _ in range(10):
                rng.shuffle(head)
                if _order_ok(head + params[m:]):
                    params[:m] = head
                    break
            else:
                params[:m] = sorted(head, key=lambda p: p.bytepos)
        else:
            mode = "redundant"
            for i in range(k):
                params[i].bytepos = lay[i][0]
    g.modes["layout:" + mode] += 1
    return params


def _order_ok(params):
    idx = {p.name: i for i, p in enumerate(params)}
    for i, p in enumerate(params):
        if p.type == "table-struct" and idx[p.key] > i:
            return False
        if p.dop is not None and isinstance(p.dop, D.SimpleDop) and isinstance(p.dop.dct, D.ParamLen) and idx[p.dop.dct.key] > i:
            return False
        if p.dop is not None and isinstance(p.dop, D.EnvDataDesc) and idx[p.dop.param] > i:
            return False
        if p.meta.get("overlay_of") and idx[p.meta["overlay_of"]] > i:
            return False
    return True


def claims_ok(params, strict=False):
    """no two objects of the list claim the same bit (as far as positions are static); RESERVED / NRC-CONST claim nothing"""
    used = {}
    open_from = None
    for p, (pos, e) in zip(params, natural_layout(params)):
        if pos is None:
            break
        if open_from is not None and pos >= open_from:
            pass
        if p.type == "nrc-const" or (p.type == "reserved" and not strict):
            continue
        if e is None:
            if any(b >= pos for b in used):
                return False
            open_from = pos if open_from is None else min(open_from, pos)
            continue
        if open_from is not None and pos + e > open_from:
            return False
        dct = p.dct if p.dct is not None else (p.dop.dct if isinstance(p.dop, (D.SimpleDop, D.DtcDop)) else None)
        if e == 0:
            continue
        if p.type in ("table-key",):
            dct = p.table.keydop.dct
        bits = {}
        if dct is not None and isinstance(dct, D.Std):
            bp, n = p.bitpos or 0, dct.bitlen
            hl = D.is_hl(dct) or dct.bt not in D.NUMERIC
            k = (n + bp + 7) // 8
            for j in range(n):
                byte = pos + (k - 1 - (j + bp) // 8 if hl else (j + bp) // 8)
                bits[byte] = bits.get(byte, 0) | (1 << ((j + bp) % 8))
        else:
            for b in range(pos, pos + e):
                bits[b] = 0xFF
        for b, m in bits.items():
            if used.get(b, 0) & m:
                return False
            used[b] = used.get(b, 0) | m
    return True


def wf_static(comp):
    """static part of the envelope (used to keep shrunk descriptions well-formed): no overlap in any parameter list
    (RESERVED counted as claiming), BYTE-SIZE / ITEM-BYTE-SIZE not smaller than static content"""
    lists = [comp.params]
    if comp.kind == "structure" and comp.bytesize is not None:
        e = params_extent(comp.params)
        if e is not None and e > comp.bytesize:
            return False
    i = 0
    while i < len(lists):
        if not claims_ok(lists[i], strict=True):
            return False
        for p in lists[i]:
            dops = [p.dop] if p.dop is not None else []
            if p.table is not None:
                dops += [r.struct for r in p.table.rows if r.struct is not None]
            for d in dops:
                subs = [d] if isinstance(d, D.Struct) else [s_ for _, s_ in D.sub_structs(d)]
                for st in subs:
                    lists.append(st.params)
                    e = params_extent(st.params)
                    if st.bytesize is not None and e is not None and e > st.bytesize:
                        return False
                    if isinstance(d, D.StaticField) and (struct_max_extent(st) is None or struct_max_extent(st) > d.itemsize):
                        return False
        i += 1
    return True


def gen_params(g, depth, kind, eop_ok, static=False, first=None, no_keys=False):
    rng, prof = g.rng, g.profile
    table = UNITS_SIMPLE if prof.tier == "simple" else UNITS_FULL
    if depth >= prof.max_depth:
        table = [(f, w) for f, w in table if f not in NESTING]
    if static:
        table = [(f, w) for f, w in table if f not in DYNAMIC]
    if no_keys:
        # EncodeState.length_keys/table_keys are global per PDU: a key inside a repeated item would have to
        # take the same value in every item (odxtools rejects anything else), so field items carry no keys
        table = [(f, w) for f, w in table if f not in (unit_length_key, unit_table)]
    n = rng.randint(1, prof.max_params)
    params = [first] if first is not None else []
    want_eop = eop_ok and not static and prof.tier == "full" and rng.random() < prof.p_eop
    if kind in ("pos-response", "neg-response", "global-neg-response") and depth == 0:
        table = table + [(unit_matching_request, 10)]
    for i in range(n):
        last = i == n - 1
        if last and want_eop:
            eop_table = UNITS_EOP if depth < prof.max_depth else [(unit_minmax_eop, 1)]
            unit = choose(rng, eop_table)
        else:
            unit = choose(rng, table)
        for _ in range(6):
            try:
                ps = unit(g, depth, last, eop_ok)
                break
            except Unsupported:
                unit = unit_value_simple
        else:
            ps = [D.value(g.name(), D.u8())]
        if static and any(param_extent(p) is None for p in ps):
            ps = [D.value(g.name(), D.u8(rng.choice([8, 16, 3])))]
        params += ps
        if len(params) >= prof.max_params + 2:
            break
    ok = fix_groups(params)
    if ok and first is None:
        params = transform_layout(g, params, depth == 0)
    elif ok:
        g.modes["layout:sequential"] += 1      # items of end-marker fields keep their first parameter first
    if not ok or not claims_ok(params):
        g.modes["layout:reset"] += 1
        for p in params:
            p.bytepos = None
            if "group" in p.meta:
                p.meta.pop("group")
                p.bitpos = None
    return params


def gen_composite(rng, depth=None, profile=QUICK, kind=None, name="C"):
    """a random well-formed composite; `depth` overrides profile.max_depth"""
    if depth is not None and depth != profile.max_depth:
        profile = Profile(depth, profile.tier, profile.max_params, profile.p_explicit, profile.p_bytesize, profile.p_eop)
    g = G(rng, profile)
    kind = kind or rng.choice(["request", "request", "pos-response", "pos-response", "neg-response", "global-neg-response", "structure"])
    params = []
    if kind == "neg-response" and profile.tier == "full" and rng.random() < 0.6:
        params = gen_nrc_prefix(g)
        params += gen_params(g, 1, "structure", True) if rng.random() < 0.3 else []
        # the follow-up parameters were laid out relative to 0: shift them behind the prefix
        ext = params_extent(params[:4])
        return D.Composite(name, kind, _shift_tail(params, 4, ext))
    if kind != "structure" and rng.random() < 0.6:
        params.append(D.sid(rng.choice([0x22, 0x2E, 0x31, 0x62, 0x7F, 0x10]), g.name("sid")))
        rest = gen_params(g, 0, kind, True)
        params += _shift_tail(rest, 0, 1)
    else:
        params = gen_params(g, 0, kind, True)
    c = D.Composite(name, kind, params)
    if kind == "structure":
        ext = params_extent(params)
        if ext and rng.random() < profile.p_bytesize:
            c.bytesize = ext + rng.choice([0, 1, 3])
    c.meta = dict(g.modes)
    return c


def _shift_tail(params, start, by):
    for p in params[start:]:
        if p.bytepos is not None:
            p.bytepos += by
    return params


def gen_nrc_prefix(g):
    """7F <echo of the request SID> <NRC-CONST overlaid by a VALUE parameter at the same position>"""
    rng = g.rng
    codes = rng.sample(range(0x10, 0x80), rng.randint(1, 4))
    if rng.random() < 0.7:
        codes.sort()
    nrc = D.nrc_const(g.name("nrc"), D.Std("A_UINT32", 8), codes, bytepos=2)
    ov = D.value(g.name("code"), D.u8(), bytepos=2)
    ov.meta.update(values=codes, overlay_of=nrc.name)
    nrc.meta["overlay"] = ov.name
    return [D.sid(0x7F, g.name("sid")), D.matching_request(g.name("rq"), 0, 1), nrc, ov]


# ------------------------------------------------------------------ diagnostic layers (services sharing responses)
def gen_layer(rng, profile=QUICK, n_services=None):
    """a layer with 2-4 services.  Requests start with a SID constant (some services share the SID and differ in a
    sub-function / identifier constant behind it); positive responses start with SID + 0x40 and may echo request
    bytes (MATCHING-REQUEST-PARAM); services of one SID group share one positive response; most services reference
    one common negative response `7F <request SID echo> <code>` (NEG-RESPONSE-REF); some layers have a global
    negative response.  Coding objects of one service are told apart by their first byte, so every own encoding has
    exactly one interpretation by its service."""
    g = G(rng, profile)
    n = n_services or rng.randint(2, 4)
    sids = rng.sample(range(0x10, 0x3F), n)
    comps, services = [], []
    common_nr = None
    if rng.random() < 0.85:
        if rng.random() < 0.5:
            ps = gen_nrc_prefix(g)
        else:
            ps = [D.sid(0x7F, g.name("sid")), D.matching_request(g.name("rq"), 0, 1), D.value(g.name("code"), D.u8())]
        common_nr = D.Composite("NR_common", "neg-response", ps)
        comps.append(common_nr)
    gnr = None
    if rng.random() < 0.5:
        gnr = D.Composite("GNR", "global-neg-response", [D.sid(0x7F, g.name("sid")), D.matching_request(g.name("rq"), 0, 1),
                                                          D.value(g.name("gcode"), D.u8(rng.choice([8, 16])))])
        comps.append(gnr)

    def body(kind):
        try:
            return gen_params(g, 0, kind, True)
        except Unsupported:
            return [D.value(g.name(), D.u8())]

    prev = None        # (sid, width of the sub-function constant, used sub values, shared positive response | None)
    for i in range(n):
        if prev is not None and prev[1] and rng.random() < 0.5:
            sid_v, w, used, shared_pr = prev
        else:
            sid_v, w, used, shared_pr = sids[i], rng.choice([0, 0, 1, 2]), set(), None
        head = [D.sid(sid_v, g.name("sid"))]
        if w:
            sub = rng.choice([x for x in (rng.getrandbits(8 * w), 1, 0xF190 & ((1 << 8 * w) - 1), 0) if x not in used] or [len(used) + 2])
            used.add(sub)
            head.append(D.coded_const(g.name("sub"), D.Std("A_UINT32", 8 * w, None, rng.choice([None, True])), sub))
        rq = D.Composite(f"RQ{i}", "request", head + _shift_tail(body("request"), 0, 1 + w))
        comps.append(rq)
        svc = D.Service(f"svc{i}", rq.name)
        if shared_pr is not None:
            svc.pos = [shared_pr.name]
        elif rng.random() < 0.9:
            ph = [D.sid(sid_v + 0x40, g.name("sid"))]
            if w and rng.random() < 0.8:
                ph.append(D.matching_request(g.name("echo"), 1, w))
            pr = D.Composite(f"PR{i}", "pos-response", ph + _shift_tail(body("pos-response"), 0, params_extent(ph)))
            comps.append(pr)
            svc.pos = [pr.name]
            if w and rng.random() < 0.7:
                shared_pr = pr
        if common_nr is not None and rng.random() < 0.8:
            svc.neg = [common_nr.name]
        elif rng.random() < 0.3:
            nr = D.Composite(f"NR{i}", "neg-response", [D.sid(0x7F, g.name("sid")), D.matching_request(g.name("rq"), 0, 1 + (1 if w == 1 else 0)),
                                                        D.value(g.name("code"), D.u8())])
            comps.append(nr)
            svc.neg = [nr.name]
        services.append(svc)
        prev = (sid_v, w, used, shared_pr)
    layer = D.Layer(comps, services, [gnr.name] if gnr is not None else [])
    return layer


# ------------------------------------------------------------------ deterministic enumeration families
def enum_std_numeric(bitlens=range(1, 65), bitposs=range(8), types=None):
    """every (base type, encoding, byte order, bit length, bit position) standard-length integer DOP inside
    `[sid, x, y:u8]` (y pins the cursor after x)"""
    n = 0
    for bt in (types or ("A_UINT32", "A_INT32")):
        for enc in D.LEGAL_ENCODINGS[bt]:
            for hl in (True, False):
                for bl in bitlens:
                    if enc == "BCD-P" and bl < 4 or enc == "BCD-UP" and bl < 4:
                        continue
                    for bp in bitposs:
                        n += 1
                        dop = D.SimpleDop(D.Std(bt, bl, enc, hl), bt)
                        yield D.Composite(f"E{n}", "request", [D.sid(), D.value("x", dop, bitpos=bp), D.value("y", D.u8())])


def enum_std_other(bitposs=(0, 3)):
    """floats, strings (every legal encoding, 1-3 code units) and byte fields, both byte orders"""
    n = 0
    for bt in ("A_FLOAT32", "A_FLOAT64", "A_ASCIISTRING", "A_UTF8STRING", "A_UNICODE2STRING", "A_BYTEFIELD"):
        for enc in D.LEGAL_ENCODINGS[bt]:
            for hl in (True, False):
                if bt == "A_FLOAT32":
                    lens = [32]
                elif bt == "A_FLOAT64":
                    lens = [64]
                elif bt == "A_UNICODE2STRING":
                    lens = [16, 32, 48]
                else:
                    lens = [8, 16, 24, 40]
                for bl in lens:
                    for bp in bitposs:
                        n += 1
                        dop = D.SimpleDop(D.Std(bt, bl, enc, hl), bt)
                        yield D.Composite(f"O{n}", "request", [D.sid(), D.value("x", dop, bitpos=bp or None), D.value("y", D.u8())])


def enum_struct_offsets():
    """BYTE-SIZE structures of every small size at every small offset, followed by a parameter (ledger row 3)"""
    n = 0
    for off in range(0, 4):
        for content in (1, 2):
            for pad in (0, 1, 3):
                for nested in (False, True):
                    n += 1
                    inner = D.Struct([D.value("a", D.u8(8 * content))], bytesize=content + pad)
                    if nested:
                        inner = D.Struct([D.value("h", D.u8()), D.value("in_", inner)], bytesize=1 + content + pad + pad)
                    ps = [D.value(f"o{i}", D.u8()) for i in range(off)] + [D.value("s", inner), D.value("y", D.u8())]
                    yield D.Composite(f"S{n}", "request", ps)


def enum_dynamic_static_fields():
    """STATIC-FIELDs whose item structure has an input-dependent size: a LEADING-LENGTH, terminated MIN-MAX or PARAM-LENGTH
    object (with its LENGTH-KEY inside the item) x 1-3 items x static parameters before / behind it in the item x
    ITEM-BYTE-SIZE tight or with slack x nothing / one / two bytes behind the field, in `[sid, f, (y)]`"""
    n = 0
    kinds = [("lead8", lambda: D.Leading("A_BYTEFIELD", 8)), ("lead16s", lambda: D.Leading("A_UTF8STRING", 16, None, False)),
             ("lead4", lambda: D.Leading("A_BYTEFIELD", 4)), ("mm-zero", lambda: D.MinMax("A_BYTEFIELD", 0, 3, "ZERO")),
             ("mm-ff", lambda: D.MinMax("A_ASCIISTRING", 1, None, "HEX-FF")), ("mm-u2", lambda: D.MinMax("A_UNICODE2STRING", 0, 4, "ZERO")),
             ("paramlen", None), ("paramlen-str", None)]
    for kind, mk in kinds:
        for count in (1, 2, 3):
            for head in (False, True):
                for tail in (False, True):
                    for slack in (0, 2):
                        for after in (0, 1, 2):
                            n += 1
                            ps = [D.value("h", D.u8())] if head else []
                            if mk is None:
                                bt = "A_BYTEFIELD" if kind == "paramlen" else "A_UTF8STRING"
                                ps += [D.length_key("k", D.u8()), D.value("d", D.SimpleDop(D.ParamLen(bt, "k"), bt))]
                                mx = 1 + 5
                            else:
                                dct = mk()
                                ps.append(D.value("d", D.SimpleDop(dct, dct.bt)))
                                mx = dyn_max_bytes(dct)
                            if tail:
                                ps.append(D.value("t", D.u8(16)))
                            size = mx + (1 if head else 0) + (2 if tail else 0) + slack
                            top = [D.sid(), D.value("f", D.StaticField(count, size, D.Struct(ps)))]
                            if after:
                                top.append(D.value("y", D.u8(8 * after)))
                            c = D.Composite(f"F{n}", "request", top)
                            c.meta = {"enum-kind": kind}
                            yield c


def enum_length_keys():
    """LENGTH-KEY DOPs (identical unsigned / signed, every LINEAR variant of KEY_LINEAR with signed and unsigned physical type)
    x PARAM-LENGTH-INFO users of every base type x with / without a parameter behind the user, in `[sid, k, x, (y)]`"""
    n = 0
    kds = [("u8", D.u8()), ("i8", D.SimpleDop(D.Std("A_INT32", 8), "A_INT32")), ("i16sm", D.SimpleDop(D.Std("A_INT32", 16, "SM", False), "A_INT32"))]
    for num0, num1 in KEY_LINEAR:
        for phys in ("A_INT32", "A_UINT32"):
            kds.append((f"lin{num0}_{num1}_{phys}", D.SimpleDop(D.Std("A_UINT32", 8), phys, D.Linear(num0, num1, 1))))
    for tag, kd in kds:
        # (no float users: a PARAM-LENGTH float whose key is not 32 / 64 is reported as a plain OdxError "bit length of FLOAT32 values
        #  must be 32 bits" - classified as an ill-formed description by C05_error_classes, see design_notes/C05.md round 3)
        for bt in ("A_BYTEFIELD", "A_ASCIISTRING", "A_UTF8STRING", "A_UNICODE2STRING", "A_UINT32", "A_INT32"):
            for after in (False, True):
                n += 1
                ps = [D.sid(), D.length_key("k", kd), D.value("x", D.SimpleDop(D.ParamLen(bt, "k", None, None if n % 3 else False), bt))]
                if after:
                    ps.append(D.value("y", D.u8()))
                c = D.Composite(f"K{n}", "request", ps)
                c.meta = {"enum-key": tag.split("_")[0]}
                yield c


def enum_texttables():
    """TEXTTABLE DOPs over small signed / unsigned integers in `[sid, x, y:u8]`: range scales below, across and above 0 in
    several declaration orders x which internal value COMPU-INVERSE-VALUE names (absent, lower, upper, 0 where the range has
    it, a middle value); to be encoded with every text of the table"""
    n = 0
    types = [("A_INT32", None, 8, None), ("A_INT32", "SM", 8, None), ("A_INT32", "1C", 6, None), ("A_INT32", "2C", 16, False), ("A_UINT32", None, 8, None),
             ("A_UINT32", None, 12, False)]
    patterns = [[(-2, 2), (3, 20), (-20, -3)], [(-8, -1), (0, 0), (1, 7)], [(-1, 0), (1, 1)], [(0, 3), (4, 4), (5, 9)], [(1, 2), (3, 3)], [(-31, 31)],
                [(2, 2), (0, 1), (3, 200)]]
    for bt, enc, bl, hl in types:
        bottom, top = int_range(bt, enc, bl)
        for pat in patterns:
            if any(lo < bottom or hi > top for lo, hi in pat):
                continue
            for mode in ("absent", "lower", "upper", "zero", "middle", "mixed"):
                n += 1
                scales, inv = [], {}
                for i, (lo, hi) in enumerate(pat):
                    t = f"t{i}"
                    scales.append((lo, hi, t))
                    m = mode if mode != "mixed" else ("zero", "absent", "upper")[i % 3]
                    if m == "lower":
                        inv[t] = lo
                    elif m == "upper":
                        inv[t] = hi
                    elif m == "zero" and lo <= 0 <= hi:
                        inv[t] = 0
                    elif m == "middle":
                        inv[t] = (lo + hi) // 2
                dop = D.SimpleDop(D.Std(bt, bl, enc, hl), "A_UNICODE2STRING", D.TextTable(scales, inv or None))
                yield D.Composite(f"T{n}", "request", [D.sid(), D.value("x", dop), D.value("y", D.u8())])


def enum_mux_orders():
    """multiplexers whose 2-3 regular CASEs are declared in every order, for several coverage patterns of the small switch
    keys (contiguous from 0, hole at 0, hole in the middle), with and without DEFAULT-CASE, in `[sid, m, y:u8]`"""
    import itertools
    patterns = [[(0, 1), (2, 3)], [(0, 0), (1, 1), (2, 4)], [(1, 2), (3, 3)], [(0, 1), (3, 4)], [(0, 2), (3, 3), (5, 9)], [(0, 0), (1, 254)],
                [(0, 127), (128, 255)]]
    n = 0
    for pat in patterns:
        for perm in itertools.permutations(range(len(pat))):
            for with_default in (True, False):
                for dstruct in ((True, False) if with_default else (False,)):
                    n += 1
                    cases = []
                    for i in perm:
                        lo, hi = pat[i]
                        st = None if i == 2 else D.Struct([D.value(f"a{i}_{j}", D.u8()) for j in range(i + 1)])
                        cases.append(D.MuxCase(f"c{i}", lo, hi, st))
                    default = ("other", D.Struct([D.value("d", D.u8(24))]) if dstruct else None) if with_default else None
                    mux = D.Mux(1, 0, None, D.u8(), cases, default)
                    yield D.Composite(f"M{n}", "request", [D.sid(), D.value("m", mux), D.value("y", D.u8())])


def enum_mux_values(rng, comp):
    """every way of selecting every case of the multiplexer of an `enum_mux_orders` composite"""
    from .values import gen_params_value
    mux = comp.params[1].dop
    out = []
    covered = lambda k: any(c.lower <= k <= c.upper for c in mux.cases)
    for c in mux.cases:
        for sel in (c.name, c.lower, c.upper):
            out.append((sel, gen_params_value(rng, c.struct.params) if c.struct is not None else {}))
    if mux.default is not None:
        free = [k for k in range(256) if not covered(k)]
        for sel in [mux.default[0], None] + free[:1] + free[-1:]:
            out.append((sel, gen_params_value(rng, mux.default[1].params) if mux.default[1] is not None else {}))
    return [{"m": v, "y": 0xA5} for v in out]


def enum_struct_layout_orders():
    """BYTE-SIZE structures whose members are positioned explicitly, in EVERY listing order (so the member listed last is
    not the one that ends last), with 0-2 bytes of padding up to BYTE-SIZE, byte-aligned members and packed bit fields, at
    offset 1 or 2 of `[sid, (o), s, y]`; yields (composite, value, cursor_issue) with non-zero member values (a zeroed member is
    visible). `cursor_issue`: no BYTE-SIZE and the member listed last ends before the structure's extent — odxtools then places
    `y` behind the member listed last, i.e. INTO the structure (open finding nested-structure-cursor-behind-last-listed-parameter)"""
    import itertools
    layouts = [
        # (name, bytepos, bitpos, bitlen, value)
        [("a", 0, None, 8, 0x7A), ("b", 1, None, 8, 0xBC)],
        [("a", 0, None, 8, 0x11), ("b", 1, None, 16, 0xBEEF), ("c", 3, None, 8, 0x5A)],
        [("w", 0, 0, 12, 0xABC), ("n", 0, 4, 4, 0x5)],                 # 12 bit value (low nibble of byte 0 + byte 1) + the high nibble of byte 0
        [("f", 0, 7, 1, 1), ("v", 1, None, 16, 0x1234)],               # flag in byte 0, 16 bit value behind it
        [("lo", 0, 0, 4, 0x9), ("hi", 0, 4, 4, 0x6), ("t", 1, None, 8, 0xE7)],
    ]
    n = 0
    for lay in layouts:
        natural = max(bp + ((bit or 0) + bl + 7) // 8 for _, bp, bit, bl, _ in lay)
        for perm in itertools.permutations(range(len(lay))):
            for pad in (0, 1, 2):
                for off in (0, 1):
                    for bytesize in (True, False):
                        if not bytesize and pad:
                            continue
                        n += 1
                        members = [D.value(lay[i][0], D.u8(lay[i][3]), bytepos=lay[i][1], bitpos=lay[i][2]) for i in perm]
                        st = D.Struct(members, bytesize=(natural + pad) if bytesize else None)
                        ps = [D.sid()] + [D.value(f"o{i}", D.u8()) for i in range(off)] + [D.value("s", st), D.value("y", D.u8())]
                        val = {"s": {nm: v for nm, _, _, _, v in lay}, "y": 0xA5}
                        val.update({f"o{i}": 0x33 for i in range(off)})
                        last = lay[perm[-1]]
                        last_end = last[1] + ((last[2] or 0) + last[3] + 7) // 8
                        yield D.Composite(f"L{n}", "request", ps), val, (not bytesize and last_end < natural)


def enum_minmax_terminated():
    """terminated MIN-MAX-LENGTH objects of every string / byte-field type x ZERO / HEX-FF x byte order, followed by a parameter,
    with values chosen around the termination sequence: last wire byte equal to the terminator byte (so that a misaligned
    two-byte hit overlaps the real terminator), terminator byte inside the value at odd / even offsets, empty, min / max
    length; in `[sid, t, y:u8]`; yields (composite, value)"""
    n = 0
    for bt, enc in (("A_UNICODE2STRING", None), ("A_ASCIISTRING", None), ("A_UTF8STRING", None), ("A_BYTEFIELD", None)):
        for term in ("ZERO", "HEX-FF"):
            for hl in ((None, False) if bt == "A_UNICODE2STRING" else (None,)):
                for mn, mx in ((0, None), (0, 8), (2, 6)):
                    n += 1
                    dct = D.MinMax(bt, mn, mx, term, enc, hl)
                    comp = D.Composite(f"MM{n}", "request", [D.sid(), D.value("t", D.SimpleDop(dct, bt)), D.value("y", D.u8())])
                    if bt == "A_UNICODE2STRING":
                        vals = ["", "A", "AB", "A\u0100", "\u0100A", "x\u00ff", "\u4100\u0041", "\u0141\u00ff", "\uff41", "A\uff00", "\u00ff\u0100\u00ff",
                                "abc", "\u0100\u0100\u0100", "\u01ff\uff01"]
                    elif bt == "A_BYTEFIELD":
                        vals = [b"", b"\x01", b"\x01\x02", b"\xfe\x01", b"\x01\xfe\x7f", bytes(range(1, 7)), b"\x80" * 8, b"\x01\x02\x03\x04\x05\x06\x07\x08"]
                    else:
                        vals = ["", "A", "AB", "abc", "abcdef", "abcdefgh", "\x7f\x01", "zz\x01z"]
                    for v in vals:
                        yield comp, {"t": v, "y": 0xA5}


def enum_masked_holes():
    """non-condensed BIT-MASKs with holes (cleared bits between set ones) on 16/24/32 bit integers and byte fields, both byte orders, with a
    second parameter positioned INTO the hole (whole byte or nibble), in both listing orders, in `[sid, m @1, h @hole]` / `[sid, h, m]`;
    yields (composite, value). (An object's used bits are its mask — not a contiguous bit string.)"""
    n = 0
    masks = [(24, 0xFF00FF), (24, 0xF000FF), (32, 0xFF0000FF), (32, 0xFFFF00FF), (16, 0xF00F), (16, 0xFF00), (24, 0x00FFFF), (32, 0x80FF0001)]
    for bl, mask in masks:
        nbytes = bl // 8
        for bt in ("A_UINT32", "A_BYTEFIELD"):
            for hl in ((None, False) if bt == "A_UINT32" else (None,)):
                wire = list(mask.to_bytes(nbytes, "big"))
                if hl is False:
                    wire.reverse()
                # a hole parameter: a whole byte where the wire mask is 00, else a nibble where it is 0x0_/0x_0
                hole = None
                for i, mb in enumerate(wire):
                    if mb == 0x00:
                        hole = (1 + i, None, 8, 0x56)
                        break
                if hole is None:
                    for i, mb in enumerate(wire):
                        if mb & 0xF0 == 0:
                            hole = (1 + i, 4, 4, 0x5)
                            break
                        if mb & 0x0F == 0:
                            hole = (1 + i, 0, 4, 0x6)
                            break
                if hole is None:
                    continue
                mdop = D.SimpleDop(D.Std(bt, bl, None, hl, mask=mask), bt)
                hdop = D.u8(hole[2])
                for order in ("mh", "hm"):
                    for mv in (mask, 0x123456789A & mask, (1 << bl) - 1):
                        n += 1
                        pm = D.value("m", mdop, bytepos=1)
                        ph = D.value("h", hdop, bytepos=hole[0], bitpos=hole[1])
                        ps = [D.sid()] + ([pm, ph] if order == "mh" else [ph, pm])
                        v = (mv & mask) if bt == "A_UINT32" else (mv & mask).to_bytes(nbytes, "big")
                        yield D.Composite(f"H{n}", "request", ps), {"m": v, "h": hole[3]}


def enum_field_layouts():
    """fields at a non-zero position inside their structure with a sibling that is LISTED behind the field but LOCATED before it (explicit
    BYTE-POSITION), and the control with the sibling listed first; field kinds static / dynamic-length (count at 0, OFFSET 1 or 2: with and
    without a gap) / end-of-PDU; 0, 1, 2 items (the empty field is the interesting one: nothing is written, yet cursor and origin must
    be left as after any other item count); at top level and inside a structure at offset 1; yields (composite, value)"""
    n = 0
    item = lambda: D.Struct([D.value("a", D.u8()), D.value("b", D.u8(16))])
    for kind in ("static0", "static1", "static2", "dyn1", "dyn2", "eop"):
        for count in (0, 1, 2):
            if kind.startswith("static"):
                if int(kind[-1]) != count:
                    continue
                fld = D.StaticField(count, 4, item())
            elif kind.startswith("dyn"):
                fld = D.DynLenField(int(kind[-1]), 0, None, D.u8(), item())
            else:
                fld = D.EopField(item())
            vals = [{"a": 0x10 + i, "b": 0x2000 + i} for i in range(count)]
            for order in ("field-first", "sibling-first"):
                for nested in (False, True):
                    n += 1
                    pf = D.value("f", fld, bytepos=2)
                    pz = D.value("z", D.u8(), bytepos=1)
                    inner = [pf, pz] if order == "field-first" else [pz, pf]
                    if nested:
                        ps = [D.sid(), D.value("o", D.u8()), D.value("s", D.Struct([D.value("h", D.u8())] + inner))]
                        val = {"o": 0x33, "s": {"h": 0x44, "f": vals, "z": 0x5A}}
                    else:
                        ps = [D.sid()] + inner
                        val = {"f": vals, "z": 0x5A}
                    yield D.Composite(f"FL{n}", "request", ps), val

def enum_after_complex():
    """a sibling LISTED and LOCATED behind a complex data object, positioned by an explicit BYTE-POSITION (relative to the enclosing
    structure: the origin must be the enclosing one again after every complex object, on the encode and on the decode side):
    multiplexer with the selected case having / not having a STRUCTURE (regular case, default case), nested STRUCTURE with and without
    BYTE-SIZE, static field, dynamic-length field (0 / 2 items), each x directly behind the object / behind a one-byte gap x at top
    level behind a first byte / inside a structure at offset 2 of the request; yields (composite, value)"""
    n = 0
    st = lambda: D.Struct([D.value("a", D.u8()), D.value("b", D.u8(16))])
    mux = lambda: D.Mux(1, 0, None, D.u8(), [D.MuxCase("c0", 0, 0, st()), D.MuxCase("c1", 1, 1, None)], None)
    muxd = lambda ds: D.Mux(1, 0, None, D.u8(), [D.MuxCase("c0", 0, 0, st())], ("other", st() if ds else None))
    sv = {"a": 0x11, "b": 0x2233}
    # (data object, value, number of bytes it occupies)
    kinds = [
        ("mux-struct-case", mux, ("c0", sv), 4), ("mux-structless-case", mux, ("c1", {}), 1),
        ("mux-default-struct", lambda: muxd(True), ("other", sv), 4), ("mux-default-structless", lambda: muxd(False), ("other", {}), 1),
        ("struct", st, sv, 3), ("struct-bytesize", lambda: D.Struct(st().params, 5), sv, 5),
        ("static-field", lambda: D.StaticField(2, 4, st()), [sv, sv], 8),
        ("dyn-field-0", lambda: D.DynLenField(1, 0, None, D.u8(), st()), [], 1),
        ("dyn-field-2", lambda: D.DynLenField(1, 0, None, D.u8(), st()), [sv, sv], 7),
    ]
    for kind, mk, val, size in kinds:
        for gap in (0, 1):
            for nested in (False, True):
                n += 1
                # positions relative to the enclosing object: [h: u8 @0][x: the complex object @1][y: u8 @1+size+gap]
                inner = [D.value("h", D.u8()), D.value("x", mk()), D.value("y", D.u8(), bytepos=1 + size + gap)]
                ival = {"h": 0x44, "x": val, "y": 0x5A}
                if nested:
                    ps = [D.sid(), D.value("o", D.u8()), D.value("s", D.Struct(inner))]
                    v = {"o": 0x33, "s": ival}
                else:
                    ps = inner
                    v = ival
                yield D.Composite(f"AC{n}_{kind.replace('-', '_')}", "request", ps), v


def enum_minmax_wire(full=False):
    """terminated (and END-OF-PDU) MIN-MAX-LENGTH objects seen from the wire: every base type x termination x byte order (two-byte
    code units) x (MIN-LENGTH, MAX-LENGTH) in {(0, -), (0, 2 units), (2 units, 3 units), (1 unit, -)} x followed by a parameter /
    ending the PDU, in `[sid, t, (y:u8)]`, with EVERY value of up to k code units over the alphabet built from the bytes 00, ff, 41
    (one-byte units: the three bytes resp. U+0000, U+00FF, 'A', k = 3; two-byte units: all nine combinations 0000 00ff 0041 ff00 ffff
    ff41 4100 41ff 4141, k = 2) plus every value of k + 1 units over the sub-alphabet built from the termination byte and 41 - i.e.
    the termination byte at every offset, aligned and not aligned, in front of and behind MIN-LENGTH, adjacent to the real
    terminator.  full: k + 1 (resp. k + 2) units.  Yields (composite, value); which values have a canonical wire form is decided
    by refpdu.sequential_pdu"""
    import itertools
    n = 0
    for bt in ("A_UNICODE2STRING", "A_ASCIISTRING", "A_UTF8STRING", "A_BYTEFIELD"):
        unit = 2 if bt == "A_UNICODE2STRING" else 1
        k = (2 if unit == 2 else 3) + (1 if full else 0)

        def units(bs):
            if unit == 2:
                return [chr(256 * a + b) for a in bs for b in bs]
            return [bytes([b]) if bt == "A_BYTEFIELD" else chr(b) for b in bs]

        def words(alpha, lens):
            join = (lambda t: b"".join(t)) if bt == "A_BYTEFIELD" else (lambda t: "".join(t))
            return [join(t) for m in lens for t in itertools.product(alpha, repeat=m)]

        for term in ("ZERO", "HEX-FF", "END-OF-PDU"):
            values = words(units((0x00, 0xff, 0x41)), range(k + 1))
            if term != "END-OF-PDU":
                values += words(units(((0x00 if term == "ZERO" else 0xff), 0x41)), (k + 1,))
            for hl in ((None, False) if unit == 2 else (None,)):
                for mn, mx in ((0, None), (0, 2 * unit), (2 * unit, 3 * unit), (unit, None)):
                    for tail in ((False,) if term == "END-OF-PDU" else (True, False)):
                        n += 1
                        dct = D.MinMax(bt, mn, mx, term, None, hl)
                        ps = [D.sid(), D.value("t", D.SimpleDop(dct, bt))] + ([D.value("y", D.u8())] if tail else [])
                        comp = D.Composite(f"W{n}", "request", ps)
                        for v in values:
                            yield comp, ({"t": v, "y": 0xA5} if tail else {"t": v})


def enum_dtc_sources():
    """every way a DTC-DOP obtains the DTCs it describes, in `[sid, d, y:u8]`: own DTC children only; DTC-REF to a DTC of another
    DTC-DOP; LINKED-DTC-DOPS (inherit all / one NOT-INHERITED / a local DTC with the short name of a library DTC, which then is
    not inherited / no own DTC at all / two linked DTC-DOPs whose DTCs clash by short name / a chain of two links with
    NOT-INHERITED on either level / linked + DTC-REF) x the DTC-DOPs referred to declared in front of or behind their user (every
    combination along a chain) x coded type 8 bit / 16 bit / 24 bit low-high x compu method IDENTICAL / LINEAR 2x / LINEAR 3x + 1
    (coded value x, trouble code a * x + b: the DTCs carry the PHYSICAL trouble code).  Yields (composite, codes), codes = every trouble
    code that occurs anywhere in the document (the described ones are D.effective_dtcs of the DTC-DOP of `d`)"""
    import itertools
    n = 0
    # x compu method IDENTICAL / LINEAR (trouble code = a * coded value + b: 2x — the trouble code of DTC_A is the coded value of DTC_B —
    # and 3x + 1 — no trouble code is a coded value of a DTC, the largest 8-bit one does not fit the coded type's width any more)
    for (bits, hl), (a, b) in itertools.product(((8, None), (16, None), (24, False)), ((1, 0), (2, 0), (3, 1))):
        sh = bits - 8

        def dd(dtcs, **kw):
            return D.DtcDop(D.Std("A_UINT32", bits, None, hl), "A_UINT32", D.Identical() if (a, b) == (1, 0) else D.Linear(b, a, 1), dtcs, **kw)

        A, B, C, E, F = [(a * ((0x11 * (i + 1)) << sh | (i + 1 if sh else 0)) + b, nm) for i, nm in enumerate(["DTC_A", "DTC_B", "DTC_C", "DTC_E", "DTC_F"])]
        L = D.LinkedDtcDop
        shapes = {
            "own": lambda o: dd([A, B]),
            "ref": lambda o: dd([A], dtc_refs=[(dd([B, C]), "DTC_C")], lib_first=o[0]),
            "ref-only": lambda o: dd([], dtc_refs=[(dd([B, C]), "DTC_B")], lib_first=o[0]),
            "linked": lambda o: dd([A], linked=[L(dd([B, C]), [])], lib_first=o[0]),
            "linked-not-inherited": lambda o: dd([A], linked=[L(dd([B, C]), ["DTC_C"])], lib_first=o[0]),
            "linked-shadowed": lambda o: dd([(A[0], "DTC_B")], linked=[L(dd([B, C]), [])], lib_first=o[0]),
            "linked-only": lambda o: dd([], linked=[L(dd([B, C]), [])], lib_first=o[0]),
            "two-links": lambda o: dd([A], linked=[L(dd([B]), []), L(dd([C, (E[0], "DTC_B")]), [])], lib_first=o[0]),
            "chain": lambda o: dd([A], linked=[L(dd([E], linked=[L(dd([B, C]), [])], lib_first=o[1]), [])], lib_first=o[0]),
            "chain-not-inherited": lambda o: dd([A], linked=[L(dd([E, F], linked=[L(dd([B, C]), ["DTC_B"])], lib_first=o[1]), ["DTC_E"])], lib_first=o[0]),
            "linked+ref": lambda o: dd([A], dtc_refs=[(dd([E, F]), "DTC_F")], linked=[L(dd([B, C]), ["DTC_B"])], lib_first=o[0]),
        }
        for tag, mk in shapes.items():
            orders = [(None, None)] if tag == "own" else list(itertools.product((True, False), repeat=2 if tag.startswith("chain") else 1))
            for o in orders:
                o = tuple(o) + (None,) * (2 - len(o))
                n += 1
                c = D.Composite(f"DS{n}", "request", [D.sid(), D.value("d", mk(o)), D.value("y", D.u8())])
                c.meta = {"dtc-source:" + tag + ("" if (a, b) == (1, 0) else f"/linear:{a}x+{b}"): 1}
                yield c, [x[0] for x in (A, B, C, E, F)]


def enum_table_keys():
    """TABLE-KEY parameters in every arrangement: row selected by the PDU (TABLE-REF) or statically (TABLE-ROW-REF: the key occupies NO bits)
    x with / without the TABLE-STRUCT that uses it x nothing / a byte in front / a byte behind x key DOP of 4, 8 or 16 bits, in
    `[sid, (x), tk, (ts), (y)]`; yields (composite, value). (Whatever is reported as static — or not — for such an object must agree with what is
    encoded.)"""
    n = 0
    for kbits in (8, 16, 4):
        for static_row in (False, True):
            for with_struct in (False, True):
                for before in (False, True):
                    for after in (False, True):
                        n += 1
                        kd = D.u8(kbits)
                        rows = [D.TableRow("r1", 1, struct=D.Struct([D.value("a", D.u8())])), D.TableRow("r2", 2, dop=D.u8(16))]
                        t = D.Table(kd, rows)
                        ps = [D.sid()] + ([D.value("x", D.u8())] if before else [])
                        ps.append(D.table_key("tk", t, row="r2" if static_row else None))
                        if with_struct:
                            ps.append(D.table_struct("ts", "tk"))
                        if after:
                            ps.append(D.value("y", D.u8()))
                        val = {}
                        if before:
                            val["x"] = 0x11
                        if after:
                            val["y"] = 0x22
                        if not static_row:
                            val["tk"] = "r2"
                        if with_struct:
                            val["ts"] = ("r2", 0x1234)
                        yield D.Composite(f"TK{n}", "request", ps), val


# ------------------------------------------------------------------ measured input distribution
def features(comp):
    """histogram keys of a composite: (histogram name, key) pairs"""
    out = [("kind", comp.kind), ("depth", D.max_depth(comp)), ("n_params_top", len(comp.params))]
    for k, v in getattr(comp, "meta", {}).items():
        out.append(("mode", k))

    def dct_feats(dct, bitpos):
        out.append(("dct", dct.tag))
        out.append(("base_type", dct.bt))
        out.append(("encoding", dct.enc))
        out.append(("byte_order", "HL" if D.is_hl(dct) else "LH"))
        if isinstance(dct, (D.Std, D.Leading)):
            out.append(("bit_length", dct.bitlen))
        if isinstance(dct, D.Std):
            out.append(("bit_position", bitpos or 0))
            if dct.mask is not None:
                out.append(("mask", "condensed" if dct.condensed else "plain"))
        if isinstance(dct, D.MinMax):
            out.append(("termination", dct.term))

    def dop_feats(d, bitpos):
        out.append(("dop", d.tag))
        if isinstance(d, D.DtcDop):
            for f in D.dtc_sources(d):
                out.append(("dtc_source", f))
        if isinstance(d, (D.SimpleDop, D.DtcDop)):
            dct_feats(d.dct, bitpos)
            out.append(("compu", d.compu.tag))
        elif isinstance(d, D.Struct):
            out.append(("struct_bytesize", d.bytesize is not None))
        elif isinstance(d, D.Mux):
            dop_feats(d.switch_dop, d.switch_bitpos)
        elif isinstance(d, D.DynLenField):
            dop_feats(d.countdop, d.countbitpos)

    for p, depth in D.walk_params(comp.params):
        out.append(("param", p.type))
        out.append(("explicit_bytepos", p.bytepos is not None))
        if p.dct is not None:
            dct_feats(p.dct, p.bitpos)
        if p.dop is not None:
            dop_feats(p.dop, p.bitpos)
        if p.type == "value" and p.default is not None:
            out.append(("param", "value+default"))
        if p.type == "table-key" and p.row is not None:
            out.append(("param", "table-key-static-row"))
    return out
