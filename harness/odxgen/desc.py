"""AST of codec descriptions (mirrors harness/odxgen/SEXP.md and DESIGN.md §4.3).

A description is a finite tree: DOPs are owned by the parameter (or field/mux/table) that uses
them, so there are no cycles by construction.  Sharing of a Python object between two users is
allowed (it is emitted once into the XML and unfolded in the s-expression).
"""
from dataclasses import dataclass, field
from typing import Any, List, Optional, Tuple, Union

BASE_TYPES = ["A_INT32", "A_UINT32", "A_FLOAT32", "A_FLOAT64", "A_ASCIISTRING", "A_UTF8STRING",
              "A_UNICODE2STRING", "A_BYTEFIELD"]
NUMERIC = ("A_INT32", "A_UINT32", "A_FLOAT32", "A_FLOAT64")
STRINGS = ("A_ASCIISTRING", "A_UTF8STRING", "A_UNICODE2STRING")
#: encodings that odxtools accepts without complaint for a base type (None = attribute absent)
LEGAL_ENCODINGS = {
    "A_INT32": [None, "2C", "1C", "SM"],
    "A_UINT32": [None, "NONE", "BCD-P", "BCD-UP"],
    "A_FLOAT32": [None, "NONE"],
    "A_FLOAT64": [None, "NONE"],
    "A_ASCIISTRING": [None, "ISO-8859-1", "ISO-8859-2", "WINDOWS-1252"],
    "A_UTF8STRING": [None, "UTF-8"],
    "A_UNICODE2STRING": [None, "UCS-2"],
    "A_BYTEFIELD": [None, "NONE", "BCD-P", "BCD-UP"],
}


# ------------------------------------------------------------------ diag coded types
@dataclass
class Std:
    bt: str
    bitlen: int
    enc: Optional[str] = None
    hl: Optional[bool] = None          # None = attribute absent (= high-low)
    mask: Optional[int] = None
    condensed: Optional[bool] = None
    tag = "std"


@dataclass
class MinMax:
    bt: str
    min: int
    max: Optional[int]
    term: str                          # ZERO | HEX-FF | END-OF-PDU
    enc: Optional[str] = None
    hl: Optional[bool] = None
    tag = "minmax"


@dataclass
class Leading:
    bt: str
    bitlen: int
    enc: Optional[str] = None
    hl: Optional[bool] = None
    tag = "leading"


@dataclass
class ParamLen:
    bt: str
    key: str                           # short name of the LENGTH-KEY parameter (same composite)
    enc: Optional[str] = None
    hl: Optional[bool] = None
    tag = "paramlen"


Dct = Union[Std, MinMax, Leading, ParamLen]


def is_hl(dct) -> bool:
    return dct.hl in (None, True)


# ------------------------------------------------------------------ compu methods
@dataclass
class Identical:
    tag = "identical"


@dataclass
class Linear:
    """phys = (num0 + num1 * x) / den ; limits are on the internal value: (value, 'OPEN'|'CLOSED')"""
    num0: Union[int, float]
    num1: Union[int, float]
    den: Union[int, float] = 1
    lower: Optional[Tuple[Union[int, float], str]] = None
    upper: Optional[Tuple[Union[int, float], str]] = None
    tag = "linear"


@dataclass
class TextTable:
    """scales: (lower, upper, text); internal type must be integer for the generated families.
    inv: text -> COMPU-INVERSE-VALUE of the scale with that text (the internal value to be used when the text is encoded;
    a scale without entry has no COMPU-INVERSE-VALUE: the ODX rule then takes its LOWER-LIMIT)"""
    scales: List[Tuple[int, int, str]]
    inv: Optional[dict] = None

    def inverse(self, lo, text):
        return (self.inv or {}).get(text, lo)
    tag = "texttable"


@dataclass
class OtherCompu:
    """SCALE-LINEAR, TAB-INTP, RAT-FUNC, ...: emitted as XML only; `(other)` towards the model.
    `scales` is a list of dicts with keys lower, upper (value | None, interval type | None) | None, num, den, inv,
    const (a str is emitted as VT, a number as V); `default`: COMPU-DEFAULT-VALUE of COMPU-INTERNAL-TO-PHYS"""
    category: str
    scales: List[dict]
    inv_scales: Optional[List[dict]] = None     # COMPU-PHYS-TO-INTERNAL (RAT-FUNC inverse)
    default: Any = None
    tag = "other"


Compu = Union[Identical, Linear, TextTable, OtherCompu]


# ------------------------------------------------------------------ DOPs
@dataclass
class SimpleDop:
    """`precision` / `radix`: the optional PRECISION child / DISPLAY-RADIX attribute of PHYSICAL-TYPE (display hints: digits shown
    behind the decimal point of a float, radix an A_UINT32 is shown in). They do not take part in any conversion, so the model
    does not receive them (`sexp.dop`); only the XML document carries them."""
    dct: Dct
    phys: str
    compu: Compu = field(default_factory=Identical)
    precision: Optional[int] = None
    radix: Optional[str] = None         # HEX | DEC | BIN | OCT
    tag = "simple"


@dataclass
class LinkedDtcDop:
    """LINKED-DTC-DOP: the DTCs of `dop` (its effective list, i.e. including what it inherits itself) are inherited, except
    those named in NOT-INHERITED-DTC-SNREFS and those whose short name the inheriting DTC-DOP already has"""
    dop: "DtcDop"
    not_inherited: List[str] = field(default_factory=list)


@dataclass
class DtcDop:
    """`dtcs`: DTC children of DTCS; `dtc_refs`: DTC-REF children of DTCS (the DTC lives in the DTCS of `owner`, which is
    emitted into the same layer; listed behind the DTC children); `linked`: LINKED-DTC-DOPS; `lib_first`: the DTC-DOPs this one
    refers to precede (True) / follow (False / None) it in the DTC-DOPS section of the document"""
    dct: Dct
    phys: str
    compu: Compu
    dtcs: List[Tuple[int, str]]         # (trouble code, short name)
    dtc_refs: Optional[List[Tuple["DtcDop", str]]] = None      # (owner, short name of one of the owner's own DTCs)
    linked: Optional[List[LinkedDtcDop]] = None
    lib_first: Optional[bool] = None
    tag = "dtc"


def dtc_compu_simple(d: DtcDop) -> bool:
    """the compu methods of a DTC-DOP the reference PDU builder places by hand: IDENTICAL, or LINEAR with integer coefficients,
    denominator 1, a non-zero slope and no limits (trouble code = num0 + num1 * coded value, exactly)"""
    c = d.compu
    return isinstance(c, Identical) or (isinstance(c, Linear) and type(c.num0) is int and type(c.num1) is int and c.num1 != 0
                                        and c.den == 1 and type(c.den) is int and c.lower is None and c.upper is None)


def dtc_code_of_coded(d: DtcDop, x: int) -> int:
    """coded value -> (physical) trouble code, for dtc_compu_simple DTC-DOPs"""
    return x if isinstance(d.compu, Identical) else d.compu.num0 + d.compu.num1 * x


def dtc_coded_of_code(d: DtcDop, tc: int) -> Optional[int]:
    """(physical) trouble code -> the coded value whose exact image it is (None: it is not in the image)"""
    if isinstance(d.compu, Identical):
        return tc
    q, r = divmod(tc - d.compu.num0, d.compu.num1)
    return q if r == 0 else None


def effective_dtcs(d: DtcDop, _depth=0) -> List[Tuple[int, str]]:
    """(trouble code, short name) of every DTC a DTC-DOP describes (ISO 22901-1 7.3.6.4 / odxtools `DtcDop.dtcs` after
    `Database.refresh()`): its DTC children, its DTC-REF children, then - per LINKED-DTC-DOP, in document order - the DTCs
    of the linked DTC-DOP that are not NOT-INHERITED and whose short name is not present yet (local DTCs are not overwritten)"""
    if _depth > 8:
        raise ValueError("cyclic LINKED-DTC-DOPS")
    out = list(d.dtcs)
    for owner, name in (d.dtc_refs or []):
        out.append(next((c, n) for c, n in owner.dtcs if n == name))
    names = {n for _, n in out}
    for l in (d.linked or []):
        for c, n in effective_dtcs(l.dop, _depth + 1):
            if n in names or n in l.not_inherited:
                continue
            out.append((c, n))
            names.add(n)
    return out


def dtc_sources(d: DtcDop) -> List[str]:
    """how the DTC-DOP obtains its DTCs (feature names)"""
    f = []
    if d.dtc_refs:
        f.append("dtc-ref")
    if d.linked:
        f.append("linked-dtc-dop")
        if any(l.not_inherited for l in d.linked):
            f.append("not-inherited-dtc")
        if any(l.dop.linked for l in d.linked):
            f.append("linked-dtc-dop-chain")
    return f


@dataclass
class Struct:
    params: List["Param"]
    bytesize: Optional[int] = None
    tag = "struct"


@dataclass
class StaticField:
    count: int
    itemsize: int
    item: Struct
    tag = "static-field"


@dataclass
class DynLenField:
    offset: int
    countbytepos: int
    countbitpos: Optional[int]
    countdop: SimpleDop
    item: Struct
    tag = "dyn-length-field"


@dataclass
class EndMarkerField:
    term: Any                           # termination value (internal == physical; identical compu)
    termdop: SimpleDop
    item: Struct
    tag = "end-marker-field"


@dataclass
class EopField:
    item: Struct
    min: Optional[int] = None
    max: Optional[int] = None
    tag = "eop-field"


@dataclass
class MuxCase:
    name: str
    lower: int
    upper: int
    struct: Optional[Struct]


@dataclass
class Mux:
    bytepos: int
    switch_bytepos: int
    switch_bitpos: Optional[int]
    switch_dop: SimpleDop
    cases: List[MuxCase]
    default: Optional[Tuple[str, Optional[Struct]]] = None
    visible: bool = True
    tag = "mux"


@dataclass
class Env:
    name: str
    dtcs: List[int]
    all: bool
    struct: Struct


@dataclass
class EnvDataDesc:
    param: str                          # short name of the DTC parameter
    envs: List[Env]
    tag = "env-data-desc"


@dataclass
class TableRow:
    name: str
    key: Any
    struct: Optional[Struct] = None
    dop: Optional[SimpleDop] = None


@dataclass
class Table:
    keydop: SimpleDop
    rows: List[TableRow]
    tag = "table"


Dop = Union[SimpleDop, DtcDop, Struct, StaticField, DynLenField, EndMarkerField, EopField, Mux, EnvDataDesc]
FIELDS = (StaticField, DynLenField, EndMarkerField, EopField)


# ------------------------------------------------------------------ parameters
@dataclass
class Param:
    name: str
    type: str   # coded-const phys-const value reserved matching-request nrc-const length-key table-key table-struct system
    bytepos: Optional[int] = None
    bitpos: Optional[int] = None
    dct: Optional[Dct] = None           # coded-const, nrc-const
    value: Any = None                   # coded-const (internal), phys-const (physical)
    values: Optional[List[Any]] = None  # nrc-const
    dop: Optional[Dop] = None           # phys-const value length-key system
    default: Any = None                 # value
    bitlen: Optional[int] = None        # reserved
    reqpos: Optional[int] = None        # matching-request
    bytelen: Optional[int] = None       # matching-request
    table: Optional[Table] = None       # table-key
    row: Optional[str] = None           # table-key (static TABLE-ROW-REF)
    key: Optional[str] = None           # table-struct
    sysparam: Optional[str] = None      # system
    meta: dict = field(default_factory=dict, compare=False, repr=False)   # generator bookkeeping (not part of the description)


def coded_const(name, dct, value, **kw): return Param(name, "coded-const", dct=dct, value=value, **kw)
def phys_const(name, dop, value, **kw): return Param(name, "phys-const", dop=dop, value=value, **kw)
def value(name, dop, default=None, **kw): return Param(name, "value", dop=dop, default=default, **kw)
def reserved(name, bitlen, **kw): return Param(name, "reserved", bitlen=bitlen, **kw)
def matching_request(name, reqpos, bytelen, **kw): return Param(name, "matching-request", reqpos=reqpos, bytelen=bytelen, **kw)
def nrc_const(name, dct, values, **kw): return Param(name, "nrc-const", dct=dct, values=values, **kw)
def length_key(name, dop, **kw): return Param(name, "length-key", dop=dop, **kw)
def table_key(name, table, row=None, **kw): return Param(name, "table-key", table=table, row=row, **kw)
def table_struct(name, key, **kw): return Param(name, "table-struct", key=key, **kw)
def system(name, dop, sysparam, **kw): return Param(name, "system", dop=dop, sysparam=sysparam, **kw)


@dataclass
class Composite:
    name: str
    kind: str   # request | pos-response | neg-response | global-neg-response | structure
    params: List[Param]
    bytesize: Optional[int] = None      # only for kind == structure

    def as_struct(self) -> Struct:
        return Struct(self.params, self.bytesize)


@dataclass
class Service:
    """a DIAG-SERVICE: request / responses are referenced by the *name* of a composite of the layer (so that one
    response can be shared by several services, and the JSON form keeps the sharing)"""
    name: str
    request: str
    pos: List[str] = field(default_factory=list)
    neg: List[str] = field(default_factory=list)


@dataclass
class Layer:
    """one diagnostic layer: composites (unique names), services over them, global negative responses (by name)"""
    composites: List[Composite]
    services: List[Service]
    gneg: List[str] = field(default_factory=list)

    def comp(self, name) -> Composite:
        return next(c for c in self.composites if c.name == name)

    def users(self, name) -> List[str]:
        """services that reference the composite"""
        return [s.name for s in self.services if name == s.request or name in s.pos or name in s.neg]


def u8(bitlen=8, **kw) -> SimpleDop:
    """convenience: unsigned identical DOP"""
    return SimpleDop(Std("A_UINT32", bitlen, **kw), "A_UINT32", Identical())


def sid(v=0x22, name="sid") -> Param:
    return coded_const(name, Std("A_UINT32", 8), v)


# ------------------------------------------------------------------ traversal helpers
def sub_structs(dop):
    """direct child structures of a complex DOP (with a label)"""
    if isinstance(dop, Struct):
        return []
    if isinstance(dop, FIELDS):
        return [("item", dop.item)]
    if isinstance(dop, Mux):
        out = [("case:" + c.name, c.struct) for c in dop.cases if c.struct is not None]
        if dop.default and dop.default[1] is not None:
            out.append(("default", dop.default[1]))
        return out
    if isinstance(dop, EnvDataDesc):
        return [("env:" + e.name, e.struct) for e in dop.envs]
    return []


def walk_params(params, depth=0):
    """yield (param, depth) for every parameter of a parameter list, recursively"""
    for p in params:
        yield p, depth
        dops = []
        if p.dop is not None:
            dops.append(p.dop)
        if p.table is not None:
            for r in p.table.rows:
                if r.struct is not None:
                    dops.append(r.struct)
        for d in dops:
            if isinstance(d, Struct):
                yield from walk_params(d.params, depth + 1)
            else:
                for _, s in sub_structs(d):
                    yield from walk_params(s.params, depth + 1)


def max_depth(comp) -> int:
    return max([d for _, d in walk_params(comp.params)] or [0])


# ------------------------------------------------------------------ JSON (witness files)
import dataclasses as _dc
import struct as _struct


def to_json(x):
    """lossless JSON form of a description (or any nested value of it)"""
    if _dc.is_dataclass(x) and not isinstance(x, type):
        out = {"$c": type(x).__name__}
        for f in _dc.fields(x):
            v = getattr(x, f.name)
            if f.name == "meta":
                if v:
                    out["meta"] = to_json(v)
                continue
            if f.default is not _dc.MISSING and v is None and f.default is None:
                continue
            out[f.name] = to_json(v)
        return out
    if isinstance(x, bool) or x is None or isinstance(x, (int, str)):
        return x
    if isinstance(x, float):
        return {"$f": "%016x" % _struct.unpack(">Q", _struct.pack(">d", x))[0]}
    if isinstance(x, (bytes, bytearray)):
        return {"$b": bytes(x).hex()}
    if isinstance(x, tuple):
        return {"$t": [to_json(v) for v in x]}
    if isinstance(x, list):
        return [to_json(v) for v in x]
    if isinstance(x, dict):
        return {"$d": [[k, to_json(v)] for k, v in x.items()]}
    if type(x).__name__ == "DtcVal":
        return {"$dtc": x.code}
    raise TypeError(type(x))


def from_json(j):
    if isinstance(j, list):
        return [from_json(v) for v in j]
    if isinstance(j, dict):
        if "$c" in j:
            cls = globals()[j["$c"]]
            return cls(**{k: from_json(v) for k, v in j.items() if k != "$c"})
        if "$f" in j:
            return _struct.unpack(">d", bytes.fromhex(j["$f"]))[0]
        if "$b" in j:
            return bytes.fromhex(j["$b"])
        if "$t" in j:
            return tuple(from_json(v) for v in j["$t"])
        if "$d" in j:
            return {k: from_json(v) for k, v in j["$d"]}
        if "$dtc" in j:
            from .sexp import DtcVal
            return DtcVal(j["$dtc"])
    return j
