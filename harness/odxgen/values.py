"""values driven by a description: generation of valid (canonical) physical assignments, the value tree
decode is expected to return (`complete`), normalisation of what odxtools returns, exact compu emulation.

Python form of physical values (what is passed to odxtools): int | float | str | bytes for atomic DOPs,
dict for structures, list of dict for fields, (case name | switch-key int, dict) for multiplexers,
(row name, value) for TABLE-STRUCT, `DtcVal(code)` for DTC-DOPs (handed to odxtools as the integer code).
"""
import math
import struct
from fractions import Fraction

from . import desc as D
from .sexp import DtcVal

BIAS_LENGTHS = [1, 7, 8, 9, 15, 16, 17, 31, 32, 33, 63, 64]
CODEC = {"ISO-8859-1": "iso-8859-1", "ISO-8859-2": "iso-8859-2", "WINDOWS-1252": "cp1252", "UTF-8": "utf-8"}


#: C03: only canonical wire forms - mux cases are selected by name (switch key = lower limit, 0 for the default case)
CANON_KEYS = False


class Unsupported(Exception):
    """the description is outside what this helper covers (not an error of the code under test)"""


# ------------------------------------------------------------------ floats
def f32(x: float) -> float:
    return struct.unpack(">f", struct.pack(">f", x))[0]


def fbits(x: float) -> int:
    return struct.unpack(">Q", struct.pack(">d", x))[0]


# ------------------------------------------------------------------ string codecs
def str_codec(bt, enc, hl=True):
    if enc == "UTF-8" or (bt == "A_UTF8STRING" and enc is None):
        return "utf-8"
    if enc == "UCS-2" or (bt == "A_UNICODE2STRING" and enc is None):
        return "utf-16-be" if hl else "utf-16-le"
    if enc == "ISO-8859-1" or (bt == "A_ASCIISTRING" and enc is None):
        return "iso-8859-1"
    return CODEC[enc]


_ALPHA = {}
_ASTRAL = ["\U0001F600", "\U00010000", "\U0001D11E", "\U0010FFFF"]


def alphabet(codec):
    """characters a generated string may contain for a python codec (printable, XML-safe subset + a few specials)"""
    if codec not in _ALPHA:
        if codec in ("utf-8", "utf-16-be", "utf-16-le"):
            chars = [chr(c) for c in range(0x20, 0x7f)] + list("äöüßéñ€Ω中文ÿ߿ࠀ￮")
            if codec == "utf-8" or True:
                chars += ["\U0001F600", "\U00010000"]
        else:
            chars = []
            for b in range(0x20, 0x100):
                try:
                    ch = bytes([b]).decode(codec)
                except UnicodeDecodeError:
                    continue
                if ch.isprintable() or b >= 0xa0:
                    chars.append(ch)
        _ALPHA[codec] = chars
    return _ALPHA[codec]


def gen_string(rng, codec, nbytes, forbid=(), ascii_only=False, bmp_only=False):
    """a string whose encoding in `codec` has exactly nbytes bytes (None if impossible, e.g. odd UTF-16 length)"""
    unit = 2 if codec.startswith("utf-16") else 1
    if nbytes % unit:
        return None
    out, n = [], 0
    alpha = alphabet(codec)
    guard = 0
    while n < nbytes:
        guard += 1
        r = rng.random()
        if r < 0.08 and not ascii_only and not bmp_only and codec in ("utf-8", "utf-16-be", "utf-16-le"):
            # (round 8) characters outside the basic multilingual plane: ONE python character, two UTF-16 code units / four UTF-8 bytes --
            # whatever counts characters instead of code units is wrong exactly here
            ch = rng.choice(_ASTRAL)
        else:
            ch = rng.choice(alpha) if (r < 0.35 and not ascii_only) else chr(rng.randint(0x21, 0x7e))
        if bmp_only and ord(ch) > 0xffff:
            continue
        b = ch.encode(codec)
        if n + len(b) > nbytes or any(f in b for f in forbid):
            if guard > 200:
                ch = "x"
                b = ch.encode(codec)
                if n + len(b) > nbytes:
                    return None
            else:
                continue
        out.append(ch)
        n += len(b)
    return "".join(out)


# ------------------------------------------------------------------ integer representations (reference)
def int_range(bt, enc, n):
    """inclusive range of internal integers representable canonically in n bits"""
    if bt == "A_UINT32":
        return 0, (1 << n) - 1
    if enc in (None, "2C"):
        return -(1 << (n - 1)), (1 << (n - 1)) - 1
    return -((1 << (n - 1)) - 1), (1 << (n - 1)) - 1     # 1C, SM


def bcd_raw(v, spacing):
    r, s = 0, 0
    while v > 0:
        r |= (v % 10) << s
        s += spacing
        v //= 10
    return r


def raw_of_int(bt, enc, n, v):
    """raw unsigned n-bit pattern of an internal integer; None if not representable"""
    if bt == "A_UINT32":
        if v < 0:
            return None
        r = bcd_raw(v, 4) if enc == "BCD-P" else bcd_raw(v, 8) if enc == "BCD-UP" else v
        return r if r.bit_length() <= n else None
    lo, hi = int_range(bt, enc, n)
    if not lo <= v <= hi:
        return None
    if v >= 0:
        return v
    if enc in (None, "2C"):
        return (1 << n) + v
    if enc == "1C":
        return (1 << n) - 1 + v
    return (1 << (n - 1)) + (-v)       # SM


def int_of_raw(bt, enc, n, r):
    """(internal integer, canonical?) of a raw n-bit pattern"""
    if bt == "A_UINT32":
        if enc in ("BCD-P", "BCD-UP"):
            sp = 4 if enc == "BCD-P" else 8
            v, f, x, canon = 0, 1, r, True
            while x > 0:
                d = x & 0xf
                canon = canon and d <= 9 and (sp == 4 or (x & 0xf0) == 0)
                v += d * f
                f *= 10
                x >>= sp
            return v, canon
        return r, True
    sign = 1 << (n - 1)
    if r < sign:
        return r, True
    if enc in (None, "2C"):
        return r - (1 << n), True
    if enc == "1C":
        v = -((1 << n) - 1 - r)
        return v, v != 0
    v = -(r - sign)
    return v, v != 0


def boundary_ints(lo, hi, n):
    c = {0, 1, -1, 2, -2, lo, hi, lo + 1, hi - 1, 1 << (n - 1), (1 << (n - 1)) - 1, -(1 << (n - 1)), (1 << n) - 1, 0x55 & hi, 127, 128, 255, 256}
    return sorted(x for x in c if lo <= x <= hi)


# ------------------------------------------------------------------ exact compu emulation
def round_half_even(q: Fraction) -> int:
    f = math.floor(q)
    d = q - f
    if d > Fraction(1, 2) or (d == Fraction(1, 2) and f % 2 == 1):
        return f + 1
    return f


def _in_limits(cm, x):
    if cm.lower is not None:
        v, t = cm.lower
        if x < v or (t == "OPEN" and x == v):
            return False
    if cm.upper is not None:
        v, t = cm.upper
        if x > v or (t == "OPEN" and x == v):
            return False
    return True


def to_physical(dop, x):
    """exact internal -> physical for the modelled categories; None if x is not a valid internal value"""
    cm = dop.compu
    if isinstance(cm, D.Identical):
        return x
    if isinstance(cm, D.Linear):
        if not _in_limits(cm, x):
            return None
        q = (Fraction(cm.num0) + Fraction(cm.num1) * Fraction(x)) / Fraction(cm.den)
        if dop.phys in ("A_INT32", "A_UINT32"):
            return round_half_even(q)
        return float(q)
    if isinstance(cm, D.TextTable):
        hits = [t for lo, hi, t in cm.scales if lo <= x <= hi]
        return hits[0] if len(hits) == 1 else None
    raise Unsupported(type(cm).__name__)


def to_internal(dop, p):
    """exact physical -> internal (None if p has no inverse image)"""
    cm = dop.compu
    if isinstance(cm, D.Identical):
        return p
    if isinstance(cm, D.Linear):
        if cm.num1 == 0:
            return None
        q = (Fraction(p) * Fraction(cm.den) - Fraction(cm.num0)) / Fraction(cm.num1)
        if dop.dct.bt in ("A_INT32", "A_UINT32"):
            return round_half_even(q)
        return float(q)
    if isinstance(cm, D.TextTable):
        hits = [cm.inverse(lo, t) for lo, hi, t in cm.scales if t == p]
        return hits[0] if len(hits) == 1 else None
    raise Unsupported(type(cm).__name__)


def canonical_internal(dop, x) -> bool:
    """x is valid and phys->int->phys is the identity on it (no rounding tie / two inverse images)"""
    try:
        p = to_physical(dop, x)
        if p is None:
            return False
        cm = dop.compu
        if isinstance(cm, D.Linear) and dop.phys in ("A_INT32", "A_UINT32"):
            # odxtools derives the physical limits by converting (and rounding) the internal ones and keeps OPEN:
            # a value whose rounded image coincides with the rounded image of an excluded limit is not accepted
            # back (two internals, one of them the excluded limit, share a physical value) - not canonical
            for lim in (cm.lower, cm.upper):
                if lim is not None and lim[1] == "OPEN":
                    q = (Fraction(cm.num0) + Fraction(cm.num1) * Fraction(lim[0])) / Fraction(cm.den)
                    if round_half_even(q) == p:
                        return False
        return to_internal(dop, p) == x
    except Unsupported:
        return False


# ------------------------------------------------------------------ internal values for a diag coded type
def dct_int_bits(dct, ctx):
    """bit length used for an integer of this type (ParamLen: None = derived by the encoder)"""
    if isinstance(dct, D.Std):
        return dct.bitlen
    return None


def gen_internal(rng, dct, lenkey_bits=None):
    """an internal value that the diag coded type represents canonically"""
    bt = dct.bt
    hl = D.is_hl(dct)
    if isinstance(dct, D.Std):
        n = dct.bitlen
        if dct.condensed and dct.mask is not None:
            n_eff = bin(dct.mask).count("1")
        if bt in ("A_INT32", "A_UINT32"):
            if dct.enc in ("BCD-P", "BCD-UP"):
                sp = 4 if dct.enc == "BCD-P" else 8
                digits = n // sp
                top = (1 << (n % sp)) - 1 if n % sp else 0
                hi = 10 ** digits - 1 + min(top, 9) * 10 ** digits
                cands = [0, 1, 9, 10, 99, 100, hi, hi // 2, rng.randint(0, hi)]
                v = rng.choice([c for c in cands if 0 <= c <= hi])
                while raw_of_int(bt, dct.enc, n, v) is None:
                    v //= 2
            else:
                lo, hi = int_range(bt, dct.enc, n)
                v = rng.choice(boundary_ints(lo, hi, n)) if rng.random() < 0.6 else rng.randint(lo, hi)
            if dct.mask is not None:
                if v < 0:
                    v = -v
                v &= dct.mask
                lo, hi = int_range(bt, dct.enc, n)
                if v > hi:
                    v &= hi
            return v
        if bt == "A_FLOAT32":
            return rng.choice([0.0, -0.0, 1.0, -1.0, 0.5, 3.4028234663852886e38, 1.401298464324817e-45, float("inf"), float("-inf"),
                               f32(rng.uniform(-1e6, 1e6)), f32(rng.gauss(0, 1))])
        if bt == "A_FLOAT64":
            return rng.choice([0.0, -0.0, 1.0, -1.0, 0.1, 1.7976931348623157e308, 5e-324, float("inf"), float("-inf"),
                               rng.uniform(-1e9, 1e9), rng.gauss(0, 1), float(rng.getrandbits(53))])
        nbytes = n // 8
        if bt == "A_BYTEFIELD":
            b = bytes(rng.getrandbits(8) for _ in range(nbytes))
            if dct.mask is not None:
                b = (int.from_bytes(b, "big") & dct.mask).to_bytes(nbytes, "big") if nbytes else b
            return b
        s = gen_string(rng, str_codec(bt, dct.enc, hl), nbytes)
        if s is None:
            raise Unsupported("string length")
        return s
    if isinstance(dct, D.MinMax):
        unit = 2 if bt == "A_UNICODE2STRING" else 1
        top = dct.max if dct.max is not None else dct.min + 6
        lens = [x for x in range(dct.min, top + 1) if x % unit == 0]
        if not lens:
            raise Unsupported("min-max length")
        L = rng.choice([lens[0], lens[-1], rng.choice(lens)])
        forbid = {"ZERO": [b"\x00"], "HEX-FF": [b"\xff"], "END-OF-PDU": []}[dct.term]
        if bt == "A_BYTEFIELD":
            bad = {"ZERO": 0, "HEX-FF": 0xff}.get(dct.term)
            return bytes(rng.choice([x for x in (rng.getrandbits(8), 1, 0x7f, 0x80, 0xfe) if x != bad]) for _ in range(L))
        codec = str_codec(bt, dct.enc, hl)
        if unit == 2:
            # a terminator 0000 / ffff cannot occur as an aligned code unit of the generated alphabet
            forbid = []
        s = gen_string(rng, codec, L, forbid=forbid)
        if s is None:
            raise Unsupported("string length")
        return s
    if isinstance(dct, D.Leading):
        maxlen = min((1 << dct.bitlen) - 1, 6)
        if bt == "A_BYTEFIELD":
            return bytes(rng.getrandbits(8) for _ in range(rng.randint(0, maxlen)))
        if bt == "A_UNICODE2STRING":
            s = gen_string(rng, "utf-16-le", 2 * rng.randint(0, maxlen // 2))
        elif bt == "A_UTF8STRING":
            s = gen_string(rng, "utf-8", rng.randint(0, maxlen))
        else:
            s = gen_string(rng, "iso-8859-1", rng.randint(0, maxlen), ascii_only=True)
        if s is None:
            raise Unsupported("string length")
        return s
    if isinstance(dct, D.ParamLen):
        if bt in ("A_INT32", "A_UINT32"):
            n = rng.choice([8, 8, 16, 24, 32])
            lo, hi = int_range(bt, dct.enc, n)
            if dct.enc in ("BCD-P", "BCD-UP"):
                return rng.randint(0, 99)
            return rng.choice(boundary_ints(lo, hi, n)) if rng.random() < 0.6 else rng.randint(lo, hi)
        if bt == "A_FLOAT32":
            return f32(rng.uniform(-100, 100))
        if bt == "A_FLOAT64":
            return rng.uniform(-100, 100)
        if bt == "A_BYTEFIELD":
            return bytes(rng.getrandbits(8) for _ in range(rng.randint(0, 5)))
        if bt == "A_UNICODE2STRING":
            s = gen_string(rng, "utf-16-le", 2 * rng.randint(0, 3), bmp_only=True)
        else:
            s = gen_string(rng, "iso-8859-1", rng.randint(0, 5), ascii_only=True)
        return s
    raise TypeError(dct)


def derived_length_key(dct, internal):
    """bit length the encoder derives for a PARAM-LENGTH-INFO object when the key is not supplied"""
    bt = dct.bt
    if bt in ("A_BYTEFIELD", "A_ASCIISTRING", "A_UTF8STRING"):
        return 8 * len(internal)
    if bt == "A_UNICODE2STRING":
        return 16 * len(internal)
    if bt in ("A_INT32", "A_UINT32"):
        n = int(internal).bit_length() + (1 if bt == "A_INT32" else 0)
        return (n + 7) // 8 * 8
    return 32 if bt == "A_FLOAT32" else 64


# ------------------------------------------------------------------ physical values for DOPs
def gen_simple(rng, dop, tries=40):
    """a canonical physical value of a simple DOP (and its internal value)"""
    for _ in range(tries):
        x = gen_internal(rng, dop.dct)
        cm = dop.compu
        if isinstance(cm, D.Linear):
            if isinstance(x, int) and not _in_limits(cm, x):
                lo = cm.lower[0] + (1 if cm.lower[1] == "OPEN" else 0) if cm.lower else None
                hi = cm.upper[0] - (1 if cm.upper[1] == "OPEN" else 0) if cm.upper else None
                r = int_range(dop.dct.bt, dop.dct.enc, dop.dct.bitlen) if isinstance(dop.dct, D.Std) else (-100, 100)
                lo = max(r[0], lo) if lo is not None else r[0]
                hi = min(r[1], hi) if hi is not None else r[1]
                if lo > hi:
                    raise Unsupported("empty compu domain")
                x = rng.choice([lo, hi, rng.randint(lo, hi)])
        elif isinstance(cm, D.TextTable):
            lo, hi, t = rng.choice(cm.scales)
            x = cm.inverse(lo, t)
        elif isinstance(cm, D.OtherCompu):
            raise Unsupported("compu category " + cm.category)
        if canonical_internal(dop, x):
            p = to_physical(dop, x)
            if dop.phys == "A_FLOAT32" and isinstance(p, float) and f32(p) != p and not math.isnan(p):
                continue
            if dop.phys == "A_UINT32" and isinstance(p, int) and p < 0 and False:
                continue
            return p, x
    raise Unsupported("no canonical value found")


def _with_duplicates(rng, items):
    """field values in which items compare equal (`==`) or are the very same object: in 30 % of the lists with >= 2 items one item is
    replaced by (a copy of / the identical object as) another one — half of the time an earlier item becomes equal to the LAST one.
    (Code that finds "the last item" by value instead of by position is only wrong on such lists.)"""
    import copy
    if len(items) >= 2 and rng.random() < 0.3:
        if rng.random() < 0.5:
            src, dst = len(items) - 1, rng.randrange(len(items) - 1)
        else:
            src, dst = rng.sample(range(len(items)), 2)
        items[dst] = items[src] if rng.random() < 0.5 else copy.deepcopy(items[src])
    return items


def gen_dop_value(rng, dop, siblings=None, sib_params=None):
    if isinstance(dop, D.SimpleDop):
        return gen_simple(rng, dop)[0]
    if isinstance(dop, D.DtcDop):
        return DtcVal(rng.choice(D.effective_dtcs(dop))[0])
    if isinstance(dop, D.Struct):
        return gen_params_value(rng, dop.params)
    if isinstance(dop, D.StaticField):
        return _with_duplicates(rng, [gen_params_value(rng, dop.item.params) for _ in range(dop.count)])
    if isinstance(dop, D.DynLenField):
        p, x = None, None
        hi = 3
        if isinstance(dop.countdop.dct, D.Std):
            hi = min(3, int_range(dop.countdop.dct.bt, dop.countdop.dct.enc, dop.countdop.dct.bitlen)[1])
        return _with_duplicates(rng, [gen_params_value(rng, dop.item.params) for _ in range(rng.randint(0, hi))])
    if isinstance(dop, D.EndMarkerField):
        out = []
        for _ in range(rng.randint(0, 3)):
            for _t in range(20):
                it = gen_params_value(rng, dop.item.params)
                first = dop.item.params[0]
                if first.type in ("coded-const", "phys-const") or it.get(first.name, first.default) != dop.term:
                    break
            else:
                raise Unsupported("end marker collision")
            out.append(it)
        return _with_duplicates(rng, out)
    if isinstance(dop, D.EopField):
        lo = dop.min or 0
        hi = dop.max if dop.max is not None else lo + 3
        n = rng.randint(lo, min(hi, lo + 3))
        if dop.max is not None and rng.random() < 0.25:
            # more items than MAX-NUMBER-OF-ITEMS: whatever the encoder accepts must decode back (an encoder that ignores the limit next to
            # a decoder that honours it is a round-trip failure)
            n = dop.max + rng.randint(1, 2)
        return _with_duplicates(rng, [gen_params_value(rng, dop.item.params) for _ in range(n)])
    if isinstance(dop, D.Mux):
        choices = [("case", c) for c in dop.cases]
        if dop.default is not None:
            choices.append(("default", dop.default))
        kind, c = rng.choice(choices)
        if kind == "case":
            v = gen_params_value(rng, c.struct.params) if c.struct is not None else {}
            if rng.random() < 0.3 and not CANON_KEYS:
                return (rng.randint(c.lower, c.upper), v)
            return (c.name, v)
        name, st = c
        v = gen_params_value(rng, st.params) if st is not None else {}
        covered = lambda k: any(cc.lower <= k <= cc.upper for cc in dop.cases)
        # the default case selected by its short name (or by None): the encoder has to choose a switch key that no
        # regular case claims (odxtools: the smallest non-negative one), whatever the declaration order of the cases
        if CANON_KEYS:
            return (name, v)
        r = rng.random()
        if r < 0.4:
            return (name, v)
        if r < 0.5:
            return (None, v)
        lo, hi = int_range(dop.switch_dop.dct.bt, dop.switch_dop.dct.enc, dop.switch_dop.dct.bitlen)
        free = [k for k in list(range(max(lo, 0), min(hi, 300) + 1)) if not covered(k)]
        if not free:
            raise Unsupported("no free switch key for the default case")
        return (rng.choice(free), v)
    if isinstance(dop, D.EnvDataDesc):
        code = env_dtc_code(dop, siblings or {}, sib_params or [])
        out = {}
        for e in dop.envs:
            if e.all:
                out.update(gen_params_value(rng, e.struct.params))
                break
        for e in dop.envs:
            if code in e.dtcs:
                out.update(gen_params_value(rng, e.struct.params))
                break
        return out
    raise TypeError(dop)


def env_dtc_code(edd, siblings, sib_params):
    """numerical DTC the environment data description sees (value of the referenced sibling parameter)"""
    for p in sib_params:
        if p.name == edd.param:
            if p.type == "coded-const":
                return p.value
            v = siblings.get(p.name)
            if v is None:
                v = p.value if p.type == "phys-const" else p.default
            if isinstance(v, DtcVal):
                return v.code
            if isinstance(p.dop, D.SimpleDop):
                return to_internal(p.dop, v)
            return v
    raise Unsupported("env-data-desc without DTC parameter")


def key_physical(kd, bits):
    """physical value of a LENGTH-KEY (= the bit length of its user) as the key DOP can carry it: bits -> internal -> physical
    (identical compu: bits itself; LINEAR: the nearest expressible length); None if there is no inverse image"""
    try:
        x = to_internal(kd, bits)
        if x is None:
            return None
        if isinstance(kd.dct, D.Std) and raw_of_int(kd.dct.bt, kd.dct.enc, kd.dct.bitlen, x) is None:
            return None
        return to_physical(kd, x)
    except (Unsupported, ZeroDivisionError, OverflowError, TypeError, ValueError):
        return None


def users_of_key(params, key):
    return [p for p in params if p.dop is not None and isinstance(p.dop, D.SimpleDop) and isinstance(p.dop.dct, D.ParamLen) and p.dop.dct.key == key]


def gen_params_value(rng, params):
    """a valid assignment for a parameter list (dict short name -> physical value)"""
    out = {}
    for p in params:
        t = p.type
        if t == "coded-const":
            if rng.random() < 0.1:
                out[p.name] = p.value
        elif t == "phys-const":
            if rng.random() < 0.1:
                out[p.name] = p.value
        elif t == "value":
            if p.default is not None and rng.random() < 0.4:
                continue
            forced = p.meta.get("values")
            if forced:
                out[p.name] = rng.choice(forced)
            else:
                out[p.name] = gen_dop_value(rng, p.dop, out, params)
        elif t == "system":
            out[p.name] = gen_dop_value(rng, p.dop)
        elif t == "table-struct":
            key = next(k for k in params if k.name == p.key)
            rows = [r for r in key.table.rows if key.row is None or r.name == key.row]
            r = rng.choice(rows)
            if r.struct is not None:
                v = gen_params_value(rng, r.struct.params)
            elif r.dop is not None:
                v = gen_dop_value(rng, r.dop)
            else:
                v = None
            out[p.name] = (r.name, v)
    # keys: supplied explicitly (consistent with their users) or left to be derived
    for p in params:
        if p.type == "length-key":
            users = users_of_key(params, p.name)
            if users:
                u = users[0]
                uv = out.get(u.name, u.default)
                bits = derived_length_key(u.dop.dct, to_internal(u.dop, uv))
                if key_physical(p.dop, bits) != bits:
                    raise Unsupported("the length key cannot express the bit length of this value")
                if rng.random() < 0.4:
                    out[p.name] = bits
            else:
                out[p.name] = gen_dop_value(rng, p.dop)
        elif p.type == "table-key":
            users = [u for u in params if u.type == "table-struct" and u.key == p.name]
            if users:
                if rng.random() < 0.3:
                    out[p.name] = out[users[0].name][0]
            elif p.row is None:
                out[p.name] = rng.choice(p.table.rows).name
            elif rng.random() < 0.5:
                out[p.name] = p.row
    return out


def gen_value(rng, comp):
    """a valid physical value assignment for a composite (request/response/structure)"""
    return gen_params_value(rng, comp.params)


def gen_trigger(rng, comp):
    """a triggering request long enough for all MATCHING-REQUEST-PARAMs (None if there is none)"""
    need = 0
    for p, _ in D.walk_params(comp.params):
        if p.type == "matching-request":
            need = max(need, p.reqpos + p.bytelen)
    if need == 0:
        return None if rng.random() < 0.7 else bytes(rng.getrandbits(8) for _ in range(rng.randint(0, 3)))
    return bytes(rng.getrandbits(8) for _ in range(need + rng.randint(0, 2)))


# ------------------------------------------------------------------ expected decode result
def complete_dop(dop, v, siblings=None, sib_params=None, trig=None):
    if isinstance(dop, D.SimpleDop):
        if dop.phys in ("A_FLOAT32", "A_FLOAT64") and isinstance(v, int):
            v = float(v)
        if dop.phys == "A_FLOAT32" and isinstance(v, float):
            v = f32(v)
        return v
    if isinstance(dop, D.DtcDop):
        return v if isinstance(v, DtcVal) else DtcVal(v)
    if isinstance(dop, D.Struct):
        return complete_params(dop.params, v, trig)
    if isinstance(dop, D.FIELDS):
        return [complete_params(dop.item.params, x, trig) for x in v]
    if isinstance(dop, D.Mux):
        sel, cv = v
        if sel is None:
            name, st = dop.default
        elif isinstance(sel, int):
            hit = next((c for c in dop.cases if c.lower <= sel <= c.upper), None)
            name, st = (hit.name, hit.struct) if hit else dop.default
        else:
            hit = next((c for c in dop.cases if c.name == sel), None)
            name, st = (hit.name, hit.struct) if hit else dop.default
        return (name, complete_params(st.params, cv, trig) if st is not None else {})
    if isinstance(dop, D.EnvDataDesc):
        code = env_dtc_code(dop, siblings or {}, sib_params or [])
        out = {}
        for e in dop.envs:
            if e.all:
                out.update(complete_params(e.struct.params, {k: x for k, x in v.items() if any(q.name == k for q in e.struct.params)}, trig))
                break
        for e in dop.envs:
            if code in e.dtcs:
                out.update(complete_params(e.struct.params, {k: x for k, x in v.items() if any(q.name == k for q in e.struct.params)}, trig))
                break
        return out
    raise TypeError(dop)


def complete_params(params, value, trig=None):
    out = {}
    for p in params:
        t = p.type
        if t == "coded-const":
            out[p.name] = p.value
        elif t == "phys-const":
            out[p.name] = complete_dop(p.dop, p.value)
        elif t == "value":
            v = value.get(p.name, p.default)
            out[p.name] = complete_dop(p.dop, v, {**value, **out}, params, trig)
        elif t == "system":
            out[p.name] = complete_dop(p.dop, value[p.name])
        elif t == "reserved":
            out[p.name] = 0
        elif t == "matching-request":
            out[p.name] = int.from_bytes(trig[p.reqpos:p.reqpos + p.bytelen], "little")
        elif t == "nrc-const":
            ov = p.meta.get("overlay")
            if ov is not None:
                q = next(x for x in params if x.name == ov)
                out[p.name] = to_internal(q.dop, value.get(q.name, q.default))
            else:
                out[p.name] = 0
        elif t == "length-key":
            if p.name in value:
                out[p.name] = value[p.name]
            else:
                u = users_of_key(params, p.name)[0]
                out[p.name] = key_physical(p.dop, derived_length_key(u.dop.dct, to_internal(u.dop, value.get(u.name, u.default))))
        elif t == "table-key":
            if p.row is not None:
                out[p.name] = p.row
            elif p.name in value:
                out[p.name] = value[p.name]
            else:
                u = next(u for u in params if u.type == "table-struct" and u.key == p.name)
                out[p.name] = value[u.name][0]
        elif t == "table-struct":
            rn, rv = value[p.name]
            key = next(k for k in params if k.name == p.key)
            r = next(r for r in key.table.rows if r.name == rn)
            if r.struct is not None:
                out[p.name] = (rn, complete_params(r.struct.params, rv, trig))
            elif r.dop is not None:
                out[p.name] = (rn, complete_dop(r.dop, rv))
            else:
                out[p.name] = (rn, None)
    return out


def complete(comp, value, trig=None):
    """the value tree decode is expected to return for encode(value): defaults, constants, request echo, keys, derived"""
    return complete_params(comp.params, value, trig)


# ------------------------------------------------------------------ normalisation / conversion
def to_impl(v):
    """generated value tree -> what is handed to odxtools (DtcVal -> int code)"""
    if isinstance(v, DtcVal):
        return v.code
    if isinstance(v, dict):
        return {k: to_impl(x) for k, x in v.items()}
    if isinstance(v, tuple):
        return tuple(to_impl(x) for x in v)
    if isinstance(v, list):
        return [to_impl(x) for x in v]
    return v


def norm(v):
    """comparable form of a value tree (expected or returned by odxtools): ints/str exact, bytes as bytes,
    floats by IEEE-754 binary64 bits, DTC objects by trouble code, tuples/lists/dicts structurally"""
    if isinstance(v, bool):
        return ("bool", v)
    if isinstance(v, float):
        return ("f", fbits(v))
    if isinstance(v, (bytes, bytearray)):
        return ("b", bytes(v).hex())
    if isinstance(v, DtcVal):
        return ("dtc", v.code)
    if type(v).__name__ == "DiagnosticTroubleCode":
        return ("dtc", v.trouble_code)
    if isinstance(v, dict):
        return {k: norm(x) for k, x in v.items()}
    if isinstance(v, tuple):
        return ("t",) + tuple(norm(x) for x in v)
    if isinstance(v, list):
        return [norm(x) for x in v]
    return v


def jsonable(v):
    """JSON form of a value tree for witnesses (lossless enough to replay: see from_jsonable)"""
    if isinstance(v, float):
        return {"$f": "%016x" % fbits(v)}
    if isinstance(v, (bytes, bytearray)):
        return {"$b": bytes(v).hex()}
    if isinstance(v, DtcVal):
        return {"$dtc": v.code}
    if type(v).__name__ == "DiagnosticTroubleCode":
        return {"$dtc": v.trouble_code}
    if isinstance(v, dict):
        return {"$d": [[k, jsonable(x)] for k, x in v.items()]}
    if isinstance(v, tuple):
        return {"$t": [jsonable(x) for x in v]}
    if isinstance(v, list):
        return [jsonable(x) for x in v]
    return v


def from_jsonable(j):
    if isinstance(j, dict):
        if "$f" in j:
            return struct.unpack(">d", bytes.fromhex(j["$f"]))[0]
        if "$b" in j:
            return bytes.fromhex(j["$b"])
        if "$dtc" in j:
            return DtcVal(j["$dtc"])
        if "$d" in j:
            return {k: from_jsonable(x) for k, x in j["$d"]}
        if "$t" in j:
            return tuple(from_jsonable(x) for x in j["$t"])
    if isinstance(j, list):
        return [from_jsonable(x) for x in j]
    return j


def boundary_values(rng, dop, k_random=2, limit=14):
    """deterministic boundary values (+ a few random ones) of a simple DOP with a STANDARD-LENGTH type"""
    dct = dop.dct
    out = []
    if isinstance(dct, D.Std) and dct.bt in ("A_INT32", "A_UINT32"):
        n = dct.bitlen
        if dct.enc in ("BCD-P", "BCD-UP"):
            sp = 4 if dct.enc == "BCD-P" else 8
            digits = max(n // sp, 0)
            hi = 10 ** digits - 1 + (min((1 << (n % sp)) - 1, 9) * 10 ** digits if n % sp else 0)
            cands = [0, 1, 9, 10, 19, 99, 100, hi, hi - 1, hi // 2] + [rng.randint(0, hi) for _ in range(k_random)]
        else:
            lo, hi = int_range(dct.bt, dct.enc, n)
            cands = boundary_ints(lo, hi, n) + [rng.randint(lo, hi) for _ in range(k_random)]
        seen = set()
        for x in cands:
            if x in seen or raw_of_int(dct.bt, dct.enc, n, x) is None:
                continue
            seen.add(x)
            if dct.mask is not None:
                x &= dct.mask
            if canonical_internal(dop, x):
                out.append(to_physical(dop, x))
        return out[:limit]
    for _ in range(limit):
        try:
            out.append(gen_simple(rng, dop)[0])
        except Unsupported:
            break
    return out
