"""ODX-XML emission for descriptions (desc.py) and loading through the real odxtools loader."""
import zlib
from xml.sax.saxutils import escape
from xml.etree import ElementTree as ET

from . import desc as D

XSI = 'xmlns:xsi="http://www.w3.org/2001/XMLSchema-instance"'
KIND_TAG = {"request": "REQUEST", "pos-response": "POS-RESPONSE", "neg-response": "NEG-RESPONSE",
            "global-neg-response": "GLOBAL-NEG-RESPONSE"}


def val_str(v) -> str:
    """text form of an atomic value as the ODX parser (`DataType.from_string`) reads it back"""
    if isinstance(v, bool):
        return "1" if v else "0"
    if isinstance(v, int):
        return str(v)
    if isinstance(v, float):
        return repr(v)
    if isinstance(v, (bytes, bytearray)):
        return bytes(v).hex()
    return escape(str(v))


def _b(x, salt=""):
    """xsd:boolean has two lexical forms per value: true/1 and false/0.  The spelling is a deterministic function of the
    emitted content (`salt`: enclosing object + the description of the attribute's owner), so that a witness replays with
    the same document and both the accelerated and the pure-backend interpreter of C02 see the same XML."""
    numeric = zlib.crc32(salt.encode("utf-8", "replace")) & 1 if salt else 0
    return ("1" if x else "0") if numeric else ("true" if x else "false")


def dct_xml(dct, ctx) -> str:
    a = f' BASE-DATA-TYPE="{dct.bt}"'
    if dct.enc is not None:
        a += f' BASE-TYPE-ENCODING="{dct.enc}"'
    salt = f"{ctx}|{dct!r}"
    if dct.hl is not None:
        a += f' IS-HIGHLOW-BYTE-ORDER="{_b(dct.hl, salt + "|hl")}"'
    if isinstance(dct, D.Std):
        if dct.condensed is not None:
            a += f' IS-CONDENSED="{_b(dct.condensed, salt + "|condensed")}"'
        body = f"<BIT-LENGTH>{dct.bitlen}</BIT-LENGTH>"
        if dct.mask is not None:
            body += "<BIT-MASK>%0*X</BIT-MASK>" % (max(2, (dct.mask.bit_length() + 7) // 8 * 2), dct.mask)
        return f'<DIAG-CODED-TYPE{a} xsi:type="STANDARD-LENGTH-TYPE">{body}</DIAG-CODED-TYPE>'
    if isinstance(dct, D.MinMax):
        body = (f"<MAX-LENGTH>{dct.max}</MAX-LENGTH>" if dct.max is not None else "") + f"<MIN-LENGTH>{dct.min}</MIN-LENGTH>"
        return f'<DIAG-CODED-TYPE{a} TERMINATION="{dct.term}" xsi:type="MIN-MAX-LENGTH-TYPE">{body}</DIAG-CODED-TYPE>'
    if isinstance(dct, D.Leading):
        return f'<DIAG-CODED-TYPE{a} xsi:type="LEADING-LENGTH-INFO-TYPE"><BIT-LENGTH>{dct.bitlen}</BIT-LENGTH></DIAG-CODED-TYPE>'
    if isinstance(dct, D.ParamLen):
        return (f'<DIAG-CODED-TYPE{a} xsi:type="PARAM-LENGTH-INFO-TYPE"><LENGTH-KEY-REF ID-REF="{ctx}.{dct.key}"/>'
                f'</DIAG-CODED-TYPE>')
    raise TypeError(dct)


def _limit(tag, lim):
    if lim is None:
        return ""
    v, t = lim
    a = f' INTERVAL-TYPE="{t}"' if t is not None else ""          # attribute absent = CLOSED
    return f'<{tag}{a}>{"" if v is None else val_str(v)}</{tag}>'  # no value: INFINITE limits


def phys_xml(d) -> str:
    """PHYSICAL-TYPE of a simple DOP with its optional display hints (DISPLAY-RADIX attribute, PRECISION child)"""
    radix = f' DISPLAY-RADIX="{d.radix}"' if getattr(d, "radix", None) is not None else ""
    prec = getattr(d, "precision", None)
    if prec is None:
        return f'<PHYSICAL-TYPE BASE-DATA-TYPE="{d.phys}"{radix}/>'
    return f'<PHYSICAL-TYPE BASE-DATA-TYPE="{d.phys}"{radix}><PRECISION>{prec}</PRECISION></PHYSICAL-TYPE>'


def compu_xml(cm) -> str:
    if isinstance(cm, D.Identical):
        return "<COMPU-METHOD><CATEGORY>IDENTICAL</CATEGORY></COMPU-METHOD>"
    if isinstance(cm, D.Linear):
        den = f"<COMPU-DENOMINATOR><V>{val_str(cm.den)}</V></COMPU-DENOMINATOR>" if cm.den != 1 else ""
        return ("<COMPU-METHOD><CATEGORY>LINEAR</CATEGORY><COMPU-INTERNAL-TO-PHYS><COMPU-SCALES><COMPU-SCALE>"
                + _limit("LOWER-LIMIT", cm.lower) + _limit("UPPER-LIMIT", cm.upper) +
                f"<COMPU-RATIONAL-COEFFS><COMPU-NUMERATOR><V>{val_str(cm.num0)}</V><V>{val_str(cm.num1)}</V></COMPU-NUMERATOR>{den}"
                "</COMPU-RATIONAL-COEFFS></COMPU-SCALE></COMPU-SCALES></COMPU-INTERNAL-TO-PHYS></COMPU-METHOD>")
    if isinstance(cm, D.TextTable):
        sc = "".join(f"<COMPU-SCALE><LOWER-LIMIT>{lo}</LOWER-LIMIT><UPPER-LIMIT>{hi}</UPPER-LIMIT>"
                     + (f"<COMPU-INVERSE-VALUE><V>{cm.inv[t]}</V></COMPU-INVERSE-VALUE>" if cm.inv and t in cm.inv else "") +
                     f"<COMPU-CONST><VT>{escape(t)}</VT></COMPU-CONST></COMPU-SCALE>" for lo, hi, t in cm.scales)
        return ("<COMPU-METHOD><CATEGORY>TEXTTABLE</CATEGORY><COMPU-INTERNAL-TO-PHYS><COMPU-SCALES>" + sc +
                "</COMPU-SCALES></COMPU-INTERNAL-TO-PHYS></COMPU-METHOD>")
    if isinstance(cm, D.OtherCompu):
        def scales_xml(scales):
            sc = ""
            for s in scales:
                x = "<COMPU-SCALE>" + _limit("LOWER-LIMIT", s.get("lower")) + _limit("UPPER-LIMIT", s.get("upper"))
                if s.get("inv") is not None:
                    x += f"<COMPU-INVERSE-VALUE><V>{val_str(s['inv'])}</V></COMPU-INVERSE-VALUE>"
                if s.get("const") is not None:
                    x += (f"<COMPU-CONST><VT>{escape(s['const'])}</VT></COMPU-CONST>" if isinstance(s["const"], str) else
                          f"<COMPU-CONST><V>{val_str(s['const'])}</V></COMPU-CONST>")
                if s.get("num") is not None:
                    x += ("<COMPU-RATIONAL-COEFFS><COMPU-NUMERATOR>" + "".join(f"<V>{val_str(v)}</V>" for v in s["num"]) + "</COMPU-NUMERATOR>"
                          + ("<COMPU-DENOMINATOR>" + "".join(f"<V>{val_str(v)}</V>" for v in s["den"]) + "</COMPU-DENOMINATOR>" if s.get("den") else "")
                          + "</COMPU-RATIONAL-COEFFS>")
                sc += x + "</COMPU-SCALE>"
            return sc
        inv = ""
        if cm.inv_scales:
            inv = f"<COMPU-PHYS-TO-INTERNAL><COMPU-SCALES>{scales_xml(cm.inv_scales)}</COMPU-SCALES></COMPU-PHYS-TO-INTERNAL>"
        dv = ""
        if cm.default is not None:
            dv = (f"<COMPU-DEFAULT-VALUE><VT>{escape(cm.default)}</VT></COMPU-DEFAULT-VALUE>" if isinstance(cm.default, str) else
                  f"<COMPU-DEFAULT-VALUE><V>{val_str(cm.default)}</V></COMPU-DEFAULT-VALUE>")
        return (f"<COMPU-METHOD><CATEGORY>{cm.category}</CATEGORY><COMPU-INTERNAL-TO-PHYS><COMPU-SCALES>{scales_xml(cm.scales)}"
                f"</COMPU-SCALES>{dv}</COMPU-INTERNAL-TO-PHYS>{inv}</COMPU-METHOD>")
    raise TypeError(cm)


class Emitter:
    """collects the DIAG-DATA-DICTIONARY-SPEC sections while the composites are walked"""
    SECTIONS = [("DTC-DOPS", "dtc"), ("ENV-DATA-DESCS", "edd"), ("DATA-OBJECT-PROPS", "dop"), ("STRUCTURES", "struct"),
                ("STATIC-FIELDS", "sf"), ("DYNAMIC-LENGTH-FIELDS", "dlf"), ("DYNAMIC-ENDMARKER-FIELDS", "demf"),
                ("END-OF-PDU-FIELDS", "eopf"), ("MUXS", "mux"), ("ENV-DATAS", "ed"), ("TABLES", "table")]

    def __init__(self):
        self.sec = {k: [] for _, k in self.SECTIONS}
        self.n = 0
        self.memo = {}
        self.ids = {}      # id(desc node) -> ODX id (for load())

    def new_id(self, prefix):
        self.n += 1
        return f"{prefix}{self.n}"

    # ---- parameters
    def param_xml(self, p, ctx) -> str:
        pos = ""
        if p.bytepos is not None:
            pos += f"<BYTE-POSITION>{p.bytepos}</BYTE-POSITION>"
        if p.bitpos is not None:
            pos += f"<BIT-POSITION>{p.bitpos}</BIT-POSITION>"
        head = f"<SHORT-NAME>{p.name}</SHORT-NAME>{pos}"
        t = p.type
        if t == "coded-const":
            return f'<PARAM xsi:type="CODED-CONST">{head}<CODED-VALUE>{val_str(p.value)}</CODED-VALUE>{dct_xml(p.dct, ctx)}</PARAM>'
        if t == "nrc-const":
            vs = "".join(f"<CODED-VALUE>{val_str(v)}</CODED-VALUE>" for v in p.values)
            return f'<PARAM xsi:type="NRC-CONST">{head}<CODED-VALUES>{vs}</CODED-VALUES>{dct_xml(p.dct, ctx)}</PARAM>'
        if t == "reserved":
            return f'<PARAM xsi:type="RESERVED">{head}<BIT-LENGTH>{p.bitlen}</BIT-LENGTH></PARAM>'
        if t == "matching-request":
            return (f'<PARAM xsi:type="MATCHING-REQUEST-PARAM">{head}<REQUEST-BYTE-POS>{p.reqpos}</REQUEST-BYTE-POS>'
                    f'<BYTE-LENGTH>{p.bytelen}</BYTE-LENGTH></PARAM>')
        if t == "table-key":
            tid = self.table(p.table, ctx)
            ref = f'<TABLE-REF ID-REF="{tid}"/>' if p.row is None else f'<TABLE-ROW-REF ID-REF="{tid}.{p.row}"/>'
            return f'<PARAM xsi:type="TABLE-KEY" ID="{ctx}.{p.name}">{head}{ref}</PARAM>'
        if t == "table-struct":
            return f'<PARAM xsi:type="TABLE-STRUCT">{head}<TABLE-KEY-REF ID-REF="{ctx}.{p.key}"/></PARAM>'
        ref = f'<DOP-REF ID-REF="{self.dop(p.dop, ctx)}"/>'
        if t == "value":
            d = f"<PHYSICAL-DEFAULT-VALUE>{val_str(p.default)}</PHYSICAL-DEFAULT-VALUE>" if p.default is not None else ""
            return f'<PARAM xsi:type="VALUE">{head}{d}{ref}</PARAM>'
        if t == "phys-const":
            return f'<PARAM xsi:type="PHYS-CONST">{head}<PHYS-CONSTANT-VALUE>{val_str(p.value)}</PHYS-CONSTANT-VALUE>{ref}</PARAM>'
        if t == "length-key":
            return f'<PARAM xsi:type="LENGTH-KEY" ID="{ctx}.{p.name}">{head}{ref}</PARAM>'
        if t == "system":
            return f'<PARAM xsi:type="SYSTEM" SYSPARAM="{p.sysparam}">{head}{ref}</PARAM>'
        raise ValueError(t)

    def params_xml(self, params, ctx) -> str:
        return "<PARAMS>" + "".join(self.param_xml(p, ctx) for p in params) + "</PARAMS>"

    # ---- DOPs
    def dop(self, d, ctx) -> str:
        key = (id(d), ctx)
        if key in self.memo:
            return self.memo[key]
        if isinstance(d, D.SimpleDop):
            i = self.new_id("dop")
            self.sec["dop"].append(f'<DATA-OBJECT-PROP ID="{i}"><SHORT-NAME>{i}</SHORT-NAME>{compu_xml(d.compu)}'
                                   f'{dct_xml(d.dct, ctx)}{phys_xml(d)}</DATA-OBJECT-PROP>')
        elif isinstance(d, D.DtcDop):
            i = self.new_id("dtcdop")
            self.memo[key] = i
            slot = len(self.sec["dtc"])
            self.sec["dtc"].append(None)
            dtcs = "".join(f'<DTC ID="{i}.{n}"><SHORT-NAME>{n}</SHORT-NAME><TROUBLE-CODE>{c}</TROUBLE-CODE><TEXT>t</TEXT></DTC>'
                           for c, n in d.dtcs)
            # DTC-REF: the DTC is a child of another DTC-DOP of the layer (emitted as well)
            dtcs += "".join(f'<DTC-REF ID-REF="{self.dop(owner, ctx)}.{n}"/>' for owner, n in (d.dtc_refs or []))
            linked = ""
            for l in (d.linked or []):
                ni = "".join(f'<NOT-INHERITED-DTC-SNREF SHORT-NAME="{n}"/>' for n in l.not_inherited)
                linked += ("<LINKED-DTC-DOP>" + (f"<NOT-INHERITED-DTC-SNREFS>{ni}</NOT-INHERITED-DTC-SNREFS>" if ni else "")
                           + f'<DTC-DOP-REF ID-REF="{self.dop(l.dop, ctx)}"/></LINKED-DTC-DOP>')
            xml = (f'<DTC-DOP ID="{i}"><SHORT-NAME>{i}</SHORT-NAME>{dct_xml(d.dct, ctx)}'
                   f'<PHYSICAL-TYPE BASE-DATA-TYPE="{d.phys}"/>{compu_xml(d.compu)}<DTCS>{dtcs}</DTCS>'
                   + (f"<LINKED-DTC-DOPS>{linked}</LINKED-DTC-DOPS>" if linked else "") + "</DTC-DOP>")
            if d.lib_first:
                # the DTC-DOPs referred to were appended behind the reserved slot: move this one behind them
                self.sec["dtc"].pop(slot)
                self.sec["dtc"].append(xml)
            else:
                self.sec["dtc"][slot] = xml
        elif isinstance(d, D.Struct):
            i = self.new_id("st")
            self.memo[key] = i
            bs = f"<BYTE-SIZE>{d.bytesize}</BYTE-SIZE>" if d.bytesize is not None else ""
            self.sec["struct"].append(f'<STRUCTURE ID="{i}"><SHORT-NAME>{i}</SHORT-NAME>{bs}{self.params_xml(d.params, i)}</STRUCTURE>')
        elif isinstance(d, D.StaticField):
            i = self.new_id("sf")
            self.sec["sf"].append(f'<STATIC-FIELD ID="{i}"><SHORT-NAME>{i}</SHORT-NAME><BASIC-STRUCTURE-REF ID-REF="{self.dop(d.item, ctx)}"/>'
                                  f'<FIXED-NUMBER-OF-ITEMS>{d.count}</FIXED-NUMBER-OF-ITEMS><ITEM-BYTE-SIZE>{d.itemsize}</ITEM-BYTE-SIZE></STATIC-FIELD>')
        elif isinstance(d, D.DynLenField):
            i = self.new_id("dlf")
            bp = f"<BIT-POSITION>{d.countbitpos}</BIT-POSITION>" if d.countbitpos is not None else ""
            self.sec["dlf"].append(f'<DYNAMIC-LENGTH-FIELD ID="{i}"><SHORT-NAME>{i}</SHORT-NAME><BASIC-STRUCTURE-REF ID-REF="{self.dop(d.item, ctx)}"/>'
                                   f'<OFFSET>{d.offset}</OFFSET><DETERMINE-NUMBER-OF-ITEMS><BYTE-POSITION>{d.countbytepos}</BYTE-POSITION>{bp}'
                                   f'<DATA-OBJECT-PROP-REF ID-REF="{self.dop(d.countdop, ctx)}"/></DETERMINE-NUMBER-OF-ITEMS></DYNAMIC-LENGTH-FIELD>')
        elif isinstance(d, D.EndMarkerField):
            i = self.new_id("demf")
            self.sec["demf"].append(f'<DYNAMIC-ENDMARKER-FIELD ID="{i}"><SHORT-NAME>{i}</SHORT-NAME><BASIC-STRUCTURE-REF ID-REF="{self.dop(d.item, ctx)}"/>'
                                    f'<DYN-END-DOP-REF ID-REF="{self.dop(d.termdop, ctx)}"><TERMINATION-VALUE>{val_str(d.term)}</TERMINATION-VALUE>'
                                    f'</DYN-END-DOP-REF></DYNAMIC-ENDMARKER-FIELD>')
        elif isinstance(d, D.EopField):
            i = self.new_id("eopf")
            mm = (f"<MAX-NUMBER-OF-ITEMS>{d.max}</MAX-NUMBER-OF-ITEMS>" if d.max is not None else "") + \
                 (f"<MIN-NUMBER-OF-ITEMS>{d.min}</MIN-NUMBER-OF-ITEMS>" if d.min is not None else "")
            self.sec["eopf"].append(f'<END-OF-PDU-FIELD ID="{i}"><SHORT-NAME>{i}</SHORT-NAME><BASIC-STRUCTURE-REF ID-REF="{self.dop(d.item, ctx)}"/>{mm}</END-OF-PDU-FIELD>')
        elif isinstance(d, D.Mux):
            i = self.new_id("mux")
            bp = f"<BIT-POSITION>{d.switch_bitpos}</BIT-POSITION>" if d.switch_bitpos is not None else ""
            cases = ""
            for c in d.cases:
                sr = f'<STRUCTURE-REF ID-REF="{self.dop(c.struct, ctx)}"/>' if c.struct is not None else ""
                cases += f"<CASE><SHORT-NAME>{c.name}</SHORT-NAME>{sr}<LOWER-LIMIT>{c.lower}</LOWER-LIMIT><UPPER-LIMIT>{c.upper}</UPPER-LIMIT></CASE>"
            dc = ""
            if d.default is not None:
                sr = f'<STRUCTURE-REF ID-REF="{self.dop(d.default[1], ctx)}"/>' if d.default[1] is not None else ""
                dc = f"<DEFAULT-CASE><SHORT-NAME>{d.default[0]}</SHORT-NAME>{sr}</DEFAULT-CASE>"
            self.sec["mux"].append(f'<MUX ID="{i}" IS-VISIBLE="{_b(d.visible, i + "|visible")}"><SHORT-NAME>{i}</SHORT-NAME><BYTE-POSITION>{d.bytepos}</BYTE-POSITION>'
                                   f'<SWITCH-KEY><BYTE-POSITION>{d.switch_bytepos}</BYTE-POSITION>{bp}'
                                   f'<DATA-OBJECT-PROP-REF ID-REF="{self.dop(d.switch_dop, ctx)}"/></SWITCH-KEY>{dc}'
                                   + (f"<CASES>{cases}</CASES>" if cases else "") + "</MUX>")
        elif isinstance(d, D.EnvDataDesc):
            i = self.new_id("edd")
            refs = ""
            for e in d.envs:
                ei = self.new_id("ed")
                self.ids[id(e)] = ei
                sel = "<ALL-VALUE/>" if e.all else "<DTC-VALUES>" + "".join(f"<DTC-VALUE>{c}</DTC-VALUE>" for c in e.dtcs) + "</DTC-VALUES>"
                bs = f"<BYTE-SIZE>{e.struct.bytesize}</BYTE-SIZE>" if e.struct.bytesize is not None else ""
                self.sec["ed"].append(f'<ENV-DATA ID="{ei}"><SHORT-NAME>{e.name}</SHORT-NAME>{bs}{self.params_xml(e.struct.params, ei)}{sel}</ENV-DATA>')
                refs += f'<ENV-DATA-REF ID-REF="{ei}"/>'
            self.sec["edd"].append(f'<ENV-DATA-DESC ID="{i}"><SHORT-NAME>{i}</SHORT-NAME><PARAM-SNREF SHORT-NAME="{d.param}"/>'
                                   f'<ENV-DATA-REFS>{refs}</ENV-DATA-REFS></ENV-DATA-DESC>')
        else:
            raise TypeError(d)
        self.memo[key] = i
        self.ids[id(d)] = i
        return i

    def table(self, t, ctx) -> str:
        key = (id(t), "table")
        if key in self.memo:
            return self.memo[key]
        i = self.new_id("tab")
        self.memo[key] = i
        rows = ""
        for r in t.rows:
            ref = ""
            if r.struct is not None:
                ref = f'<STRUCTURE-REF ID-REF="{self.dop(r.struct, ctx)}"/>'
            elif r.dop is not None:
                ref = f'<DATA-OBJECT-PROP-REF ID-REF="{self.dop(r.dop, ctx)}"/>'
            rows += f'<TABLE-ROW ID="{i}.{r.name}"><SHORT-NAME>{r.name}</SHORT-NAME><KEY>{val_str(r.key)}</KEY>{ref}</TABLE-ROW>'
        self.sec["table"].append(f'<TABLE ID="{i}"><SHORT-NAME>{i}</SHORT-NAME><KEY-DOP-REF ID-REF="{self.dop(t.keydop, ctx)}"/>{rows}</TABLE>')
        return i


def to_xml(composites, layer_kind="BASE-VARIANT") -> str:
    """a complete ODX document (one DIAG-LAYER-CONTAINER, one layer) describing the given composites"""
    if isinstance(composites, D.Composite):
        composites = [composites]
    em = Emitter()
    reqs, pos, neg, gneg, svcs = [], [], [], [], []
    for c in composites:
        if c.kind == "structure":
            bs = f"<BYTE-SIZE>{c.bytesize}</BYTE-SIZE>" if c.bytesize is not None else ""
            em.sec["struct"].append(f'<STRUCTURE ID="{c.name}"><SHORT-NAME>{c.name}</SHORT-NAME>{bs}{em.params_xml(c.params, c.name)}</STRUCTURE>')
            continue
        tag = KIND_TAG[c.kind]
        x = f'<{tag} ID="{c.name}"><SHORT-NAME>{c.name}</SHORT-NAME>{em.params_xml(c.params, c.name)}</{tag}>'
        if c.kind == "request":
            reqs.append(x)
            svcs.append(f'<DIAG-SERVICE ID="svc_{c.name}"><SHORT-NAME>svc_{c.name}</SHORT-NAME><REQUEST-REF ID-REF="{c.name}"/></DIAG-SERVICE>')
            continue
        rq = f"rq_{c.name}"
        reqs.append(f'<REQUEST ID="{rq}"><SHORT-NAME>{rq}</SHORT-NAME><PARAMS><PARAM xsi:type="CODED-CONST"><SHORT-NAME>sid</SHORT-NAME>'
                    f'<CODED-VALUE>34</CODED-VALUE><DIAG-CODED-TYPE BASE-DATA-TYPE="A_UINT32" xsi:type="STANDARD-LENGTH-TYPE">'
                    f'<BIT-LENGTH>8</BIT-LENGTH></DIAG-CODED-TYPE></PARAM></PARAMS></REQUEST>')
        refs = ""
        if c.kind == "pos-response":
            pos.append(x)
            refs = f'<POS-RESPONSE-REFS><POS-RESPONSE-REF ID-REF="{c.name}"/></POS-RESPONSE-REFS>'
        elif c.kind == "neg-response":
            neg.append(x)
            refs = f'<NEG-RESPONSE-REFS><NEG-RESPONSE-REF ID-REF="{c.name}"/></NEG-RESPONSE-REFS>'
        else:
            gneg.append(x)
        svcs.append(f'<DIAG-SERVICE ID="svc_{c.name}"><SHORT-NAME>svc_{c.name}</SHORT-NAME><REQUEST-REF ID-REF="{rq}"/>{refs}</DIAG-SERVICE>')
    ddds = "".join(f"<{tag}>{''.join(em.sec[k])}</{tag}>" for tag, k in Emitter.SECTIONS if em.sec[k])
    body = (f'<{layer_kind} ID="L"><SHORT-NAME>L</SHORT-NAME><DIAG-DATA-DICTIONARY-SPEC>{ddds}</DIAG-DATA-DICTIONARY-SPEC>'
            f'<DIAG-COMMS>{"".join(svcs)}</DIAG-COMMS><REQUESTS>{"".join(reqs)}</REQUESTS>'
            + (f'<POS-RESPONSES>{"".join(pos)}</POS-RESPONSES>' if pos else "")
            + (f'<NEG-RESPONSES>{"".join(neg)}</NEG-RESPONSES>' if neg else "")
            + (f'<GLOBAL-NEG-RESPONSES>{"".join(gneg)}</GLOBAL-NEG-RESPONSES>' if gneg else "")
            + f'</{layer_kind}>')
    return (f'<?xml version="1.0" encoding="UTF-8"?><ODX MODEL-VERSION="2.2.0" {XSI}><DIAG-LAYER-CONTAINER ID="DLC">'
            f'<SHORT-NAME>DLC</SHORT-NAME><{layer_kind}S>{body}</{layer_kind}S></DIAG-LAYER-CONTAINER></ODX>')


def layer_xml(layer, layer_kind="BASE-VARIANT") -> str:
    """a complete ODX document for a desc.Layer: services referencing (possibly shared) requests / responses"""
    em = Emitter()
    sec = {"request": [], "pos-response": [], "neg-response": [], "global-neg-response": []}
    for c in layer.composites:
        tag = KIND_TAG[c.kind]
        sec[c.kind].append(f'<{tag} ID="{c.name}"><SHORT-NAME>{c.name}</SHORT-NAME>{em.params_xml(c.params, c.name)}</{tag}>')
    svcs = ""
    for s in layer.services:
        refs = f'<REQUEST-REF ID-REF="{s.request}"/>'
        if s.pos:
            refs += "<POS-RESPONSE-REFS>" + "".join(f'<POS-RESPONSE-REF ID-REF="{n}"/>' for n in s.pos) + "</POS-RESPONSE-REFS>"
        if s.neg:
            refs += "<NEG-RESPONSE-REFS>" + "".join(f'<NEG-RESPONSE-REF ID-REF="{n}"/>' for n in s.neg) + "</NEG-RESPONSE-REFS>"
        svcs += f'<DIAG-SERVICE ID="svc_{s.name}"><SHORT-NAME>{s.name}</SHORT-NAME>{refs}</DIAG-SERVICE>'
    ddds = "".join(f"<{tag}>{''.join(em.sec[k])}</{tag}>" for tag, k in Emitter.SECTIONS if em.sec[k])
    body = (f'<{layer_kind} ID="L"><SHORT-NAME>L</SHORT-NAME><DIAG-DATA-DICTIONARY-SPEC>{ddds}</DIAG-DATA-DICTIONARY-SPEC>'
            f'<DIAG-COMMS>{svcs}</DIAG-COMMS><REQUESTS>{"".join(sec["request"])}</REQUESTS>'
            + (f'<POS-RESPONSES>{"".join(sec["pos-response"])}</POS-RESPONSES>' if sec["pos-response"] else "")
            + (f'<NEG-RESPONSES>{"".join(sec["neg-response"])}</NEG-RESPONSES>' if sec["neg-response"] else "")
            + (f'<GLOBAL-NEG-RESPONSES>{"".join(sec["global-neg-response"])}</GLOBAL-NEG-RESPONSES>' if sec["global-neg-response"] else "")
            + f'</{layer_kind}>')
    return (f'<?xml version="1.0" encoding="UTF-8"?><ODX MODEL-VERSION="2.2.0" {XSI}><DIAG-LAYER-CONTAINER ID="DLC">'
            f'<SHORT-NAME>DLC</SHORT-NAME><{layer_kind}S>{body}</{layer_kind}S></DIAG-LAYER-CONTAINER></ODX>')


class LoadedLayer:
    """result of load_layer(): database, the diagnostic layer, coding objects by composite name, services by name"""

    def __init__(self, db, dl, objs, services):
        self.db, self.dl, self.objs, self.services = db, dl, objs, services

    def __getitem__(self, name):
        return self.objs[name]


def load_layer(layer, layer_kind="BASE-VARIANT") -> LoadedLayer:
    from odxtools.database import Database
    db = Database()
    db._process_xml_tree(ET.fromstring(layer_xml(layer, layer_kind)))
    db.refresh()
    dl = db.diag_layers[0]
    raw = dl.diag_layer_raw
    pools = {"request": raw.requests, "pos-response": raw.positive_responses, "neg-response": raw.negative_responses,
             "global-neg-response": raw.global_negative_responses}
    objs = {c.name: pools[c.kind][c.name] for c in layer.composites}
    services = {s.name: dl.services[s.name] for s in layer.services}
    return LoadedLayer(db, dl, objs, services)


class Loaded:
    """result of load(): the odxtools objects for each composite (by name) and the database"""

    def __init__(self, db, objs):
        self.db = db
        self.objs = objs

    def __getitem__(self, name):
        return self.objs[name]


def load(composites, layer_kind="BASE-VARIANT") -> Loaded:
    """emit XML and load it through the real odxtools loader; returns the Request/Response/Structure objects"""
    from odxtools.database import Database
    if isinstance(composites, D.Composite):
        composites = [composites]
    xml = to_xml(composites, layer_kind)
    db = Database()
    db._process_xml_tree(ET.fromstring(xml))
    db.refresh()
    dl = db.diag_layers[0]
    raw = dl.diag_layer_raw
    objs = {}
    for c in composites:
        if c.kind == "request":
            objs[c.name] = raw.requests[c.name]
        elif c.kind == "pos-response":
            objs[c.name] = raw.positive_responses[c.name]
        elif c.kind == "neg-response":
            objs[c.name] = raw.negative_responses[c.name]
        elif c.kind == "global-neg-response":
            objs[c.name] = raw.global_negative_responses[c.name]
        else:
            objs[c.name] = raw.diag_data_dictionary_spec.structures[c.name]
    return Loaded(db, objs)
