"""py2lean — a translator from a documented subset of Python (parsed with `ast`) to Lean 4 source.

Purpose (DESIGN §I.3, tie of kind (1)): the Lean definition the theorems are about is REGENERATED from the current source of
/repo on every run of the check; the equivalence theorem with the hand-written model (`gen_step_eq` …) is re-checked by the
Lean kernel against what the code says now. If the source leaves the subset the translator raises `Unsupported(<node>, <line>)`:
the `regenerate:` obligation of the check is then broken (and the failing-input search of the check takes over).

The subset (everything else raises `Unsupported`)
--------------------------------------------------
statements
  * `x = e`, `a, b = bitstruct.unpack(fmt, e)`, `x op= e`                      (locals; function-scoped, see *scoping*)
  * `self._F[i] = e`, `self._F[i] op= e`                                       (`_F` a declared per-slot state list, `i` the slot index variable)
  * `if / elif / else`, `return` (bare), `yield (id, e)`, `pass`, doc strings
  * `self.on_xxx(i, e…)`                                                       (callback → event; constructor and kept arguments from the spec)
  * `assert isinstance(x, T)`                                                   (dropped, recorded in the header of the output)
  * `assert e`                                                                  (→ `Py.Err.assertionError` when false)
  * `try: i = self._IDS.index(x)` / `except ValueError: return`                (only as the first statement of a slot method: the slot lookup)
  * `for v in sorted(xs): …` / `for v in xs: …` with `break`/`return e`         (pure functions only; → structural `for … in` over a Lean list)
expressions
  * int literals, `True/False`, `None`, names, `len(e)`, `e is None`, `e is not None`
  * comparisons `== != < <= > >=` (not chained), `and / or / not` on booleans (operands that cannot raise)
  * `+ - * // % & | ^ << >>`, unary `-`
  * `e[i]`, `e[a:b]`, `e[a:]`, `e[:b]` on byte sequences; `bytes(e)`, `bytearray(e)` (copies: identity on values)
  * `EnumName.X` for an `IntEnum` of the same module (→ its integer value)
  * `bitstruct.unpack("u<w>u<w>…", e)` with a tuple of names as target (→ big-endian bit fields, `Py.bitsBE`)
  * pure functions only: `return e`, `max(a, b)`, `min(a, b)`, `x or d` for an `Optional[int]` `x` (→ `Py.orNat`: `d` when `x` is None or 0),
    `obj.attr` / `obj.method()` of abstract records declared in the `PureSpec` (→ the Lean term the spec names)
  * pure functions, loops: `for a, b in …` (flat tuple of names, elements of a tuple type), `sorted(xs)` of `Tuple[int, int]`
    (lexicographic, `Py.sortedIntPair`), `[f(x) for x in xs]` / `(f(x) for x in xs)` as the iterable (one generator, no condition, `f(x)`
    cannot raise; → `xs.map fun x => …`); a loop variable may not be a local declared before the loop (Python assigns, Lean shadows)
  * pure functions, calls: `cast(T, e)` (typing.cast: → `e`, listed in the header), functions / methods WITH arguments that the
    `PureSpec` maps to a hand-written Lean term (`calls`; may be declared raising: → `(← Py.call …)`), `EnumName.X` of a plain `Enum`
    whose members the spec maps one-to-one to the constructors of a Lean inductive type (`==`/`!=` on those: identity),
    statement `odxraise(msg[, OdxError|EncodeError|DecodeError])` (STRICT MODE: → `throw`; not a terminator for the flow analysis);
    `if not isinstance(x, T): odxraise(…)` (a typing assertion written with odxraise: dropped and listed in the header);
    an `Optional` value passed where the spec declares a non-optional parameter becomes `Py.unwrap` (the spec'd Lean term is not
    defined on None; the equality theorems show that this never happens)
  * pure functions, dicts: a local assigned ONCE a dict literal with pairwise different constant keys (enum members / int literals)
    and int values (→ association list), read by `d[k]` only (→ `Py.dictGet`, `KeyError`)
  * pure functions, sorting by key: `sorted(xs, key=lambda v: e, reverse=b)` as an expression, `e` a provably non-negative int that may
    raise (→ `(← Py.sortedByKeyM (fun v => do pure e) b xs)`: keys of all elements first, then a stable sort, stable in BOTH directions)
  * pure functions, attributes: chains `a.b.c` whose every link the spec declares; a link may be another translated property
    (`(← fE ·)`); `getattr(obj, "name", <default>)` where the spec names the term that stands for "the attribute or that default"
  * pure functions, strings (`str` = `List Char`): `s[i]` for a provably non-negative `i` (→ `Py.getItem`, a one-character string,
    usable only through methods the spec declares for it, e.g. `isdigit`), `len(s)`, `==`, f-strings whose interpolated values are
    all `str` without conversion / format spec (→ `++`; literal parts printable ASCII)
  * pure functions, control (W20): `continue`; `for v in reversed(xs)` (→ `xs.reverse`; the subset has no list mutation);
    an assignment expression ONLY as `if (x := e) <cmp> …:` (→ `x = e` followed by `if x <cmp> …`; in an `elif` the chain is rendered
    as a nested `else` block); `odxassert(cond[, msg])` (STRICT MODE: → `if ¬ cond then throw Py.Err.odxError`);
    `odxraise(msg, KeyError)` (→ `Py.Err.keyError`); `warnings.warn(msg[, Category][, stacklevel=k])` (no effect on the values:
    rendered as `pure ()`, the assumption "warnings are not turned into exceptions" is listed in the header);
    `and`/`or` whose LATER operands can raise (→ `(← if a then (do pure b) else pure false)`: the operand is only run when
    Python evaluates it); `not xs` for a list (→ `xs.isEmpty`)
  * pure functions, lists of records (W20): `[x for x in xs if c(x)]` (the element is the loop variable, one condition: →
    `xs.filter`, or `(← Py.filterM …)` when the condition can raise: conditions in order, the first exception propagates);
    `xs[i]` for a provably non-negative `i` (→ `Py.getItem`, IndexError)
  * pure functions, records (W20): `x.attr` / `x.m(…)` for an `Optional` record `x` (→ `Py.unwrapAttr`, AttributeError on None);
    the builtin `isinstance(a, b)` as a spec'd call (`calls[(None, "isinstance")]`: the spec names what class membership means
    for its abstract records); a Python `str` the model keeps as a Lean `String` (type `PYSTR`: opaque, only `==`/`!=` and
    spec'd calls); messages of `odxraise` may contain `type(e).__name__` and subscripts — a subscript in a message IS evaluated
    (`let _ := (← Py.getItem …)` before the `throw`: it can raise first)
  * pure functions, dict-like records and local lists (W20): `k in x` / `x[k]` on a record for which the spec declares what the key
    means (`PureSpec.keyed`: per distinguished int literal, e.g. `-1`, and for provably non-negative int keys; `x[k]` → `Py.unwrapKey`,
    KeyError); `for b in data` over `bytes` (ints); the empty list display `[]` (element type from the joins), `xs + ys`, and
    `xs += ys` on a LOCAL that is only ever bound to fresh lists (display / comprehension / concatenation — otherwise the in-place
    extension could be visible through another name: `Unsupported`); `odxassert(isinstance(e, T))` without a spec'd `isinstance`
    is a typing assertion: dropped and listed, but `e` is still evaluated (`let _ := …`)
  * pure functions, Python protocols named by the spec (W20): `==` / `!=` on a record type for which the spec gives `__eq__`
    (`PureSpec.eq`; Optional operands → `Py.optEq`: `None == None`, a value never equals None); `isinstance(e, T)` /
    `issubclass(e, T)` with `T` a builtin type name or a tuple of such names (tuple = any of them) through the tables
    `PureSpec.isinstance` / `.issubclass` (a type the table does not list: `Unsupported`); attribute chains through Optional
    records (`a.b.c` with `a.b` Optional → `Py.unwrapAttr`); templates of the spec may call other GENERATED functions
  * pure functions, W28: keyword-only parameters (rendered as ordinary parameters; defaults must be constants); a function-local
    `from m import Name` as a top-level statement (not rendered; the name may only be the class operand of a spec'd `isinstance`;
    assumption "the import succeeds" listed in the header); a bare annotation `x: T` ONLY when the very next statement is an `if/else`
    that assigns `x` on every path before anything else (→ `let mut x : Option _ := none`, a declaration whose initial value is never
    read; Optional locals only); `isinstance(e, C)` for an OPTIONAL record `e` (→ `e.any …`: None is an instance of nothing) and for a
    class `C` imported in the function, through `PureSpec.isinstance`; narrowing of a union-typed PARAMETER: in the `else` branch of
    `if isinstance(p, C):` the reads of `p` are rendered through `PureSpec.narrow[(p, C)]` ("p, which is not a C": template + type;
    parameters are never assigned; a comprehension / lambda re-binding `p` in that branch is `Unsupported`); `xs or ys` on two lists of
    one element type, `ys` not raising (→ `if xs.isEmpty then ys else xs`);
    `str` literals of `[A-Za-z0-9_ .:-]*` as opaque `String`s (`PYSTR`); a spec'd METHOD call whose trailing arguments are passed by
    keyword, in parameter order (`PureSpec.call_keywords`: all parameter names of the method); the builtin `int` as a spec'd call
    (`calls[(None, "int")]`, refused when the module re-binds the name)
  * pure functions, W32: `while True:` (not nested; no loop / comprehension / lambda inside; no `else`) → `for _ in List.replicate fuel ()`
    with a `broke` flag set before every `break`; after the loop `return none` = OUT OF FUEL; the function's result becomes `Option T`
    (`some r` = Python's result; refused when the result is already Optional or the spec has no `(fuel : Nat)` binder); `hasattr(obj, name)`
    through `PureSpec.hasattr`; `s.endswith("<ASCII literal>")` on a `str` (→ `List.isSuffixOf`); f-string interpolation of a provably
    non-negative int (→ `Nat.toDigits 10`); `PureSpec.final_store`: the last statement `self.<attr>[k] = <parameter>` rendered as `return k`
  * several `def`s of one name in a class / module (typing.overload stubs): the LAST one is translated (Python's binding)
  * function headers: decorators `property`, `override`, `staticmethod` only; parameter defaults must be constants (they concern the
    callers; the rendering takes every parameter explicitly); annotations are never consulted
typing (static, flow-insensitive per variable; the translator infers it)
  * `Nat` (provably non-negative int), `Int`, `Bool`, `Bytes`, `Option T`. A variable's type is the join of everything assigned to it.
  * operations that Python would reject at run time on `None` become `Py.unwrap` (→ `Py.Err.typeError`)
scoping
  * a local is declared (`let mut`) at its first assignment; a use that is not dominated by a declaration in an enclosing Lean
    scope (i.e. Python's "possibly unbound" locals) is `Unsupported`.
aliasing of mutable byte buffers (the one place where Python's object identity matters in the subset)
  * a per-slot field annotated `List[Optional[bytearray]]` holds a mutable buffer; it may only be assigned `bytearray(…)` (a fresh
    object) or `None`;
  * `v = self._F[i]` makes the local `v` an alias of the field; `v += e` then mutates the buffer in place: the translator
    updates the local AND the field. Any other assignment to `v` (slices create new objects) or to the field ends the alias;
  * if the alias status of a variable differs between the branches that reach a `+=`, or a byte-typed local is assigned
    from another name, the program is `Unsupported`.

What is trusted: this file (the rendering of the subset) and lean/OdxVerif/Model/PyRt.lean (the primitives it renders to).
"""
from __future__ import annotations

import ast
import hashlib
import re
import textwrap
from dataclasses import dataclass, field
from pathlib import Path

NAT, INT, BOOL, BYTES = "Nat", "Int", "Bool", "Bytes"
STR = "List Char"                     # a Python `str` (sequence of code points)
PYSTR = ("Rec", "String")            # a Python `str` that the model keeps as a Lean `String` (opaque: only `==` / `!=` and spec'd calls)
CHAR1 = ("Rec", "Char")               # a one-character `str` obtained by indexing a `str` (Python has no character type)
LEAN_KEYWORDS = {"from", "at", "end", "open", "fun", "do", "then", "have", "show", "let", "in", "if", "else", "match", "with",
                 "by", "where", "def", "theorem", "structure", "class", "instance", "return", "for", "mut", "type", "Type",
                 "namespace", "section", "variable", "import", "export", "macro", "syntax", "deriving", "this", "self"}


class Unsupported(Exception):
    def __init__(self, node, why=""):
        self.node, self.why = node, why
        self.line = getattr(node, "lineno", 0)
        try:
            src = ast.unparse(node) if isinstance(node, ast.AST) else str(node)
        except Exception:  # noqa
            src = repr(node)
        super().__init__(f"Unsupported({type(node).__name__}, line {self.line}): {why} :: {src[:120]}")


def opt(t):
    return ("Opt", t)


def is_opt(t):
    return isinstance(t, tuple) and t[0] == "Opt"


def strip_opt(t):
    return t[1] if is_opt(t) else t


def tup(*ts):
    return ("Tuple", tuple(ts))


def is_tuple(t):
    return isinstance(t, tuple) and t[0] == "Tuple"


def is_list(t):
    return isinstance(t, tuple) and t[0] == "List"


def is_dict(t):
    return isinstance(t, tuple) and t[0] == "Dict"


def join(a, b, node=None):
    """least upper bound of two types (None = not known yet)"""
    if a == b:
        return a
    if a is None:
        return b
    if b is None:
        return a
    if {a, b} == {NAT, INT}:
        return INT
    if is_opt(a) or is_opt(b):
        return opt(join(strip_opt(a), strip_opt(b), node))
    if is_list(a) and is_list(b):                                      # `[]` is a list of a not yet known element type
        return ("List", join(a[1], b[1], node))
    raise Unsupported(node, f"incompatible types {lean_ty(a)} / {lean_ty(b)}")


def lean_ty(t):
    if t is None:
        return "?"
    if is_opt(t):
        inner = lean_ty(t[1]) if t[1] is not None else "Unit"
        return f"Option {inner}" if " " not in inner else f"Option ({inner})"
    if isinstance(t, tuple) and t[0] == "List":
        inner = lean_ty(t[1])
        return f"List {inner}" if " " not in inner else f"List ({inner})"
    if isinstance(t, tuple) and t[0] == "Rec":
        return t[1]
    if is_dict(t):                                                    # a dict literal: association list, first match
        return f"List ({lean_ty(t[1])} × {lean_ty(t[2])})"
    if is_tuple(t):
        return " × ".join(lean_ty(x) if " " not in lean_ty(x) else f"({lean_ty(x)})" for x in t[1])
    return t


def mangle(name):
    return name + "_" if name in LEAN_KEYWORDS else name


@dataclass
class E:
    """a translated expression"""
    code: str
    ty: object
    fresh: bool = False          # byte value that is certainly a new object (slice, copy, concatenation)
    lit: object = None           # value of an int literal / enum constant


# ======================================================================================================================
@dataclass
class SlotSpec:
    """how a method with per-index state (`self._F[i]`) maps to a per-slot Lean function"""
    ids_attr: str                                    # the list searched with `.index`
    fields: dict                                     # python attribute -> (lean field, type)
    events: dict                                     # callback name -> (Lean constructor, [kept positional argument indices], [types])
    yield_ctor: tuple                                # (Lean constructor, type of the payload)
    slot_type: str = "Slot"
    wrapper: bool = True                             # also emit the multi-ID wrapper (`St` with fields `ids`, `slots`)
    event_type: str = "Ev"


class Translator:
    """statement/expression translation shared by slot methods and pure functions"""

    def __init__(self, module: ast.Module, src_lines, slot: SlotSpec | None = None, pure: "PureSpec | None" = None):
        self.module, self.src_lines, self.slot, self.pure = module, src_lines, slot, pure
        self.enums = self._read_enums(module)
        self.out = []
        self.dropped = []        # dropped assert isinstance(...)
        self.casts = []          # typing.cast(T, e) rendered as e
        self.enum_uses = {}      # `Enum.X` of a non-int enum -> Lean constructor (from the spec)
        self.notes = []
        self.vt = {}             # variable -> type (inference result)
        self.scopes = []         # stack of sets of declared variables
        self.alias = {}          # local -> (python field whose mutable buffer it aliases, certain on every path?)
        self.mutable_fields = set()
        self.idx_var = None      # the slot index variable
        self.id_param = None     # the parameter looked up in ids_attr
        self.emitting = False
        self.pure_ret = None     # return type of a pure function
        self.in_loop = 0
        self.fuel_ok = False
        self.loop_flags = []                                                # W32: per open loop: the `broke` flag of a `while True:`, None for a `for`
        self.comp_vars = set()   # variables bound by comprehensions (own scope in Python 3)
        self.raising = False     # the expression being translated contains an operation that can raise

    # ------------------------------------------------------------------------------------------------ module facts
    @staticmethod
    def _read_enums(module):
        enums = {}
        for n in module.body:
            if isinstance(n, ast.ClassDef) and any(getattr(b, "id", getattr(b, "attr", "")) == "IntEnum" for b in n.bases):
                vals = {}
                for s in n.body:
                    if isinstance(s, ast.Assign) and len(s.targets) == 1 and isinstance(s.targets[0], ast.Name) \
                            and isinstance(s.value, ast.Constant) and type(s.value.value) is int:
                        vals[s.targets[0].id] = s.value.value
                enums[n.name] = vals
        return enums

    # ------------------------------------------------------------------------------------------------ output helpers
    def emit(self, ind, text, node=None):
        if node is not None and self.emitting:
            # the whole statement (a compound statement: its header up to the line before its body)
            last = getattr(node, "end_lineno", node.lineno) or node.lineno
            body = getattr(node, "body", None)
            if isinstance(body, list) and body and hasattr(body[0], "lineno"):
                last = max(node.lineno, body[0].lineno - 1)
                while last > node.lineno and not self.src_lines[last - 1].strip():
                    last -= 1
                while last > node.lineno and self.src_lines[last - 1].strip().startswith("#"):
                    last -= 1
            for k in range(node.lineno, last + 1):
                txt = self.src_lines[k - 1].strip()
                if txt and not txt.startswith("#"):
                    self.out.append("  " * ind + f"-- L{k}: {txt}")
        if self.emitting:
            self.out.append("  " * ind + text)

    def declared(self, v):
        return any(v in s for s in self.scopes)

    # ------------------------------------------------------------------------------------------------ expressions
    def coerce(self, e: E, to, node):
        """value of `e` at type `to` (widening only; Option → T is a run-time check)"""
        if e.ty == to or to is None:
            return e.code
        if e.ty is None:
            return e.code
        if e.ty == NAT and to == INT:
            return f"Int.ofNat ({e.code})"
        if is_list(e.ty) and e.ty[1] is None and is_list(to):
            return e.code                                                  # `[]`
        if is_opt(to) and not is_opt(e.ty):
            return f"some ({self.coerce(e, to[1], node)})"
        if is_opt(to) and is_opt(e.ty):
            if e.ty[1] is None:
                return "none"
            if e.ty[1] == NAT and to[1] == INT:
                return f"({e.code}).map Int.ofNat"
        if is_opt(e.ty) and not is_opt(to):
            inner = E(f"(← Py.unwrap {e.code})", e.ty[1])
            self.raising = True
            return self.coerce(inner, to, node)
        raise Unsupported(node, f"cannot use a value of type {lean_ty(e.ty)} as {lean_ty(to)}")

    def ex(self, n) -> E:
        m = getattr(self, "ex_" + type(n).__name__, None)
        if m is None:
            raise Unsupported(n, "expression form outside the subset")
        return m(n)

    def ex_Constant(self, n):
        v = n.value
        if v is None:
            return E("none", opt(None))
        if v is True or v is False:
            return E("true" if v else "false", BOOL)
        if type(v) is int and v >= 0:
            return E(str(v), NAT, lit=v)
        if type(v) is str and self.pure is not None and re.fullmatch(r"[A-Za-z0-9_ .:-]*", v):
            return E('"' + v + '"', PYSTR)                                  # W28: a plain ASCII literal, as an opaque `String` (only `==` / spec'd calls)
        raise Unsupported(n, "constant outside the subset")

    def ex_Name(self, n):
        v = n.id
        nar = getattr(n, "_narrow", None)
        if nar is not None:                                                # W28: the parameter read in the `else` branch of `if isinstance(p, C)`
            return E(nar[0].format(mangle(v)), nar[1])
        if self.slot and v in (self.idx_var, self.id_param):
            raise Unsupported(n, f"`{v}` may only be used as the slot index / the yielded id in a per-slot translation")
        if self.pure and v in self.pure.params and self.pure.params[v][1] is None:
            raise Unsupported(n, f"parameter `{v}` may only be used through its declared attributes")
        if self.emitting and not self.declared(v):
            raise Unsupported(n, f"local `{v}` is possibly unbound here (not assigned on every path in an enclosing scope)")
        return E(mangle(v), self.vt.get(v))

    def ex_Attribute(self, n):
        if isinstance(n.value, ast.Name) and n.value.id in self.enums and n.attr in self.enums[n.value.id]:
            val = self.enums[n.value.id][n.attr]
            if val < 0:
                return E(f"(({val} : Int) /- {n.value.id}.{n.attr} -/)", INT, lit=val)
            return E(f"({val} /- {n.value.id}.{n.attr} -/)", NAT, lit=val)
        if self.pure is not None and isinstance(n.value, ast.Name) and n.value.id in self.pure.enums:
            return self._enum_member(n)
        if self.pure is not None:
            rec, obj = self._record_of(n.value)
            if rec is not None and (rec, n.attr) in self.pure.attrs:
                tpl, ty = self.pure.attrs[(rec, n.attr)]
                if "←" in tpl:                                            # a property that is itself a translated function
                    self.raising = True
                return E(tpl.format(obj), ty)
        raise Unsupported(n, "attribute access outside the subset")

    def _enum_member(self, n):
        """`EnumName.X` of a plain `Enum` declared in the spec: a constructor of the Lean inductive type the spec names. The spec
        must map EVERY member of the Python class (a member added to the source has no constructor in the model: loud failure);
        members are compared by identity in Python (`Enum` does not override `__eq__`), by constructor in Lean."""
        cls, (lean_type, members) = n.value.id, self.pure.enums[n.value.id]
        src = self._enum_class_members(cls, n)
        if sorted(src) != sorted(members):
            raise Unsupported(n, f"members of enum {cls} in the source {sorted(src)} differ from the ones the spec maps {sorted(members)}")
        if n.attr not in members:
            raise Unsupported(n, f"{cls}.{n.attr} is not a member of the enum")
        self.enum_uses[f"{cls}.{n.attr}"] = f"{lean_type}.{members[n.attr]}"
        return E(f"{lean_type}.{members[n.attr]}", ("Rec", lean_type))

    def _enum_class_members(self, cls, node):
        for c in self.module.body:
            if isinstance(c, ast.ClassDef) and c.name == cls:
                if not any(getattr(b, "id", getattr(b, "attr", "")) == "Enum" for b in c.bases):
                    raise Unsupported(node, f"{cls} is not a plain Enum")
                out = []
                for st in c.body:
                    if isinstance(st, ast.Assign) and len(st.targets) == 1 and isinstance(st.targets[0], ast.Name):
                        out.append(st.targets[0].id)
                    elif isinstance(st, ast.FunctionDef) and st.name in ("__eq__", "__ne__", "__hash__"):
                        raise Unsupported(node, f"{cls} overrides {st.name}")
                return out
        raise Unsupported(node, f"enum class {cls} is not defined in this module")

    def _record_of(self, v):
        """(record type name, Lean term) of an expression that denotes a record of the pure-function spec"""
        if isinstance(v, ast.Name) and v.id in self.pure.params and self.pure.params[v.id][1] is None:
            return self.pure.params[v.id][0][1], ""
        if isinstance(v, ast.Name):
            t = self.vt.get(v.id)
            if isinstance(t, tuple) and t[0] == "Rec":
                if self.emitting and not self.declared(v.id):
                    raise Unsupported(v, f"local `{v.id}` is possibly unbound here")
                return t[1], mangle(v.id)
            if is_opt(t) and isinstance(t[1], tuple) and t[1][0] == "Rec":
                # `x.attr` / `x.method(…)` for an Optional record: `None.attr` raises AttributeError
                if self.emitting and not self.declared(v.id):
                    raise Unsupported(v, f"local `{v.id}` is possibly unbound here")
                self.raising = True
                return t[1][1], f"(← Py.unwrapAttr {mangle(v.id)})"
        if isinstance(v, ast.Subscript):
            e = self.ex(v)
            if isinstance(e.ty, tuple) and e.ty[0] == "Rec":
                return e.ty[1], e.code
        if isinstance(v, ast.Attribute) and not (isinstance(v.value, ast.Name) and v.value.id in self.enums):
            e = self.ex(v)                                                 # a chain `a.b.c`: every link must be declared in the spec
            if isinstance(e.ty, tuple) and e.ty[0] == "Rec":
                return e.ty[1], e.code
            if is_opt(e.ty) and isinstance(e.ty[1], tuple) and e.ty[1][0] == "Rec":
                self.raising = True                                        # `None.attr`: AttributeError
                return e.ty[1][1], f"(← Py.unwrapAttr {e.code})"
        return None, None

    def ex_Dict(self, n):
        """`{k1: v1, …}` with pairwise different constant keys (enum members of the spec or int literals) and int values: an
        association list; only `d[k]` reads it (→ `Py.dictGet`, `KeyError` when absent). It is never mutated in the subset."""
        if not n.keys or any(k is None for k in n.keys):
            raise Unsupported(n, "empty dict literal / `**` in a dict literal")
        ks, vs, seen = [], [], set()
        for k, v in zip(n.keys, n.values):
            ke, ve = self.ex(k), self.ex(v)
            ident = ke.code
            is_const = ke.lit is not None or (isinstance(ke.ty, tuple) and ke.ty[0] == "Rec" and isinstance(k, ast.Attribute))
            if not is_const:
                raise Unsupported(k, "dict key is not a constant (an int literal or an enum member)")
            if ident in seen:
                raise Unsupported(k, "the same key twice in a dict literal")
            seen.add(ident)
            ks.append(ke)
            vs.append(ve)
        kt = vt = None
        for ke in ks:
            kt = join(kt, ke.ty, n)
        for ve in vs:
            vt = join(vt, ve.ty, n)
        if vt not in (NAT, INT) or is_opt(kt):
            raise Unsupported(n, "dict literal: values must be ints, keys must not be None")
        items = ", ".join(f"({self.coerce(ke, kt, n)}, {self.coerce(ve, vt, n)})" for ke, ve in zip(ks, vs))
        return E(f"[{items}]", ("Dict", kt, vt))

    def ex_JoinedStr(self, n):
        """an f-string whose interpolated values are all `str` (no conversion, no format spec): concatenation"""
        parts = []
        for v in n.values:
            if isinstance(v, ast.Constant) and isinstance(v.value, str):
                if not all(32 <= ord(c) < 127 and c not in '"\\' for c in v.value):
                    raise Unsupported(n, "non-ASCII / escaped text in an f-string")
                parts.append(f'"{v.value}".toList')
            elif isinstance(v, ast.FormattedValue) and v.conversion == -1 and v.format_spec is None:
                e = self.ex(v.value)
                if e.ty is None:
                    return E("_", STR)
                if e.ty == NAT:                                             # W32: `str(i)` of a non-negative int: its decimal digits
                    parts.append(f"Nat.toDigits 10 {e.code}")
                    continue
                if e.ty != STR:
                    raise Unsupported(n, f"f-string interpolation of a {lean_ty(e.ty)} (only str / non-negative int)")
                parts.append(e.code)
            else:
                raise Unsupported(n, "f-string with conversion / format spec")
        return E("(" + " ++ ".join(parts or ['([] : List Char)']) + ")", STR)

    def ex_UnaryOp(self, n):
        if isinstance(n.op, ast.USub):
            if isinstance(n.operand, ast.Constant) and type(n.operand.value) is int:
                return E(f"(-{n.operand.value} : Int)", INT, lit=-n.operand.value)
            a = self.ex(n.operand)
            self._need_int(a, n)
            return E(f"(-{self.coerce(a, INT, n)})", INT)
        if isinstance(n.op, ast.Not):
            a = self.ex(n.operand)
            if is_list(a.ty):
                return E(f"({a.code}.isEmpty = true)", BOOL)               # `not xs`: a list is falsy exactly when it is empty
            if a.ty not in (BOOL, None):
                raise Unsupported(n, "`not` on a non-boolean (truthiness is outside the subset, except `not <list>`)")
            return E(f"(¬ {a.code})", BOOL)
        raise Unsupported(n, "unary operator outside the subset")

    def _need_int(self, a, node):
        if strip_opt(a.ty) not in (NAT, INT, None):
            raise Unsupported(node, f"integer expected, found {lean_ty(a.ty)}")

    def _num(self, a, node):
        """an int operand as a non-optional value"""
        self._need_int(a, node)
        if is_opt(a.ty):
            if a.ty[1] is None:
                raise Unsupported(node, "arithmetic on None")
            return E(self.coerce(a, a.ty[1], node), a.ty[1])
        return a

    def ex_BinOp(self, n):
        a, b = self.ex(n.left), self.ex(n.right)
        op = type(n.op).__name__
        if a.ty is None or b.ty is None:
            return E("_", None)
        if is_list(a.ty) and is_list(b.ty):
            if op != "Add":
                raise Unsupported(n, "only + on lists")
            t = join(a.ty, b.ty, n)
            return E(f"({self.coerce(a, t, n)} ++ {self.coerce(b, t, n)})", t, fresh=True)
        if strip_opt(a.ty) == BYTES or strip_opt(b.ty) == BYTES:
            if op != "Add":
                raise Unsupported(n, "only + on byte sequences")
            return E(f"({self.coerce(a, BYTES, n)} ++ {self.coerce(b, BYTES, n)})", BYTES, fresh=True)
        a, b = self._num(a, n), self._num(b, n)
        both_nat = a.ty == NAT and b.ty == NAT
        if op == "Sub":
            return E(f"({self.coerce(a, INT, n)} - {self.coerce(b, INT, n)})", INT)
        if op in ("Add", "Mult"):
            sym = "+" if op == "Add" else "*"
            t = NAT if both_nat else INT
            return E(f"({self.coerce(a, t, n)} {sym} {self.coerce(b, t, n)})", t)
        if op in ("FloorDiv", "Mod"):
            if b.lit is not None and b.lit != 0:
                d = b
            else:                                                       # ZeroDivisionError
                self.raising = True
                d = E(f"(← Py.nonZero{'' if b.ty == NAT else 'Z'} {b.code})", b.ty)
            if both_nat:
                return E(f"({a.code} {'/' if op == 'FloorDiv' else '%'} {d.code})", NAT)
            f = "Py.floorDiv" if op == "FloorDiv" else "Py.floorMod"
            return E(f"({f} {self.coerce(a, INT, n)} {self.coerce(d, INT, n)})", INT)
        bit = {"BitAnd": "&&&", "BitOr": "|||", "BitXor": "^^^", "LShift": "<<<", "RShift": ">>>"}.get(op)
        if bit:
            if not both_nat:
                raise Unsupported(n, "bit operations on possibly negative integers")
            return E(f"({a.code} {bit} {b.code})", NAT)
        raise Unsupported(n, "binary operator outside the subset")

    def ex_BoolOp(self, n):
        if isinstance(n.op, ast.Or) and len(n.values) == 2:
            saved = self.raising
            a = self.ex(n.values[0])
            self.raising = False
            b = self.ex(n.values[1])
            if is_list(a.ty) and is_list(b.ty) and a.ty[1] is not None and a.ty == b.ty:
                # W28: `xs or ys` on lists: `ys` when `xs` is empty (the only falsy list), else `xs` itself
                if self.raising:
                    raise Unsupported(n, "right operand of `or` can raise: short-circuit evaluation would matter")
                self.raising = saved
                return E(f"(if ({a.code}).isEmpty then {b.code} else {a.code})", a.ty)
            if a.ty is not None and strip_opt(a.ty) in (NAT, INT) and b.ty in (NAT, INT):
                if self.raising:
                    raise Unsupported(n, "right operand of `or` can raise: short-circuit evaluation would matter")
                self.raising = saved
                t = join(strip_opt(a.ty), b.ty, n)
                f = "Py.orNat" if t == NAT else "Py.orInt"
                return E(f"({f} {self.coerce(a, opt(t), n)} {self.coerce(b, t, n)})", t)   # `x or d`: d when x is None or 0
            self.raising = saved
        saved = getattr(self, "raising", False)
        parts, later_raises = [], False
        for k, v in enumerate(n.values):
            self.raising = False
            e = self.ex(v)
            if e.ty not in (BOOL, None):
                raise Unsupported(v, "and/or on a non-boolean operand (truthiness is outside the subset)")
            if k > 0 and self.raising:
                later_raises = True
            saved = saved or self.raising
            parts.append(e.code)
        self.raising = saved
        if later_raises:
            # short-circuit evaluation matters: `a and b` = `b if a else False`, `a or b` = `True if a else b`, the operands after the
            # first one in `do` blocks of their own (their `(← …)` are only run when Python evaluates the operand)
            code = parts[-1]
            for a in reversed(parts[:-1]):
                if isinstance(n.op, ast.And):
                    code = f"(← (if {a} then (do pure (decide {code})) else pure false : Py.M Bool)) = true"
                else:
                    code = f"(← (if {a} then pure true else (do pure (decide {code})) : Py.M Bool)) = true"
            self.raising = True
            return E(f"({code})", BOOL)
        sym = " ∧ " if isinstance(n.op, ast.And) else " ∨ "
        return E("(" + sym.join(parts) + ")", BOOL)

    def ex_Compare(self, n):
        if len(n.ops) != 1:
            raise Unsupported(n, "chained comparison")
        op = type(n.ops[0]).__name__
        a, b = self.ex(n.left), self.ex(n.comparators[0])
        if op in ("Is", "IsNot"):
            if not (is_opt(b.ty) and b.ty[1] is None):
                raise Unsupported(n, "`is` only against None")
            if a.ty is not None and not is_opt(a.ty):
                return E("False" if op == "Is" else "True", BOOL)          # a value of a non-optional type is never None
            return E(f"({a.code} = none)" if op == "Is" else f"({a.code} ≠ none)", BOOL)
        if op in ("In", "NotIn"):
            ent = self._keyed(b, a, n)
            if ent is None or "contains" not in ent:
                raise Unsupported(n, "`in` on something the spec does not declare as a keyed record")
            c = ent["contains"].format(self._key_code(a, ent, n), obj=b.code)
            return E(c if op == "In" else f"(¬ {c})", BOOL)
        if a.ty is None or b.ty is None:
            return E("_", BOOL)
        sym = {"Eq": "=", "NotEq": "≠", "Lt": "<", "LtE": "≤", "Gt": ">", "GtE": "≥"}.get(op)
        if sym is None:
            raise Unsupported(n, "comparison operator outside the subset")
        if op in ("Eq", "NotEq"):
            if BOOL in (a.ty, b.ty) and a.ty != b.ty:
                raise Unsupported(n, "comparison of a bool with a non-bool")
            t = join(a.ty, b.ty, n)                                        # None == 0 is simply False: compare at the joined type
            base = strip_opt(t)
            if self.pure is not None and isinstance(base, tuple) and base[0] == "Rec" and base[1] in self.pure.eq:
                # `==` of a record type for which the spec names Python's `__eq__` (e.g. numbers compare across int / float);
                # `None == None` is True, a value never equals None (`Py.optEq`)
                f = self.pure.eq[base[1]]
                if not is_opt(t):
                    c = f.format(a.code, b.code)
                else:
                    c = f"(Py.optEq (fun x y => {f.format('x', 'y')}) ({self.coerce(a, t, n)}) ({self.coerce(b, t, n)}))"
                return E(c if op == "Eq" else f"(¬ {c})", BOOL)
            if base == PYSTR:
                pass                                                       # a Python `str` kept as a Lean `String`: equality by value
            elif isinstance(base, tuple) and base[0] == "Rec":
                if not (self.pure and base[1] in [v[0] for v in self.pure.enums.values()]):
                    raise Unsupported(n, f"== on {lean_ty(base)}: only enum members are compared (by identity); __eq__ of other records is outside the subset")
            elif base not in (NAT, INT, BOOL, BYTES, STR):
                raise Unsupported(n, f"== on {lean_ty(base)}")
            if is_opt(t) and t[1] is None:
                raise Unsupported(n, "comparison of None with None")
            return E(f"({self.coerce(a, t, n)} {sym} {self.coerce(b, t, n)})", BOOL)
        if strip_opt(a.ty) not in (NAT, INT) or strip_opt(b.ty) not in (NAT, INT):
            raise Unsupported(n, "ordering of non-integers")
        a, b = self._num(a, n), self._num(b, n)
        t = join(a.ty, b.ty, n)
        return E(f"({self.coerce(a, t, n)} {sym} {self.coerce(b, t, n)})", BOOL)

    def ex_Call(self, n):
        f = n.func
        if isinstance(f, ast.Name) and f.id == "len" and len(n.args) == 1 and not n.keywords:
            a = self.ex(n.args[0])
            if strip_opt(a.ty) not in (BYTES, STR, None) and not (isinstance(a.ty, tuple) and a.ty[0] == "List"):
                raise Unsupported(n, "len of a non-sequence")
            if a.ty is None:
                return E("_", NAT)
            base = a.code if not is_opt(a.ty) else self.coerce(a, a.ty[1], n)
            return E(f"({base}).length", NAT)
        if isinstance(f, ast.Name) and f.id in ("bytes", "bytearray") and len(n.args) == 1 and not n.keywords:
            a = self.ex(n.args[0])
            if a.ty is None:
                return E("_", BYTES, fresh=True)
            if strip_opt(a.ty) != BYTES:
                raise Unsupported(n, f"{f.id}() of a non-byte-sequence")
            e = E(self.coerce(a, BYTES, n), BYTES, fresh=True)
            e.made_by = f.id
            return e
        if isinstance(f, ast.Name) and f.id in ("max", "min") and len(n.args) == 2 and not n.keywords:
            a, b = self._num(self.ex(n.args[0]), n), self._num(self.ex(n.args[1]), n)
            if a.ty is None or b.ty is None:
                return E("_", None)
            t = join(a.ty, b.ty, n)
            return E(f"({f.id} {self.coerce(a, t, n)} {self.coerce(b, t, n)})", t)
        if isinstance(f, ast.Name) and f.id == "sorted":
            return self._sorted(n)
        if isinstance(f, ast.Name) and f.id == "getattr" and len(n.args) == 3 and not n.keywords and self.pure is not None:
            # getattr(obj, "name", default): the spec names a term that already stands for "the attribute, or the default when the
            # object has none" and states which default that is
            rec, obj = self._record_of(n.args[0])
            nm = n.args[1]
            if rec is not None and isinstance(nm, ast.Constant) and isinstance(nm.value, str) and (rec, nm.value) in self.pure.getattr_defaults:
                tpl, ty, default_src = self.pure.getattr_defaults[(rec, nm.value)]
                if ast.unparse(n.args[2]) != default_src:
                    raise Unsupported(n, f"default of getattr is not `{default_src}`")
                return E(tpl.format(obj), ty)
            raise Unsupported(n, "getattr outside the subset")
        if isinstance(f, ast.Name) and f.id in ("isinstance", "issubclass") and len(n.args) == 2 and not n.keywords and self.pure is not None \
                and not self._module_binds(f.id):
            # isinstance(e, T) / issubclass(e, T) with T a builtin type name or a tuple of such names (a tuple = any of them): the spec
            # names, per record type of `e` and builtin type, what the test means on its abstract values
            table = self.pure.isinstance if f.id == "isinstance" else self.pure.issubclass
            t = n.args[1]
            names = [t] if isinstance(t, ast.Name) else list(t.elts) if isinstance(t, ast.Tuple) else []
            if table and names and all(isinstance(x, ast.Name) and x.id not in self.vt
                                       and ((x.id in self.BUILTIN_TYPES and not self._module_binds(x.id))
                                            or self._fn_imports_class(x.id, n)) for x in names):
                a = self.ex(n.args[0])
                if a.ty is None:
                    return E("_", BOOL)
                rec = a.ty[1] if isinstance(a.ty, tuple) and a.ty[0] == "Rec" else None
                if rec is None and f.id == "isinstance" and is_opt(a.ty) and isinstance(a.ty[1], tuple) and a.ty[1][0] == "Rec":
                    # W28: an Optional record: `isinstance(None, T)` is False for every class T the tables can name
                    rec = a.ty[1][1]
                    if not [x.id for x in names if (rec, x.id) not in table]:
                        return E(f"(({a.code}).any fun v => decide (" + " ∨ ".join(table[(rec, x.id)].format("v") for x in names) + "))", BOOL)
                missing = [x.id for x in names if (rec, x.id) not in table]
                if rec is None or missing:
                    raise Unsupported(n, f"{f.id} of a {lean_ty(a.ty)} against {missing or [x.id for x in names]}: not declared in the spec")
                return E("(" + " ∨ ".join(table[(rec, x.id)].format(a.code) for x in names) + ")", BOOL)
        if isinstance(f, ast.Name) and f.id == "hasattr" and len(n.args) == 2 and not n.keywords and self.pure is not None \
                and self.pure.hasattr and not self._module_binds("hasattr") and "hasattr" not in self.vt:
            # W32: hasattr(obj, name) for a record whose attribute lookup the spec names (`PureSpec.hasattr`: record -> template of
            # "the lookup of {0} succeeds"); hasattr itself never raises AttributeError
            rec, obj = self._record_of(n.args[0])
            nm = self.ex(n.args[1])
            if rec is None or rec not in self.pure.hasattr:
                raise Unsupported(n, "hasattr of an object whose attribute lookup the spec does not name")
            if nm.ty is None:
                return E("_", BOOL)
            if nm.ty != STR:
                raise Unsupported(n, "hasattr with a name that is not a str")
            return E(self.pure.hasattr[rec].format(nm.code, obj=obj), BOOL)
        if isinstance(f, ast.Attribute) and f.attr == "endswith" and len(n.args) == 1 and not n.keywords and self.pure is not None \
                and isinstance(n.args[0], ast.Constant) and isinstance(n.args[0].value, str) and n.args[0].value \
                and all(32 <= ord(c) < 127 and c not in '"\\' for c in n.args[0].value) \
                and not (isinstance(f.value, ast.Name) and f.value.id in self.pure.params and self.pure.params[f.value.id][1] is None):
            # W32: `s.endswith("<non-empty ASCII literal>")` on a `str` (List Char): the literal is a suffix of s
            a = self.ex(f.value)
            if a.ty is None:
                return E("_", BOOL)
            if a.ty == STR:
                return E(f'(List.isSuffixOf "{n.args[0].value}".toList {a.code})', BOOL)
        if isinstance(f, ast.Name) and f.id == "cast" and len(n.args) == 2 and not n.keywords:
            # typing.cast(T, e) returns e unchanged at run time; the type T is not consulted (the translator infers its own)
            if not self._imported_from("typing", "cast"):
                raise Unsupported(n, "`cast` is not typing.cast in this module")
            note = f"L{n.lineno}: cast({ast.unparse(n.args[0])}, …)"
            if note not in self.casts:
                self.casts.append(note)
            return self.ex(n.args[1])
        if self.pure is not None and isinstance(f, ast.Attribute) and not n.args and not n.keywords:
            rec, obj = self._record_of(f.value)
            if rec is not None and (rec, f.attr) in self.pure.methods:
                tpl, ty = self.pure.methods[(rec, f.attr)]
                return E(tpl.format(obj), ty)
        if self.pure is not None and (not n.keywords or self._kw_call(n)):
            # a function / method that is not translated: the spec names the hand-written Lean term that stands for it
            key, obj = None, ""
            if isinstance(f, ast.Name) and (None, f.id) in self.pure.calls:
                if f.id in self.SPEC_BUILTINS:
                    if self._module_binds(f.id):
                        raise Unsupported(n, f"`{f.id}` is re-bound in this module (not the builtin)")
                elif not self._imported_name(f.id) and not any(isinstance(d, ast.FunctionDef) and d.name == f.id for d in self.module.body):
                    raise Unsupported(n, f"`{f.id}` is neither imported nor defined at module level")
                if f.id in self.vt:
                    raise Unsupported(n, f"`{f.id}` is also a local")
                key = (None, f.id)
            elif isinstance(f, ast.Attribute):
                rec, obj = self._record_of(f.value)
                key = (rec, f.attr) if rec is not None else None
            if key in self.pure.calls:
                tpl, arg_tys, ret, raises = self.pure.calls[key]
                actual = list(n.args)
                if n.keywords:
                    # W28: trailing arguments passed by keyword, in the order of the parameter names the spec declares
                    names = self.pure.call_keywords.get(key)
                    kws = [k.arg for k in n.keywords]
                    if names is None or len(names) != len(arg_tys) or None in kws or kws != names[len(n.args):]:
                        raise Unsupported(n, f"keyword arguments of {key[1]}: the spec declares the parameters {names}")
                    actual += [k.value for k in n.keywords]
                if len(arg_tys) != len(actual):
                    raise Unsupported(n, f"{key[1]} takes {len(arg_tys)} argument(s) in the spec")
                args = []
                for a, want in zip(actual, arg_tys):
                    if isinstance(a, ast.Starred):
                        raise Unsupported(n, "starred argument")
                    e = self.ex(a)
                    args.append("_" if e.ty is None else self.coerce(e, want, n))     # arguments are evaluated left to right
                if raises:
                    self.raising = True
                return E(tpl.format(*args, obj=obj), ret)
        raise Unsupported(n, "call outside the subset")

    def _kw_call(self, n):
        """a call with keyword arguments: only a method of a spec'd record for which the spec declares parameter names"""
        f = n.func
        if isinstance(f, ast.Attribute) and isinstance(f.value, ast.Name):
            try:
                rec, _ = self._record_of(f.value)
            except Unsupported:
                return False
            return (rec, f.attr) in self.pure.call_keywords
        return False

    # builtins whose meaning on the abstract records of a `PureSpec` the spec has to name (`calls[(None, "isinstance")]`)
    SPEC_BUILTINS = {"isinstance", "int"}
    BUILTIN_TYPES = {"int", "float", "str", "bytes", "bytearray", "bool", "dict", "list", "tuple"}

    def _imported_from(self, module, name):
        for st in self.module.body:
            if isinstance(st, ast.ImportFrom) and st.module == module and st.level == 0 \
                    and any(a.name == name and a.asname in (None, name) for a in st.names):
                return True
        return False

    def ex_Subscript(self, n):
        # per-slot state read
        fld = self._state_access(n)
        if fld is not None:
            lf, t = self.slot.fields[fld]
            return E(f"slot.{lf}", t)
        a = self.ex(n.value)
        if a.ty is None:
            return E("_", None)
        if self.pure is not None and isinstance(a.ty, tuple) and a.ty[0] == "Rec" and not isinstance(n.slice, ast.Slice):
            k = self.ex(n.slice)
            ent = self._keyed(a, k, n)
            if ent is not None and "getitem" in ent:
                tpl, ty, raises = ent["getitem"]
                if raises:
                    self.raising = True
                return E(tpl.format(self._key_code(k, ent, n), obj=a.code), ty)
        if is_dict(a.ty):
            if isinstance(n.slice, ast.Slice):
                raise Unsupported(n, "slice of a dict")
            k = self.ex(n.slice)
            if k.ty is None:
                return E("_", a.ty[2])
            self.raising = True                                            # KeyError
            return E(f"(← Py.dictGet {a.code} {self.coerce(k, a.ty[1], n)})", a.ty[2])
        if a.ty == STR and not isinstance(n.slice, ast.Slice):
            i = self._num(self.ex(n.slice), n)
            if i.ty != NAT:
                raise Unsupported(n, "index of a str that is not provably non-negative")
            self.raising = True                                            # IndexError
            return E(f"(← Py.getItem {a.code} {i.code})", CHAR1)
        if is_list(a.ty) and not isinstance(n.slice, ast.Slice):
            i = self._num(self.ex(n.slice), n)
            if i.ty is None:
                return E("_", a.ty[1])
            if i.ty != NAT:
                raise Unsupported(n, "index of a list that is not provably non-negative")
            self.raising = True                                            # IndexError
            return E(f"(← Py.getItem {a.code} {i.code})", a.ty[1])
        if strip_opt(a.ty) != BYTES:
            raise Unsupported(n, "indexing of a non-byte-sequence")
        base = self.coerce(a, BYTES, n)
        s = n.slice
        if isinstance(s, ast.Slice):
            if s.step is not None:
                raise Unsupported(n, "slice step")
            lo = self._num(self.ex(s.lower), n) if s.lower is not None else None
            hi = self._num(self.ex(s.upper), n) if s.upper is not None else None
            if any(x is not None and x.ty is None for x in (lo, hi)):
                return E("_", BYTES, fresh=True)
            if all(x is None or x.ty == NAT for x in (lo, hi)):
                f = lambda x: "none" if x is None else f"(some {x.code})"
                return E(f"(Py.slice {base} {f(lo)} {f(hi)})", BYTES, fresh=True)
            f = lambda x: "none" if x is None else f"(some {self.coerce(x, INT, n)})"
            return E(f"(Py.sliceZ {base} {f(lo)} {f(hi)})", BYTES, fresh=True)
        i = self._num(self.ex(s), n)
        self.raising = True
        if i.ty == NAT:
            return E(f"(← Py.getItem {base} {i.code})", NAT)
        if i.ty is None:
            return E("_", NAT)
        return E(f"(← Py.getItemZ {base} {i.code})", NAT)

    def _keyed(self, obj: E, key: E, node):
        """entry of the spec for `key in obj` / `obj[key]` on a record that stands for a Python dict: first the entry for this very
        int literal (dicts with a distinguished key), else the entry for the key's type (NAT only: a provably non-negative int can
        never be one of the distinguished negative keys)"""
        if self.pure is None or not (isinstance(obj.ty, tuple) and obj.ty[0] == "Rec"):
            return None
        rec = obj.ty[1]
        if key.lit is not None and (rec, key.lit) in self.pure.keyed:
            return dict(self.pure.keyed[(rec, key.lit)], literal=True)
        if key.ty == NAT and (rec, NAT) in self.pure.keyed:
            lits = [k for (r, k) in self.pure.keyed if r == rec and isinstance(k, int)]
            if any(k >= 0 for k in lits):
                raise Unsupported(node, "a keyed record with a non-negative distinguished key and int keys")
            return self.pure.keyed[(rec, NAT)]
        return None

    def _key_code(self, key: E, ent, node):
        return "" if ent.get("literal") else key.code

    def _state_access(self, n):
        """`self._F[idx]` → python field name, else None"""
        if self.slot and isinstance(n, ast.Subscript) and isinstance(n.value, ast.Attribute) \
                and isinstance(n.value.value, ast.Name) and n.value.value.id == "self":
            fld = n.value.attr
            if fld not in self.slot.fields:
                raise Unsupported(n, f"`self.{fld}` is not a declared per-slot state list")
            if not (isinstance(n.slice, ast.Name) and n.slice.id == self.idx_var):
                raise Unsupported(n, f"per-slot state must be indexed by the slot index variable `{self.idx_var}`")
            return fld
        return None

    # ------------------------------------------------------------------------------------------------ type inference
    def infer(self, body, params):
        """flow-insensitive types of the locals: fixpoint over all assignments"""
        self.vt = dict(params)
        for _ in range(12):
            before = dict(self.vt)
            for st in ast.walk(ast.Module(body=body, type_ignores=[])):
                try:
                    if isinstance(st, ast.Assign) and len(st.targets) == 1:
                        self._infer_assign(st.targets[0], st.value, st)
                    elif isinstance(st, ast.AnnAssign) and st.value is not None and isinstance(st.target, ast.Name):
                        self._infer_assign(st.target, st.value, st)        # the annotation is not consulted
                    elif isinstance(st, ast.NamedExpr) and isinstance(st.target, ast.Name):
                        self._infer_assign(st.target, st.value, st)
                    elif isinstance(st, ast.AugAssign) and isinstance(st.target, ast.Name):
                        v = ast.BinOp(left=ast.Name(id=st.target.id, ctx=ast.Load()), op=st.op, right=st.value)
                        ast.copy_location(v, st)
                        ast.fix_missing_locations(v)
                        self._bind(st.target.id, self.ex(v).ty, st)
                    elif isinstance(st, ast.For):
                        names, is_tuple_target = self._for_targets(st)
                        it = self._iterable(st.iter)
                        el = it.ty[1] if it.ty else None
                        if not is_tuple_target:
                            self._bind(names[0], el, st)
                        elif is_tuple(el) and len(el[1]) == len(names):
                            for v, t in zip(names, el[1]):
                                self._bind(v, t, st)
                    elif isinstance(st, ast.Return) and st.value is not None and self.pure is not None:
                        self.pure_ret = join(self.pure_ret, self.ex(st.value).ty, st)
                except Unsupported:
                    if _ == 11:
                        raise
            if before == self.vt:
                break
        for v, t in self.vt.items():
            if self.pure and v in self.pure.params:
                continue
            if t is None or (is_opt(t) and t[1] is None) or (is_list(t) and t[1] is None):
                raise Unsupported(body[0], f"cannot infer a type for local `{v}`")

    def _bind(self, v, t, node):
        if v == "_":
            return
        self.vt[v] = join(self.vt.get(v), t, node)

    def _infer_assign(self, tgt, value, st):
        if isinstance(tgt, ast.Name):
            self._bind(tgt.id, self.ex(value).ty, st)
        elif isinstance(tgt, ast.Tuple):
            self._unpack_fmt(value, tgt)
            for el in tgt.elts:
                if not isinstance(el, ast.Name):
                    raise Unsupported(st, "tuple target must consist of names")
                self._bind(el.id, NAT, st)

    def _unpack_fmt(self, value, tgt):
        """widths of `bitstruct.unpack("u4u12", data)`"""
        if not (isinstance(value, ast.Call) and isinstance(value.func, ast.Attribute) and value.func.attr == "unpack"
                and isinstance(value.func.value, ast.Name) and value.func.value.id == "bitstruct"
                and len(value.args) == 2 and isinstance(value.args[0], ast.Constant) and isinstance(value.args[0].value, str)):
            raise Unsupported(value, "tuple assignment only from bitstruct.unpack(<literal format>, data)")
        fmt = value.args[0].value
        if not re.fullmatch(r"(u[0-9]+)+", fmt):
            raise Unsupported(value, f"bitstruct format {fmt!r}: only unsigned big-endian fields u<n>")
        widths = [int(w) for w in re.findall(r"u([0-9]+)", fmt)]
        if len(widths) != len(tgt.elts):
            raise Unsupported(value, "number of targets differs from the number of fields")
        return widths

    # ------------------------------------------------------------------------------------------------ statements
    def block(self, stmts, ind):
        """translate a statement list in a new scope; returns True if control cannot fall out of its end"""
        self.scopes.append(set())
        n_before = len(self.out)
        term = False
        for k, st in enumerate(stmts):
            if term:
                raise Unsupported(st, "unreachable statement")
            term = self.stmt(st, ind)
        if len(self.out) == n_before or all(l.strip().startswith("--") for l in self.out[n_before:]):
            self.emit(ind, "pure ()")
        self.scopes.pop()
        return term

    def stmt(self, st, ind):
        self.raising = False
        m = getattr(self, "st_" + type(st).__name__, None)
        if m is None:
            raise Unsupported(st, "statement form outside the subset")
        return bool(m(st, ind))

    def st_Pass(self, st, ind):
        self.emit(ind, "pure ()", st)

    def st_Expr(self, st, ind):
        v = st.value
        if isinstance(v, ast.Constant) and isinstance(v.value, str):
            return                                                          # doc string
        if isinstance(v, ast.Yield):
            return self._yield(st, v, ind)
        if isinstance(v, ast.Call) and isinstance(v.func, ast.Attribute) and isinstance(v.func.value, ast.Name) \
                and v.func.value.id == "self" and self.slot and v.func.attr in self.slot.events:
            return self._callback(st, v, ind)
        if isinstance(v, ast.Call) and isinstance(v.func, ast.Name) and v.func.id == "odxraise":
            return self._odxraise(st, v, ind)
        if isinstance(v, ast.Call) and isinstance(v.func, ast.Name) and v.func.id == "odxassert":
            return self._odxassert(st, v, ind)
        if isinstance(v, ast.Call) and isinstance(v.func, ast.Attribute) and isinstance(v.func.value, ast.Name) \
                and v.func.value.id == "warnings" and v.func.attr == "warn":
            return self._warn(st, v, ind)
        raise Unsupported(st, "expression statement outside the subset")

    def _module_binds(self, name):
        """is `name` bound at module level (import, def, class, assignment)? then it is not the builtin of that name"""
        for st in self.module.body:
            if isinstance(st, (ast.Import, ast.ImportFrom)) and any((a.asname or a.name.split(".")[0]) == name for a in st.names):
                return True
            if isinstance(st, (ast.FunctionDef, ast.ClassDef)) and st.name == name:
                return True
            if isinstance(st, (ast.Assign, ast.AnnAssign, ast.AugAssign)):
                tgts = st.targets if isinstance(st, ast.Assign) else [st.target]
                if any(isinstance(t, ast.Name) and t.id == name for tg in tgts for t in ast.walk(tg)):
                    return True
        return False

    def _odxassert(self, st, call, ind):
        """`odxassert(cond[, msg])` in STRICT MODE: `if not cond: raise OdxError(msg)` (exceptions.py); the condition is evaluated first"""
        if not self._imported_name("odxassert"):
            raise Unsupported(st, "`odxassert` is not imported in this module")
        kw = {k.arg: k.value for k in call.keywords}
        if not 1 <= len(call.args) <= 2 or set(kw) - {"message"} or (len(call.args) == 2 and kw):
            raise Unsupported(st, "odxassert(condition[, message]) (an error_type is outside the subset)")
        msg = call.args[1] if len(call.args) == 2 else kw.get("message")
        if msg is not None and self._message(msg):
            raise Unsupported(st, "message of odxassert evaluates a subscript (it is evaluated before the condition is tested)")
        t = call.args[0]
        if isinstance(t, ast.Call) and isinstance(t.func, ast.Name) and t.func.id == "isinstance" and len(t.args) == 2 \
                and not (self.pure is not None and (None, "isinstance") in self.pure.calls):
            # a typing assertion (like `assert isinstance(x, T)`): dropped and listed in the header — but its operand is evaluated
            e = self.ex(t.args[0])
            d = f"L{st.lineno}: {ast.unparse(st.value)}   (operand still evaluated)"
            if d not in self.dropped:
                self.dropped.append(d)
            self.emit(ind, f"let _ := {e.code}   -- (dropped: a typing assertion; its operand is evaluated)", st)
            return False
        c = self.ex(t)
        if c.ty not in (BOOL, None):
            raise Unsupported(st, "odxassert on a non-boolean (truthiness is outside the subset)")
        note = "`odxassert` is rendered for strict mode (exceptions.strict_mode = True): a false condition raises OdxError"
        if note not in self.notes:
            self.notes.append(note)
        self.emit(ind, f"if ¬ {c.code} then throw Py.Err.odxError", st)
        return False

    def _warn(self, st, call, ind):
        """`warnings.warn(msg, Category, stacklevel=k)`: no effect on the values computed (under the default warning filters a warning
        is printed / recorded, not raised: an assumption listed in the header); the message has to be harmless to format"""
        if not any(isinstance(s_, ast.Import) and any(a.name == "warnings" and a.asname is None for a in s_.names) for s_ in self.module.body):
            raise Unsupported(st, "`warnings` is not the imported standard module")
        kw = {k.arg: k.value for k in call.keywords}
        if not 1 <= len(call.args) <= 2 or set(kw) - {"stacklevel", "category"} or None in kw:
            raise Unsupported(st, "warnings.warn(message[, category][, stacklevel=…])")
        if self._message(call.args[0]):
            raise Unsupported(st, "message of a warning evaluates a subscript")
        for extra in list(call.args[1:]) + [kw[k] for k in kw]:
            if not isinstance(extra, (ast.Name, ast.Constant)):
                raise Unsupported(st, "warnings.warn: category / stacklevel must be a name / constant")
        note = "`warnings.warn(…)` is not rendered (assumption: warnings are not turned into exceptions by the warning filters)"
        if note not in self.notes:
            self.notes.append(note)
        self.emit(ind, "pure ()   -- a warning: no effect on the result", st)
        return False

    ODX_ERRORS = {"OdxError": "odxError", "EncodeError": "encodeError", "DecodeError": "decodeError", "KeyError": "keyError"}
    BUILTIN_ERRORS = {"KeyError"}                                          # not imported: must not be shadowed in the module

    def _odxraise(self, st, call, ind):
        """`odxraise(msg[, ErrorType])` in STRICT MODE (`exceptions.strict_mode = True`, the default and the mode the models follow):
        raises ErrorType (default OdxError). In non-strict mode it logs and *returns*; that mode is outside this rendering, but the
        statements after the call are still translated as reachable (the translator does not treat the call as a terminator)."""
        if not self._imported_name("odxraise"):
            raise Unsupported(st, "`odxraise` is not imported in this module")
        args = list(call.args)
        kw = {k.arg: k.value for k in call.keywords}
        if len(args) > 2 or set(kw) - {"message", "error_type"} or (len(args) > 0 and "message" in kw) or (len(args) > 1 and "error_type" in kw):
            raise Unsupported(st, "odxraise(message, error_type)")
        msg = args[0] if args else kw.get("message")
        ety = args[1] if len(args) > 1 else kw.get("error_type")
        pre = self._message(msg) if msg is not None else []
        kind = "OdxError"
        if ety is not None:
            if not (isinstance(ety, ast.Name) and ety.id in self.ODX_ERRORS):
                raise Unsupported(st, "error type of odxraise outside the subset")
            if ety.id in self.BUILTIN_ERRORS and self._module_binds(ety.id):
                raise Unsupported(st, f"`{ety.id}` is re-bound in this module (not the builtin)")
            kind = ety.id
        note = "`odxraise` is rendered for strict mode (exceptions.strict_mode = True): it raises"
        if note not in self.notes:
            self.notes.append(note)
        for k, line in enumerate(pre):
            self.emit(ind, line, st if k == 0 else None)
        self.emit(ind, f"throw Py.Err.{self.ODX_ERRORS[kind]}", None if pre else st)
        return False

    def _message(self, m):
        """a diagnostic text: a string literal, or an f-string over names / attribute chains / `type(e).__name__` (formatting those
        does not raise for the dataclasses, enums, ints and strings of the subset); its content is not modelled. A subscript `xs[i]`
        inside it IS evaluated (it can raise before the message is complete): returns the Lean statements that do so."""
        pre = []
        if isinstance(m, ast.Constant) and isinstance(m.value, str):
            return pre
        if isinstance(m, ast.JoinedStr):
            for part in m.values:
                if isinstance(part, ast.Constant):
                    continue
                if part.format_spec is not None:
                    raise Unsupported(m, "format spec in a message")
                v = part.value
                while True:
                    if isinstance(v, ast.Attribute):
                        v = v.value
                    elif isinstance(v, ast.Call) and isinstance(v.func, ast.Name) and v.func.id == "type" and len(v.args) == 1 \
                            and not v.keywords and not self._module_binds("type"):
                        v = v.args[0]
                    else:
                        break
                if isinstance(v, ast.Subscript):
                    e = self.ex(v)
                    pre.append(f"let _ := {e.code}   -- evaluated for the message")
                elif not isinstance(v, ast.Name):
                    raise Unsupported(m, "f-string over more than names / attributes / type(…).__name__ / subscripts")
            return pre
        raise Unsupported(m, "message is not a string literal")

    def _imported_name(self, name):
        for st in self.module.body:
            if isinstance(st, ast.ImportFrom) and any((a.asname or a.name) == name and a.name == name for a in st.names):
                return True
        return False

    def _event_arg(self, a, want, node):
        if isinstance(a, ast.Name) and self.alias.get(a.id):
            self.notes.append(f"L{node.lineno}: `{a.id}` is passed out while it may still alias the state buffer self.{self.alias[a.id][0]} "
                              f"(the event records its value at this moment)")
        e = self.ex(a)
        return self.coerce(e, want, node)

    def _callback(self, st, call, ind):
        ctor, keep, tys = self.slot.events[call.func.attr]
        if call.keywords or not call.args or not (isinstance(call.args[0], ast.Name) and call.args[0].id == self.idx_var):
            raise Unsupported(st, f"callback must be called positionally with the slot index `{self.idx_var}` first")
        if max(keep, default=0) >= len(call.args):
            raise Unsupported(st, "callback called with fewer arguments than the event constructor keeps")
        args = []
        self.emit(ind, f"-- L{st.lineno}: {self.src_lines[st.lineno - 1].strip()}")
        for k, a in enumerate(call.args[1:], 1):
            if k in keep:
                args.append("(" + self._event_arg(a, tys[keep.index(k)], st) + ")")
            else:
                e = self.ex(a)                                              # still has to be in the subset (and may raise)
                self.emit(ind, f"let _ := {e.code}   -- argument {k} of {call.func.attr} is not part of the event")
        self.emit(ind, f"evs := evs ++ [{ctor}{''.join(' ' + a for a in args)}]")

    def _yield(self, st, y, ind):
        ctor, ty = self.slot.yield_ctor
        v = y.value
        if not (self.slot and isinstance(v, ast.Tuple) and len(v.elts) == 2 and isinstance(v.elts[0], ast.Name)
                and v.elts[0].id == self.id_param):
            raise Unsupported(st, f"only `yield ({self.id_param}, <payload>)`")
        self.emit(ind, f"evs := evs ++ [{ctor} ({self._event_arg(v.elts[1], ty, st)})]", st)

    def st_Assert(self, st, ind):
        t = st.test
        if isinstance(t, ast.Call) and isinstance(t.func, ast.Name) and t.func.id == "isinstance":
            self.dropped.append(f"L{st.lineno}: {ast.unparse(st)}")
            self.emit(ind, "-- (dropped: a typing assertion)", st)
            return
        c = self.ex(t)
        if c.ty != BOOL:
            raise Unsupported(st, "assert on a non-boolean")
        self.emit(ind, f"if ¬ {c.code} then throw Py.Err.assertionError", st)

    def st_Return(self, st, ind):
        if self.slot:
            if st.value is not None:
                raise Unsupported(st, "a generator's return value")
            self.emit(ind, "return (slot, evs)", st)
        else:
            if st.value is None:
                raise Unsupported(st, "bare return in a pure function")
            e = self.ex(st.value)
            self.emit(ind, f"return {self.coerce(e, self.pure_ret, st)}", st)
        return True

    def st_Break(self, st, ind):
        if not self.in_loop:
            raise Unsupported(st, "break outside a loop")
        if self.loop_flags and self.loop_flags[-1] is not None:           # W32: leaving a fuel-bounded `while True:` — not "out of fuel"
            self.emit(ind, f"{self.loop_flags[-1]} := true", st)
            self.emit(ind, "break")
            return True
        self.emit(ind, "break", st)
        return True

    def st_Continue(self, st, ind):
        if not self.in_loop:
            raise Unsupported(st, "continue outside a loop")
        self.emit(ind, "continue", st)
        return True

    def _assign_local(self, v, e: E, st, ind, value_node=None, comment=True):
        cst = st if comment else None
        if self.pure is not None and v in self.pure.params:
            raise Unsupported(st, f"assignment to the parameter `{v}`")
        if is_dict(self.vt.get(v)) and self.declared(v):
            raise Unsupported(st, f"re-assignment of the dict `{v}`")
        if v == "_":
            self.emit(ind, f"let _ := {e.code}", cst)
            return
        if self.slot and v in (self.idx_var, self.id_param):
            raise Unsupported(st, f"assignment to `{v}`")
        t = self.vt.get(v)
        if t is None:
            raise Unsupported(st, f"no type inferred for `{v}`")
        if strip_opt(t) == BYTES and isinstance(value_node, ast.Name):
            raise Unsupported(st, "a byte-sequence local assigned from another name (two names for one possibly mutable object)")
        code = self.coerce(e, t, st)
        if self.declared(v):
            self.emit(ind, f"{mangle(v)} := {code}", cst)
        else:
            self.scopes[-1].add(v)
            self.emit(ind, f"let mut {mangle(v)} : {lean_ty(t)} := {code}", cst)
        # alias bookkeeping
        self.alias.pop(v, None)
        fld = self._state_access(value_node) if value_node is not None and isinstance(value_node, ast.Subscript) else None
        if fld in self.mutable_fields:
            self.alias[v] = (fld, True)

    def _assign_field(self, fld, e: E, st, ind, value_node):
        lf, t = self.slot.fields[fld]
        if fld in self.mutable_fields:
            ok = (isinstance(value_node, ast.Constant) and value_node.value is None) or getattr(e, "made_by", None) == "bytearray"
            if not ok:
                raise Unsupported(st, f"self.{fld} holds a mutable buffer that is later extended in place: only `bytearray(…)` "
                                      f"(a fresh mutable object) or None may be stored (anything else could be immutable or shared)")
        if strip_opt(t) == NAT and strip_opt(e.ty) == INT:
            raise Unsupported(st, f"a possibly negative integer is stored into self.{fld} (modelled as Nat)")
        self.emit(ind, f"slot := {{ slot with {lf} := {self.coerce(e, t, st)} }}", st)
        for v in [v for v, f in self.alias.items() if f[0] == fld]:
            del self.alias[v]

    def st_Assign(self, st, ind):
        if len(st.targets) != 1:
            raise Unsupported(st, "multiple assignment targets")
        tgt = st.targets[0]
        if isinstance(tgt, ast.Tuple):
            widths = self._unpack_fmt(st.value, tgt)
            d = self.ex(st.value.args[1])
            data = self.coerce(d, BYTES, st)
            self.emit(ind, f"Py.needBits {data} {sum(widths)}", st)
            off = 0
            for el, w in zip(tgt.elts, widths):
                self._assign_local(el.id, E(f"Py.bitsBE {data} {off} {w}", NAT), st, ind, comment=False)
                off += w
            return
        e = self.ex(st.value)
        if isinstance(tgt, ast.Name):
            return self._assign_local(tgt.id, e, st, ind, st.value)
        fld = self._state_access(tgt)
        if fld is not None:
            return self._assign_field(fld, e, st, ind, st.value)
        raise Unsupported(st, "assignment target outside the subset")

    # ---- W28: function-local class imports, narrowing of a union-typed parameter, bare annotations
    def _fn_imports_class(self, name, use):
        """is `name` bound by a `from … import name` that is a top-level statement of the function body before `use` (and nowhere else
        in the function)? Such a name may only be used as the class operand of a spec'd `isinstance`"""
        hits = [st for st in getattr(self, "fn_body", []) if isinstance(st, ast.ImportFrom)
                and any((a.asname or a.name) == name and a.asname is None for a in st.names)]
        return len(hits) == 1 and hits[0].end_lineno < use.lineno

    def st_ImportFrom(self, st, ind):
        if self.pure is None or st not in getattr(self, "fn_body", []) or any(a.asname is not None or a.name == "*" for a in st.names):
            raise Unsupported(st, "import outside the subset (only `from m import Name` as a top-level statement of a pure function)")
        for a in st.names:
            if a.name in self.vt or a.name in self.pure.params:
                raise Unsupported(st, f"`{a.name}` is imported and also a local")
        note = "function-local `from … import Class` is not rendered (assumption: the import succeeds; the name is only used in isinstance)"
        if note not in self.notes:
            self.notes.append(note)
        self.emit(ind, "pure ()   -- a local import: binds a class name", st)
        return False

    def mark_narrowing(self, body):
        """`if isinstance(p, C): … else: …` for a parameter `p` for which the spec declares (`PureSpec.narrow`) what `p` is when it is
        not a `C`: the reads of `p` in the `else` branch are rendered through that template (parameters are never assigned)"""
        if self.pure is None or not self.pure.narrow:
            return
        for st in ast.walk(ast.Module(body=body, type_ignores=[])):
            t = st.test if isinstance(st, ast.If) else None
            if not (isinstance(t, ast.Call) and isinstance(t.func, ast.Name) and t.func.id == "isinstance" and len(t.args) == 2
                    and not t.keywords and isinstance(t.args[0], ast.Name) and isinstance(t.args[1], ast.Name)
                    and (t.args[0].id, t.args[1].id) in self.pure.narrow and st.orelse):
                continue
            p = t.args[0].id
            for sub in st.orelse:
                for x in ast.walk(sub):
                    if isinstance(x, (ast.Lambda, ast.FunctionDef, ast.comprehension)):
                        bound = [y.id for y in ast.walk(x.target)] if isinstance(x, ast.comprehension) else [y.arg for y in ast.walk(x.args) if isinstance(y, ast.arg)]
                        if p in [b for b in bound if isinstance(b, str)]:
                            raise Unsupported(x, f"`{p}` is re-bound inside the narrowed branch")
                    if isinstance(x, ast.Name) and x.id == p and isinstance(x.ctx, ast.Load):
                        x._narrow = self.pure.narrow[(p, t.args[1].id)]

    def _definitely_assigns(self, stmts, v):
        for s_ in stmts:
            if isinstance(s_, ast.Assign) and len(s_.targets) == 1 and isinstance(s_.targets[0], ast.Name) and s_.targets[0].id == v:
                return True
            if isinstance(s_, ast.If) and s_.orelse and self._definitely_assigns(s_.body, v) and self._definitely_assigns(s_.orelse, v):
                return True
            if isinstance(s_, (ast.If, ast.For, ast.While, ast.Return, ast.Break, ast.Continue, ast.Try, ast.With)):
                return False                                               # anything that could read `v` or leave first: give up
        return False

    def _bare_annotation(self, st, ind):
        """`x: T` (no value): no run-time effect (annotations of locals are not evaluated). The Lean variable is declared here so that
        assignments in BOTH branches of the `if` that follows are visible after it; accepted only when that `if/else` — the very next
        statement — assigns `x` on every path before anything else happens (the initial value below is then never read)"""
        v = st.target.id
        blocks = [self.fn_body] + [b for n_ in ast.walk(ast.Module(body=self.fn_body, type_ignores=[]))
                                   for b in (getattr(n_, "body", None), getattr(n_, "orelse", None)) if isinstance(b, list)]
        nxt = None
        for b in blocks:
            for k, s_ in enumerate(b):
                if s_ is st and k + 1 < len(b):
                    nxt = b[k + 1]
        t = self.vt.get(v)
        if self.declared(v) or nxt is None or not self._definitely_assigns([nxt], v) or not isinstance(nxt, ast.If):
            raise Unsupported(st, "a bare annotation must be followed by an if/else that assigns the variable on every path")
        if not is_opt(t):
            raise Unsupported(st, f"bare annotation of a local of type {lean_ty(t)} (only Optional locals: declared as `none`)")
        self.scopes[-1].add(v)
        self.emit(ind, f"let mut {mangle(v)} : {lean_ty(t)} := none   -- declaration only: assigned on every path of the next statement", st)
        return False

    def st_AnnAssign(self, st, ind):
        if st.value is None and isinstance(st.target, ast.Name) and self.pure is not None:
            return self._bare_annotation(st, ind)
        if st.value is None or not isinstance(st.target, ast.Name):
            raise Unsupported(st, "annotated assignment outside the subset")
        return self._assign_local(st.target.id, self.ex(st.value), st, ind, st.value)

    def st_AugAssign(self, st, ind):
        tgt = st.target
        load = ast.copy_location(ast.Name(id=tgt.id, ctx=ast.Load()), st) if isinstance(tgt, ast.Name) else \
            ast.copy_location(ast.Subscript(value=tgt.value, slice=tgt.slice, ctx=ast.Load()), st)
        v = ast.copy_location(ast.BinOp(left=load, op=st.op, right=st.value), st)
        ast.fix_missing_locations(v)
        if isinstance(tgt, ast.Name):
            t = self.vt.get(tgt.id)
            if strip_opt(t) == BYTES:
                al = self.alias.get(tgt.id)
                if al and not al[1]:
                    raise Unsupported(st, f"`{tgt.id}` aliases a state buffer on some paths only: in-place `+=` is ambiguous")
                e = self.ex(v)
                if not self.declared(tgt.id):
                    raise Unsupported(st, f"local `{tgt.id}` is possibly unbound")
                self.emit(ind, f"{mangle(tgt.id)} := {self.coerce(e, t, st)}", st)
                if al:                                                      # in-place mutation of the aliased buffer
                    al = al[0]
                    lf, ft = self.slot.fields[al]
                    self.emit(ind, f"slot := {{ slot with {lf} := {self.coerce(E(mangle(tgt.id), t), ft, st)} }}"
                                   f"   -- `+=` extends the bytearray stored in self.{al} in place")
                return
            if is_list(t):
                # `xs += ys` extends the list object IN PLACE; the same as re-binding `xs = xs + ys` only if no other name can
                # refer to that object: `xs` must be a local that is only ever bound to fresh lists
                if not isinstance(st.op, ast.Add):
                    raise Unsupported(st, "augmented assignment on a list other than +=")
                if self.pure is None or tgt.id in self.pure.params or not self._only_fresh_lists(tgt.id):
                    raise Unsupported(st, f"`{tgt.id} += …` on a list that may be shared with another name (in-place extension)")
                r = self.ex(st.value)
                if r.ty is not None and not is_list(r.ty):
                    raise Unsupported(st, "list += non-list")
            e = self.ex(v)
            if not self.declared(tgt.id):
                raise Unsupported(st, f"local `{tgt.id}` is possibly unbound")
            self.emit(ind, f"{mangle(tgt.id)} := {self.coerce(e, t, st)}", st)
            return
        fld = self._state_access(tgt)
        if fld is not None:
            if fld in self.mutable_fields:
                raise Unsupported(st, "augmented assignment to a buffer field")
            return self._assign_field(fld, self.ex(v), st, ind, v)
        raise Unsupported(st, "augmented assignment target outside the subset")

    def _only_fresh_lists(self, v):
        """every binding of the local `v` in the function is a list display / comprehension / concatenation (a new object)"""
        for st in ast.walk(ast.Module(body=self.fn_body, type_ignores=[])):
            val = None
            if isinstance(st, ast.Assign) and any(isinstance(t, ast.Name) and t.id == v for tg in st.targets for t in ast.walk(tg)):
                val = st.value
            elif isinstance(st, (ast.AnnAssign, ast.NamedExpr)) and isinstance(st.target, ast.Name) and st.target.id == v:
                val = st.value
            elif isinstance(st, ast.For) and any(isinstance(t, ast.Name) and t.id == v for t in ast.walk(st.target)):
                return False
            if val is not None and not isinstance(val, (ast.List, ast.ListComp, ast.BinOp)):
                return False
        return True

    def _typing_guard(self, st):
        """`if not isinstance(x, T): odxraise(…)` — a typing assertion written with odxraise: dropped like `assert isinstance`"""
        t = st.test
        return (isinstance(t, ast.UnaryOp) and isinstance(t.op, ast.Not) and isinstance(t.operand, ast.Call)
                and isinstance(t.operand.func, ast.Name) and t.operand.func.id == "isinstance" and not st.orelse
                and len(st.body) == 1 and isinstance(st.body[0], ast.Expr) and isinstance(st.body[0].value, ast.Call)
                and isinstance(st.body[0].value.func, ast.Name) and st.body[0].value.func.id == "odxraise"
                and all(isinstance(a, ast.Constant) for a in st.body[0].value.args) and not st.body[0].value.keywords)

    def st_If(self, st, ind, kw="if"):
        if kw == "if" and self._typing_guard(st):
            d = f"L{st.lineno}: {ast.unparse(st.test)} → {ast.unparse(st.body[0])}"
            if d not in self.dropped:
                self.dropped.append(d)
            self.emit(ind, "-- (dropped: a typing assertion)", st)
            return False
        test = self._lift_walrus(st, ind, kw)
        c = self.ex(test)
        if c.ty != BOOL:
            raise Unsupported(st.test, "condition is not a boolean expression (truthiness is outside the subset)")
        self.emit(ind, f"{kw} {c.code} then", st)
        alias0 = dict(self.alias)
        t1 = self.block(st.body, ind + 1)
        alias1, self.alias = self.alias, dict(alias0)
        t2 = False
        if st.orelse:
            chain = len(st.orelse) == 1 and isinstance(st.orelse[0], ast.If)
            if chain:
                # an `elif` condition that can raise must not be evaluated before the first test: Lean lifts `(← …)` out of
                # the whole `if … else if …` chain, so such a chain is rendered as a nested `else` block instead
                em, self.emitting, self.raising = self.emitting, False, False
                try:
                    if any(isinstance(x, ast.NamedExpr) for x in ast.walk(st.orelse[0].test)):
                        self.raising = True                               # an assignment in the `elif` test: nested `else` block
                    else:
                        self.ex(st.orelse[0].test)
                finally:
                    self.emitting = em
                chain = not self.raising
            if chain:
                self.scopes.append(set())
                t2 = self.st_If(st.orelse[0], ind, kw="else if")
                self.scopes.pop()
            else:
                self.emit(ind, "else")
                t2 = self.block(st.orelse, ind + 1)
        alias2 = self.alias
        # merge the alias facts of the branches that fall through
        live = [a for a, t in ((alias1, t1), (alias2, t2)) if not t]
        merged = {}
        for v in set().union(*[set(a) for a in live]) if live else []:
            vals = {a.get(v) for a in live}
            flds = {x[0] for x in vals if x}
            if len(flds) > 1:
                raise Unsupported(st, f"`{v}` aliases different state buffers on different paths")
            merged[v] = vals.pop() if len(vals) == 1 else (flds.pop(), False)
        self.alias = merged
        return t1 and t2

    def _walrus_of(self, test):
        """the assignment expression of an `if` test, which must have the form `(x := e) <cmp> …`: the walrus is then the first thing
        the test evaluates, so `x = e` followed by `if x <cmp> …` is the same program"""
        walrus = [x for x in ast.walk(test) if isinstance(x, ast.NamedExpr)]
        if not walrus:
            return None
        if len(walrus) > 1 or not (isinstance(test, ast.Compare) and test.left is walrus[0] and isinstance(walrus[0].target, ast.Name)):
            raise Unsupported(test, "assignment expression other than `if (x := e) <cmp> …`")
        return walrus[0]

    def _lift_walrus(self, st, ind, kw):
        w = self._walrus_of(st.test)
        if w is None:
            return st.test
        if kw != "if":
            raise Unsupported(st, "assignment expression in an `elif` test of a flat chain")
        if self.pure is None:
            raise Unsupported(st, "assignment expression in a slot method")
        self.raising = False
        self._assign_local(w.target.id, self.ex(w.value), st, ind, w.value)
        self.raising = False
        new = ast.Compare(left=ast.copy_location(ast.Name(id=w.target.id, ctx=ast.Load()), w), ops=st.test.ops, comparators=st.test.comparators)
        return ast.copy_location(new, st.test)

    # ------------------------------------------------------------------------------------------------ loops (pure functions)
    def _iterable(self, it):
        if isinstance(it, (ast.GeneratorExp, ast.ListComp)):
            return self._comprehension(it)
        if isinstance(it, ast.Call) and isinstance(it.func, ast.Name) and it.func.id == "reversed" and len(it.args) == 1 and not it.keywords:
            # `reversed(xs)` of a list, consumed once by a loop / comprehension that does not mutate `xs` (the subset has no list
            # mutation): the elements from the last to the first
            if self._module_binds("reversed") or "reversed" in self.vt:
                raise Unsupported(it, "`reversed` is re-bound (not the builtin)")
            inner = self._iterable(it.args[0])
            if inner.ty is None:
                return E("_", None)
            return E(f"({inner.code}).reverse", inner.ty)
        e = self.ex(it)
        if e.ty == BYTES:
            return E(e.code, ("List", NAT))                               # iterating `bytes` / `bytearray` yields ints 0 … 255
        if e.ty is not None and not is_list(e.ty):
            raise Unsupported(it, "iteration over a non-list")
        return e

    def ex_ListComp(self, n):
        return self._comprehension(n)

    def ex_List(self, n):
        if not n.elts:
            return E("[]", ("List", None))                                 # a fresh empty list; its element type comes from the joins
        raise Unsupported(n, "list literal outside the subset")

    def _sorted(self, n):
        """`sorted(xs)` for ints and int pairs; `sorted(xs, key=lambda v: e, reverse=b)` with a natural-number key `e`.
        Python computes the keys of all elements first, in order (an exception of the key function propagates), then sorts
        stably; `reverse=True` sorts descending and still keeps elements with equal keys in their original order."""
        kw = {k.arg: k.value for k in n.keywords}
        if len(n.args) != 1 or set(kw) - {"key", "reverse"} or None in kw:
            raise Unsupported(n, "sorted(xs[, key=…][, reverse=…])")
        inner = self._iterable(n.args[0])
        el = inner.ty[1] if inner.ty else None
        if "key" not in kw:
            if "reverse" in kw:
                raise Unsupported(n, "sorted(reverse=…) without key")
            if el in (NAT, INT, None):
                fn = "Py.sortedNat" if el == NAT else "Py.sortedInt"
            elif el == tup(INT, INT):
                fn = "Py.sortedIntPair"                                    # tuples compare lexicographically
            else:
                raise Unsupported(n, f"sorted() of {lean_ty(el)} (only int and Tuple[int, int] with both components typed Int)")
            return E(f"({fn} {inner.code})", inner.ty)
        lam = kw["key"]
        if not (isinstance(lam, ast.Lambda) and len(lam.args.args) == 1 and not lam.args.defaults and not lam.args.vararg
                and not lam.args.kwarg and not lam.args.kwonlyargs and not lam.args.posonlyargs):
            raise Unsupported(n, "key must be a one-parameter lambda")
        v = lam.args.args[0].arg
        if v in self.vt and self.vt[v] is not None and v not in self.comp_vars:
            raise Unsupported(n, f"lambda parameter `{v}` has the name of a local or parameter")
        self.comp_vars.add(v)
        self.vt[v] = el
        rev = E("false", BOOL)
        if "reverse" in kw:
            saved, self.raising = self.raising, False
            rev = self.ex(kw["reverse"])
            if self.raising:
                raise Unsupported(n, "reverse= can raise")
            self.raising = saved
            if rev.ty not in (BOOL, None):
                raise Unsupported(n, "reverse= is not a bool (truthiness is outside the subset)")
        self.scopes.append({v})
        saved, self.raising = self.raising, False
        try:
            key = self.ex(lam.body)                                        # may raise: rendered in a `do` block of its own
        finally:
            self.scopes.pop()
            self.raising = saved
        if key.ty is None or el is None:
            return E("_", inner.ty)
        if key.ty != NAT:
            raise Unsupported(n, f"sort key of type {lean_ty(key.ty)} (only provably non-negative ints)")
        self.raising = True
        return E(f"(← Py.sortedByKeyM (fun {mangle(v)} => do pure {key.code}) {rev.code} {inner.code})", inner.ty)

    def _comprehension(self, n):
        """`[f(x) for x in xs]` / `(f(x) for x in xs)` consumed once, in order → `xs.map fun x => f x`; `f(x)` must not raise.
        `[x for x in xs if c(x)]` (the element is the loop variable itself, one condition) → `xs.filter fun x => c x`, or, when the
        condition can raise, `(← Py.filterM (fun x => do pure (c x)) xs)`: conditions in list order, the first exception propagates"""
        if len(n.generators) != 1:
            raise Unsupported(n, "nested comprehension")
        g = n.generators[0]
        if g.is_async or not isinstance(g.target, ast.Name):
            raise Unsupported(n, "comprehension with a non-name target")
        if g.ifs and not (len(g.ifs) == 1 and isinstance(n.elt, ast.Name) and n.elt.id == g.target.id):
            raise Unsupported(n, "comprehension with a condition whose element is not the loop variable itself / several conditions")
        v = g.target.id
        src = self._iterable(g.iter)
        el = src.ty[1] if src.ty else None
        if v in self.vt and self.vt[v] is not None and v not in self.comp_vars:
            raise Unsupported(n, f"comprehension variable `{v}` has the name of a local or parameter")
        self.comp_vars.add(v)
        self.vt[v] = el
        self.scopes.append({v})
        saved, self.raising = self.raising, False
        cond_raises = False
        try:
            if g.ifs:
                body = self.ex(g.ifs[0])
                cond_raises = self.raising
                if body.ty not in (BOOL, None):
                    raise Unsupported(g.ifs[0], "condition of a comprehension is not a boolean (truthiness is outside the subset)")
            else:
                body = self.ex(n.elt)
                if self.raising:
                    raise Unsupported(n.elt, "element expression of a comprehension can raise")
        finally:
            self.scopes.pop()
            self.raising = saved
        if body.ty is None or el is None:
            return E("_", None)
        if g.ifs:
            if cond_raises:
                self.raising = True
                return E(f"(← Py.filterM (fun {mangle(v)} => do pure {body.code}) {src.code})", src.ty)
            return E(f"({src.code}.filter fun {mangle(v)} => {body.code})", src.ty)
        return E(f"({src.code}.map fun {mangle(v)} => {body.code})", ("List", body.ty))

    def _for_targets(self, st):
        """names bound by the loop target: `v` or `a, b` (a flat tuple of names)"""
        t = st.target
        if isinstance(t, ast.Name):
            return [t.id], False
        if isinstance(t, ast.Tuple) and t.elts and all(isinstance(e, ast.Name) for e in t.elts):
            names = [e.id for e in t.elts]
            if len(set(names)) != len(names):
                raise Unsupported(st, "a name occurs twice in the loop target")
            return names, True
        raise Unsupported(st, "loop target must be a name or a flat tuple of names")

    def st_For(self, st, ind):
        if self.slot:
            raise Unsupported(st, "loops in a slot method")
        if st.orelse:
            raise Unsupported(st, "for/else")
        names, is_tuple_target = self._for_targets(st)
        it = self._iterable(st.iter)
        el = it.ty[1] if it.ty else None
        if is_tuple_target and not (is_tuple(el) and len(el[1]) == len(names)):
            raise Unsupported(st, f"cannot unpack elements of type {lean_ty(el)} into {len(names)} names")
        for v in names:
            # Python keeps the loop variable alive after the loop; Lean does not: a later use is then 'possibly unbound'.
            # A loop variable that is also a local declared outside would be *assigned* by Python but *shadowed* in Lean.
            if self.declared(v):
                raise Unsupported(st, f"loop variable `{v}` is also a local declared before the loop")
        pat = mangle(names[0]) if not is_tuple_target else "(" + ", ".join(mangle(v) for v in names) + ")"
        self.emit(ind, f"for {pat} in {it.code} do", st)
        self.scopes.append(set(names))
        self.in_loop += 1
        self.loop_flags.append(None)
        self.block(st.body, ind + 1)
        self.loop_flags.pop()
        self.in_loop -= 1
        self.scopes.pop()
        return False

    def st_While(self, st, ind):
        """W32: `while True:` (left by `break` / `return` only) → at most `fuel` iterations of the body (`for _ in List.replicate fuel ()`:
        structural recursion on the fuel), then the explicit outcome `return none` = OUT OF FUEL; every other result of the function is
        `some …`. `fuel` is a binder the spec declares. Python's loop has no bound: the equality theorems show that enough fuel exists."""
        if self.pure is None or self.slot:
            raise Unsupported(st, "`while` outside a pure function")
        if not (isinstance(st.test, ast.Constant) and st.test.value is True):
            raise Unsupported(st, "`while <condition>` (only `while True:`)")
        if st.orelse:
            raise Unsupported(st, "while/else")
        if self.in_loop:
            raise Unsupported(st, "`while True:` nested in a loop")
        for sub in st.body:
            for x in ast.walk(sub):
                if isinstance(x, (ast.For, ast.While, ast.comprehension, ast.Lambda)):
                    raise Unsupported(x, "loop / comprehension / lambda inside `while True:`")
        if not self.fuel_ok:
            raise Unsupported(st, "`while True:` needs a `(fuel : Nat)` binder in the spec, a non-Optional result, and no python name `fuel`")
        flag = f"broke_L{st.lineno}"
        if flag in self.vt:
            raise Unsupported(st, f"`{flag}` is a python name")
        self.emit(ind, f"let mut {flag} := false", st)
        self.emit(ind, "for _ in List.replicate fuel () do")
        self.scopes.append(set())
        self.in_loop += 1
        self.loop_flags.append(flag)
        self.block(st.body, ind + 1)
        self.loop_flags.pop()
        self.in_loop -= 1
        self.scopes.pop()
        self.emit(ind, f"if ¬ {flag} then return none   -- OUT OF FUEL: `fuel` iterations did not leave the loop")
        return False


# ======================================================================================================================
def _find_class(module, name):
    for n in module.body:
        if isinstance(n, ast.ClassDef) and n.name == name:
            return n
    raise Unsupported(module, f"class {name} not found")


def _find_func(scope, name):
    """the binding of `name` at the end of the class / module body: the LAST `def` (typing.overload stubs precede the implementation;
    a last definition that is itself decorated is rejected by the decorator check of the caller)"""
    found = [n for n in scope.body if isinstance(n, ast.FunctionDef) and n.name == name]
    if found:
        return found[-1]
    raise Unsupported(scope, f"function {name} not found")


def _src_of(src_lines, node):
    return "\n".join(src_lines[node.lineno - 1:node.end_lineno])


def translate_slot_method(src: str, cls_name: str, method: str, spec: SlotSpec, namespace: str, imports, rel_path: str) -> str:
    """a method `def m(self, id, data)` of a class with per-index state lists → per-slot Lean function + lookup + wrapper"""
    module = ast.parse(src)
    lines = src.splitlines()
    cls = _find_class(module, cls_name)
    fn = _find_func(cls, method)
    init = _find_func(cls, "__init__")
    tr = Translator(module, lines, spec)

    # ---- __init__: the initial slot and the mutable-buffer annotation
    init_vals, ids_src = _read_init(tr, init, spec)

    # ---- the method: parameters
    args = fn.args
    if args.vararg or args.kwarg or args.kwonlyargs or args.defaults or len(args.args) != 3 or args.args[0].arg != "self":
        raise Unsupported(fn, "expected `def m(self, <id>, <data>)`")
    tr.id_param, data_param = args.args[1].arg, args.args[2].arg
    body = list(fn.body)
    while body and isinstance(body[0], ast.Expr) and isinstance(body[0].value, ast.Constant) and isinstance(body[0].value.value, str):
        body.pop(0)
    # ---- first statement: the slot lookup
    look = body.pop(0) if body else None
    ok = (isinstance(look, ast.Try) and len(look.body) == 1 and not look.orelse and not look.finalbody and len(look.handlers) == 1)
    if ok:
        a, h = look.body[0], look.handlers[0]
        ok = (isinstance(a, ast.Assign) and len(a.targets) == 1 and isinstance(a.targets[0], ast.Name)
              and isinstance(a.value, ast.Call) and isinstance(a.value.func, ast.Attribute) and a.value.func.attr == "index"
              and isinstance(a.value.func.value, ast.Attribute) and a.value.func.value.attr == spec.ids_attr
              and isinstance(a.value.func.value.value, ast.Name) and a.value.func.value.value.id == "self"
              and len(a.value.args) == 1 and isinstance(a.value.args[0], ast.Name) and a.value.args[0].id == tr.id_param
              and isinstance(h.type, ast.Name) and h.type.id == "ValueError" and h.name is None
              and len(h.body) == 1 and isinstance(h.body[0], ast.Return) and h.body[0].value is None)
    if not ok:
        raise Unsupported(look or fn, f"a slot method must start with `try: i = self.{spec.ids_attr}.index({tr.id_param})` / "
                                      f"`except ValueError: return`")
    tr.idx_var = look.body[0].targets[0].id
    lookup_src = [l.strip() for l in lines[look.lineno - 1:look.end_lineno]]
    # nobody else may touch self.<attr> / the ids
    for n in ast.walk(ast.Module(body=body, type_ignores=[])):
        if isinstance(n, ast.Attribute) and isinstance(n.value, ast.Name) and n.value.id == "self":
            if n.attr not in spec.fields and n.attr not in spec.events:
                raise Unsupported(n, f"use of self.{n.attr} (neither declared per-slot state nor a callback)")

    tr.infer(body, {data_param: BYTES})
    tr.emitting = True
    tr.scopes = [{data_param}]
    tr.emit(1, f"let mut slot : {spec.slot_type} := slot0")
    tr.emit(1, f"let mut evs : List {spec.event_type} := []")
    tr.scopes.append(set())
    term = False
    for st in body:
        if term:
            raise Unsupported(st, "unreachable statement")
        term = tr.stmt(st, 1)
    if not term:
        tr.emit(1, "return (slot, evs)")

    h = hashlib.sha256((_src_of(lines, fn) + "\n" + _src_of(lines, init)).encode()).hexdigest()[:16]
    o = [f"import {i}" for i in imports]
    o.append(f"/-! GENERATED by harness/extract/py2lean.py from {rel_path} — do not edit.")
    o.append(f"    `{cls_name}.{method}` (lines {fn.lineno}–{fn.end_lineno}) and `{cls_name}.__init__`; sha256 of both sources: {h}…")
    o.append("    Every statement of the Python source is rendered in order; the Python line precedes its rendering.")
    o.append("    Rendering rules and the trusted primitives: harness/extract/py2lean.py (doc string), lean/OdxVerif/Model/PyRt.lean.")
    o.append("")
    o.append("    per-slot state (python attribute ↔ field):")
    for f_, (lf, t) in spec.fields.items():
        o.append(f"      self.{f_}[{tr.idx_var}] ↔ slot.{lf} : {lean_ty(t)}" + ("   (mutable bytearray buffer)" if f_ in tr.mutable_fields else ""))
    o.append("    callbacks ↔ events (kept positional arguments):")
    for cb, (ctor, keep, tys) in spec.events.items():
        o.append(f"      self.{cb} ↔ {ctor} {keep}")
    o.append(f"      yield ({tr.id_param}, p) ↔ {spec.yield_ctor[0]} p")
    o.append("    dropped typing assertions:")
    for d in tr.dropped:
        o.append(f"      {d}")
    if tr.notes:
        o.append("    notes:")
        for d in tr.notes:
            o.append(f"      {d}")
    o.append("-/")
    o.append("set_option linter.unusedVariables false")
    o.append(f"namespace {namespace}")
    o.append("open OdxVerif")
    o.append("")
    o.append(f"/-- `{cls_name}.__init__`: the state of one slot after construction -/")
    o.append(f"def slotInit : {spec.slot_type} :=")
    o.append("  { " + ", ".join(f"{spec.fields[f_][0]} := {v}" for f_, v in init_vals.items()) + " }")
    o.append("")
    o.append("/-- the slot lookup at the head of the method:")
    for l in lookup_src:
        o.append(f"      {l}")
    o.append("    (`none` = the `except ValueError: return` path) -/")
    o.append(f"def lookup (ids : List Nat) ({mangle(tr.id_param)} : Nat) : Option Nat := Py.listIndex ids {mangle(tr.id_param)}")
    o.append("")
    o.append(f"/-- body of `{method}` after the lookup, for the selected slot; `Except` = a Python exception -/")
    o.append(f"def {_camel(method)}E (slot0 : {spec.slot_type}) ({mangle(data_param)} : Bytes) : Py.M ({spec.slot_type} × List {spec.event_type}) := do")
    o += tr.out
    o.append("")
    o.append("/-- total version: an exception (there is none: `gen_stepE_eq`) leaves the slot alone and reports nothing -/")
    o.append(f"def {_camel(method)} (slot0 : {spec.slot_type}) ({mangle(data_param)} : Bytes) : {spec.slot_type} × List {spec.event_type} :=")
    o.append(f"  match {_camel(method)}E slot0 {mangle(data_param)} with")
    o.append("  | .ok r => r")
    o.append("  | .error _ => (slot0, [])")
    o.append("")
    if spec.wrapper:
        o.append("/-- the whole method on the multi-ID state: the lookup, then the body on the selected slot. Framing: the translator has")
        o.append(f"    checked that the body reads and writes `self._F[{tr.idx_var}]` for the looked-up index only and never assigns")
        o.append(f"    `{tr.idx_var}`, so every other slot is unchanged; the events carry the id that was looked up. -/")
        o.append(f"def feedE (st : St) (fr : Nat × Bytes) : Py.M (St × List (Nat × {spec.event_type})) :=")
        o.append("  match lookup st.ids fr.1 with")
        o.append("  | none => pure (st, [])")
        o.append(f"  | some {mangle(tr.idx_var)} => do")
        o.append(f"    let r ← {_camel(method)}E (st.slots.getD {mangle(tr.idx_var)} slotInit) fr.2")
        o.append(f"    pure ({{ st with slots := st.slots.set {mangle(tr.idx_var)} r.1 }}, r.2.map fun e => (fr.1, e))")
        o.append("")
        o.append("def feed (st : St) (fr : Nat × Bytes) : St × List (Nat × Ev) :=")
        o.append("  match feedE st fr with")
        o.append("  | .ok r => r")
        o.append("  | .error _ => (st, [])")
        o.append("")
        o.append(f"/-- `{cls_name}.__init__` -/")
        o.append("def stInit (ids : List Nat) : St := { ids := ids, slots := ids.map fun _ => slotInit }")
        o.append("")
    o.append(f"end {namespace}")
    return "\n".join(o) + "\n"


def _camel(name):
    parts = name.split("_")
    return parts[0] + "".join(p.capitalize() for p in parts[1:])


def _read_init(tr: Translator, init, spec: SlotSpec):
    """`__init__(self, ids)`: `self._IDS = ids` and `self._F = [c] * len(ids)` for every per-slot field"""
    if len(init.args.args) != 2:
        raise Unsupported(init, "expected `__init__(self, <ids>)`")
    ids = init.args.args[1].arg
    vals, ids_bound = {}, False
    for st in init.body:
        if isinstance(st, ast.If):
            # `if isinstance(ids, int): ids = [ids]` — normalisation of the argument type, a list in the model
            t = st.test
            if (isinstance(t, ast.Call) and isinstance(t.func, ast.Name) and t.func.id == "isinstance" and not st.orelse
                    and len(st.body) == 1 and isinstance(st.body[0], ast.Assign) and ast.unparse(st.body[0]) == f"{ids} = [{ids}]"):
                tr.dropped.append(f"L{st.lineno}: {ast.unparse(st.test)} → {ast.unparse(st.body[0])}   (a single id is a one-element list)")
                continue
            raise Unsupported(st, "__init__: statement outside the subset")
        if isinstance(st, ast.Assert) and isinstance(st.test, ast.Call) and getattr(st.test.func, "id", "") == "isinstance":
            tr.dropped.append(f"L{st.lineno}: {ast.unparse(st)}")
            continue
        if isinstance(st, ast.Expr) and isinstance(st.value, ast.Constant) and isinstance(st.value.value, str):
            continue
        tgt, value, ann = None, None, None
        if isinstance(st, ast.Assign) and len(st.targets) == 1:
            tgt, value = st.targets[0], st.value
        elif isinstance(st, ast.AnnAssign) and st.value is not None:
            tgt, value, ann = st.target, st.value, st.annotation
        if not (isinstance(tgt, ast.Attribute) and isinstance(tgt.value, ast.Name) and tgt.value.id == "self"):
            raise Unsupported(st, "__init__: statement outside the subset")
        if tgt.attr == spec.ids_attr:
            if not (isinstance(value, ast.Name) and value.id == ids):
                raise Unsupported(st, f"__init__: self.{spec.ids_attr} must be the list passed in (the model's `St.init ids` keeps it as is)")
            ids_bound = True
            continue
        if tgt.attr not in spec.fields:
            raise Unsupported(st, f"__init__: self.{tgt.attr} is not a declared per-slot state list")
        # [c] * len(ids)
        okv = (isinstance(value, ast.BinOp) and isinstance(value.op, ast.Mult) and isinstance(value.left, ast.List)
               and len(value.left.elts) == 1 and isinstance(value.right, ast.Call) and getattr(value.right.func, "id", "") == "len"
               and len(value.right.args) == 1
               and (ast.unparse(value.right.args[0]) == ids or (ids_bound and ast.unparse(value.right.args[0]) == f"self.{spec.ids_attr}")))
        if not okv:
            raise Unsupported(st, "__init__: a per-slot state list must be initialised as `[c] * len(<ids>)`")
        c = tr.ex(value.left.elts[0])
        vals[tgt.attr] = tr.coerce(c, spec.fields[tgt.attr][1], st)
        if ann is not None and "bytearray" in ast.unparse(ann):
            tr.mutable_fields.add(tgt.attr)
        elif strip_opt(spec.fields[tgt.attr][1]) == BYTES:
            raise Unsupported(st, f"__init__: byte buffer self.{tgt.attr} needs an annotation that tells bytes from bytearray")
    missing = [f for f in spec.fields if f not in vals]
    if missing or not ids_bound:
        raise Unsupported(init, f"__init__ does not initialise {missing or spec.ids_attr}")
    return vals, ids


# ======================================================================================================================
@dataclass
class PureSpec:
    """a module-level function (or method) without side effects over abstract records"""
    params: dict                 # python parameter -> (type, Lean name | None); None = usable through its attributes only
    binders: str                 # Lean binders of the generated function
    attrs: dict = field(default_factory=dict)      # (record, attribute) -> (Lean template, `{}` = the object; type)
    methods: dict = field(default_factory=dict)    # (record, argument-less method) -> (Lean template, type)
    # functions / methods WITH arguments that are not translated but stand for a hand-written Lean term:
    # (record | None for a module-level function, name) -> (template: `{0}`, `{1}` … = arguments, `{obj}` = the object;
    #                                                        [argument types], result type, can it raise?)
    calls: dict = field(default_factory=dict)
    getattr_defaults: dict = field(default_factory=dict)   # (record, attribute) -> (template, type, source text of the default)
    # records that stand for a Python dict: (record, int literal | NAT) -> {"contains": template, "getitem": (template, type, raises?)};
    # `{obj}` = the record, `{0}` = the key (typed entries only)
    keyed: dict = field(default_factory=dict)
    isinstance: dict = field(default_factory=dict)   # (record, builtin type name) -> template of `isinstance({0}, <type>)`
    issubclass: dict = field(default_factory=dict)   # (record, builtin type name) -> template of `issubclass({0}, <type>)`
    eq: dict = field(default_factory=dict)         # record -> template of Python's `==` on it (`{0}`, `{1}`: Bool-valued Lean term)
    enums: dict = field(default_factory=dict)      # plain `Enum` class -> (Lean inductive type, {member -> constructor}); ALL members
    # W28: a parameter of a union type `Union[A, C]` read in the `else` branch of `if isinstance(p, C):` — (parameter, class name) ->
    # (Lean template of "p, which is not a C", its type there)
    narrow: dict = field(default_factory=dict)
    call_keywords: dict = field(default_factory=dict)   # W28: key of `calls` -> ALL parameter names (trailing arguments may be passed by keyword)
    hasattr: dict = field(default_factory=dict)    # W32: record -> template of `hasattr({obj}, {0})` (Bool-valued Lean term, `{0}` : List Char)
    # W32: (attribute of self, parameter): the function's LAST statement may be `self.<attribute>[k] = <parameter>` with `k` a local — its only
    # effect on the object; rendered as `return k` ("the key under which the parameter is stored"); every read of self precedes it
    final_store: tuple = ()
    open_ns: str = ""                              # further namespaces opened in the generated file
    prelude: list = field(default_factory=list)    # hand-written Lean lines emitted before the function (glue named by templates)


def translate_pure_function(src: str, func: str, spec: PureSpec, namespace: str, imports, rel_path: str, lean_name=None,
                            cls_name=None) -> str:
    module = ast.parse(src)
    lines = src.splitlines()
    fn = _find_func(_find_class(module, cls_name) if cls_name else module, func)
    tr = Translator(module, lines, pure=spec)
    a = fn.args
    if a.vararg or a.kwarg or a.posonlyargs or [x.arg for x in a.args + a.kwonlyargs] != list(spec.params):
        raise Unsupported(fn, f"expected parameters {list(spec.params)}")
    if a.kwonlyargs:                                                       # W28: keyword-only parameters are parameters (how they are passed concerns the callers)
        tr.notes.append("keyword-only parameters (rendered as ordinary parameters): " + ", ".join(
            x.arg + ("" if d is None else "=" + ast.unparse(d)) for x, d in zip(a.kwonlyargs, a.kw_defaults)))
    for d in list(a.defaults) + [d for d in a.kw_defaults if d is not None]:   # defaults concern the callers, not the body
        if not isinstance(d, ast.Constant):
            raise Unsupported(d, "a parameter default that is not a constant (evaluated once, possibly shared)")
    if a.defaults:
        names = [x.arg for x in a.args][-len(a.defaults):]
        tr.notes.append("parameter defaults (they concern the callers; the rendering takes every parameter explicitly): " +
                        ", ".join(f"{k}={ast.unparse(d)}" for k, d in zip(names, a.defaults)))
    for d in fn.decorator_list:
        if ast.unparse(d) not in ("property", "override", "staticmethod"):
            raise Unsupported(d, "decorator outside the subset (property, override, staticmethod)")
    body = list(fn.body)
    while body and isinstance(body[0], ast.Expr) and isinstance(body[0].value, ast.Constant) and isinstance(body[0].value.value, str):
        body.pop(0)
    if spec.final_store and body:
        attr, par = spec.final_store
        last = body[-1]
        if not (isinstance(last, ast.Assign) and len(last.targets) == 1 and isinstance(last.targets[0], ast.Subscript)
                and ast.unparse(last.targets[0].value) == f"self.{attr}" and isinstance(last.targets[0].slice, ast.Name)
                and isinstance(last.value, ast.Name) and last.value.id == par and par in spec.params):
            raise Unsupported(last, f"the last statement must be `self.{attr}[<local>] = {par}` (the spec's final store)")
        if any(isinstance(x, ast.Return) for st_ in body for x in ast.walk(st_)):
            raise Unsupported(fn, "a `return` in a function with a final store")
        ret = ast.Return(value=last.targets[0].slice)
        ast.copy_location(ret, last)
        ast.fix_missing_locations(ret)
        body[-1] = ret
        tr.notes.append(f"L{last.lineno}: the final store `{ast.unparse(last)}` is the function's only effect on the object; "
                        f"rendered as `return {last.targets[0].slice.id}` (the key under which `{par}` is stored)")
    tr.fn_body = body
    tr.mark_narrowing(body)
    tr.infer(body, {k: v[0] for k, v in spec.params.items()})
    if any(isinstance(x, ast.While) for st_ in body for x in ast.walk(st_)):
        # W32: a function with a `while True:` loop returns `some r` for Python's result r and `none` = OUT OF FUEL
        tr.fuel_ok = bool(re.search(r"\(fuel : Nat\)", spec.binders)) and "fuel" not in tr.vt and tr.pure_ret is not None \
            and not is_opt(tr.pure_ret)
        if tr.fuel_ok:
            tr.pure_ret = opt(tr.pure_ret)
            tr.notes.append("`while True:` runs at most `fuel` iterations; the result is `some r` for Python's result r, `none` = OUT OF FUEL "
                            "(Python's loop has no bound; the tie shows which fuel suffices)")
    if tr.pure_ret is None:
        for st in ast.walk(ast.Module(body=body, type_ignores=[])):       # surface the reason (inference swallows it before its last round)
            if isinstance(st, ast.Return) and st.value is not None:
                tr.ex(st.value)
        raise Unsupported(fn, "no return type inferred")
    tr.emitting = True
    tr.scopes = [{k for k, v in spec.params.items() if v[1] is not None}, set()]
    term = False
    for st in body:
        if term:
            raise Unsupported(st, "unreachable statement")
        term = tr.stmt(st, 1)
    if not term:
        raise Unsupported(fn, "control can reach the end of the function (implicit `return None`)")
    name = lean_name or _camel(func)
    h = hashlib.sha256(_src_of(lines, fn).encode()).hexdigest()[:16]
    o = [f"import {i}" for i in imports]
    o.append(f"/-! GENERATED by harness/extract/py2lean.py from {rel_path} — do not edit.")
    o.append(f"    `{(cls_name + '.') if cls_name else ''}{func}` (lines {fn.lineno}–{fn.end_lineno}); sha256 of the source: {h}…")
    o.append("    records (python attribute / method ↔ Lean term):")
    for (rec, at), (tpl, ty) in list(spec.attrs.items()) + list(spec.methods.items()):
        o.append(f"      {rec}.{at} ↔ {tpl.format('·') or at} : {lean_ty(ty)}")
    for (rec, at), (tpl, ty, dflt) in spec.getattr_defaults.items():
        o.append(f"      getattr({rec}, {at!r}, {dflt}) ↔ {tpl.format('·')} : {lean_ty(ty)}   (the attribute, or {dflt} for objects without it)")
    for fname, table in (("isinstance", spec.isinstance), ("issubclass", spec.issubclass)):
        for (rec, ty), tpl in table.items():
            o.append(f"      {fname}({rec}, {ty}) ↔ {tpl.format('·')} : Bool")
    for rec, tpl in spec.hasattr.items():
        o.append(f"      hasattr({rec}, ‹name›) ↔ {tpl.format('‹name›', obj='·')} : Bool")
    for (par, cls), (tpl, ty) in spec.narrow.items():
        o.append(f"      {par}, read where `isinstance({par}, {cls})` is false ↔ {tpl.format(par)} : {lean_ty(ty)}")
    for rec, tpl in spec.eq.items():
        o.append(f"      {rec} == {rec} ↔ {tpl.format('‹a›', '‹b›')} : Bool   (None == None, a value never equals None: Py.optEq)")
    for (rec, k), ent in spec.keyed.items():
        ks = str(k) if isinstance(k, int) else f"‹{lean_ty(k)}›"
        kk = "" if isinstance(k, int) else "‹k›"
        if "contains" in ent:
            o.append(f"      {ks} in {rec} ↔ {ent['contains'].format(kk, obj='·')} : Bool")
        if "getitem" in ent:
            o.append(f"      {rec}[{ks}] ↔ {ent['getitem'][0].format(kk, obj='·')} : {lean_ty(ent['getitem'][1])}{' !' if ent['getitem'][2] else ''}")
    if spec.calls:
        o.append("    functions that are not translated (python call ↔ hand-written Lean term; `!` = can raise):")
        for (rec, fname), (tpl, arg_tys, ret, raises) in spec.calls.items():
            shown = tpl.format(*[f"‹{k}›" for k in range(len(arg_tys))], obj="·")
            o.append(f"      {(rec + '.') if rec else ''}{fname}({', '.join(lean_ty(t) for t in arg_tys)}) ↔ {shown} : {lean_ty(ret)}{' !' if raises else ''}")
    if tr.enum_uses:
        o.append("    enum members (compared by identity):")
        o += [f"      {k} ↔ {v}" for k, v in sorted(tr.enum_uses.items())]
    if tr.dropped:
        o.append("    dropped typing assertions:")
        o += [f"      {d}" for d in tr.dropped]
    if tr.casts:
        o.append("    typing.cast(T, e) rendered as e (the identity at run time):")
        o += [f"      {d}" for d in tr.casts]
    if tr.notes:
        o.append("    notes:")
        o += [f"      {d}" for d in tr.notes]
    o.append("-/")
    o.append("set_option linter.unusedVariables false")
    o.append(f"namespace {namespace}")
    o.append("open OdxVerif" + (f" {spec.open_ns}" if spec.open_ns else ""))
    o.append("")
    if spec.prelude:
        o.append("-- glue named by the spec of this translation (hand-written, part of the trusted rendering)")
        o += list(spec.prelude)
        o.append("")
    o.append(f"/-- `{func}`; `Except` = a Python exception -/")
    o.append(f"def {name}E {spec.binders} : Py.M ({lean_ty(tr.pure_ret)}) := do")
    o += tr.out
    o.append("")
    o.append(f"end {namespace}")
    return "\n".join(o) + "\n"


# ======================================================================================================================
# the ISO-TP instance
ISOTP_SPEC = SlotSpec(
    ids_attr="_can_rx_ids",
    fields={"_telegram_specified_len": ("specLen", NAT),
            "_telegram_data": ("data", opt(BYTES)),
            "_telegram_last_rx_fragment_idx": ("last", NAT)},
    events={"on_single_frame": ("Ev.single", [1], [BYTES]),
            "on_first_frame": ("Ev.first", [], []),
            "on_consecutive_frame": ("Ev.consec", [1], [NAT]),
            "on_flow_control_frame": ("Ev.flow", [1], [NAT]),
            "on_sequence_error": ("Ev.seqErr", [1, 2], [NAT, NAT]),
            "on_frame_type_error": ("Ev.typeErr", [1], [NAT]),
            "on_telegram_complete": ("Ev.complete", [1], [BYTES])},
    yield_ctor=("Ev.tele", BYTES))


def render_isotp(repo: Path) -> str:
    rel = "odxtools/isotp_state_machine.py"
    src = (Path(repo) / rel).read_text()
    return translate_slot_method(src, "IsoTpStateMachine", "decode_rx_frame", ISOTP_SPEC, "OdxVerif.IsoTp.Gen",
                                 ["OdxVerif.Model.IsoTp", "OdxVerif.Model.PyRt"], rel)


STATICLEN_SPEC = PureSpec(
    params={"codec": (("Rec", "CompositeCodec"), None)},
    binders="(parameters : List Param)",
    attrs={("CompositeCodec", "parameters"): ("parameters", ("List", ("Rec", "Param"))),
           ("Param", "byte_position"): ("{}.bytePos", opt(NAT)),
           ("Param", "bit_position"): ("{}.bitPos", opt(NAT))},
    methods={("Param", "get_static_bit_length"): ("{}.kind.staticBitLen", opt(NAT))})


def render_staticlen(repo: Path) -> str:
    rel = "odxtools/codec.py"
    src = (Path(repo) / rel).read_text()
    return translate_pure_function(src, "composite_codec_get_static_bit_length", STATICLEN_SPEC, "OdxVerif.Codec.Gen",
                                   ["OdxVerif.Model.Codec", "OdxVerif.Model.PyRt"], rel, lean_name="staticBitLength")


MUXKEY_SPEC = PureSpec(
    params={"self": (("Rec", "Multiplexer"), None)},
    binders="(cases : List MuxCaseD)",
    attrs={("Multiplexer", "cases"): ("cases", ("List", ("Rec", "MuxCaseD")))},
    # `_get_case_limits(case)` converts the LOWER-/UPPER-LIMIT texts with the key's physical type (`make_from`); for the integer
    # switch keys the model follows it is the pair of integers the model stores in the case (abstract record interface)
    calls={("Multiplexer", "_get_case_limits"): ("({0}.lower, {0}.upper)", [("Rec", "MuxCaseD")], tup(INT, INT), False)})


def render_muxkey(repo: Path) -> str:
    rel = "odxtools/multiplexer.py"
    src = (Path(repo) / rel).read_text()
    return translate_pure_function(src, "_get_default_case_key", MUXKEY_SPEC, "OdxVerif.Codec.Gen",
                                   ["OdxVerif.Model.Codec", "OdxVerif.Model.PyRt"], rel, lean_name="defaultCaseKey",
                                   cls_name="Multiplexer")


def regenerate_muxkey(repo, verif):
    return _write(Path(verif) / "lean" / "OdxVerif" / "Gen" / "MuxDefaultKey.lean", render_muxkey(Path(repo)))


LAYER_KIND = ("Rec", "LayerKind")
LAYER_ENUM = {"DiagLayerType": ("LayerKind", {"PROTOCOL": "protocol", "FUNCTIONAL_GROUP": "functionalGroup", "BASE_VARIANT": "baseVariant",
                                              "ECU_VARIANT": "ecuVariant", "ECU_SHARED_DATA": "ecuSharedData"})}

PRIO_SPEC = PureSpec(
    params={"self": (LAYER_KIND, "self_")},
    binders="(self_ : LayerKind)",
    enums=LAYER_ENUM, open_ns="OdxVerif.Gen")

# `ParentRef` is a type variable of the rendering: the three models that sort parent references (Inherit, Comparam, OdxLink) each
# have their own record for "a parent reference with everything the recursion delivered for it"; of `pr.layer` only `variant_type`
# is read (`kindOf pr`); `.inheritance_priority` is the property translated above
PARENTREFS_SPEC = PureSpec(
    params={"self": (("Rec", "HierarchyElement"), None), "reverse": (BOOL, "reverse")},
    binders="{ParentRef : Type} (kindOf : ParentRef → LayerKind) (parent_refs : List ParentRef) (reverse : Bool)",
    attrs={("HierarchyElement", "diag_layer_raw"): ("", ("Rec", "DiagLayerRaw")),
           ("ParentRef", "layer"): ("{}", ("Rec", "ParentRef.layer")),
           ("ParentRef.layer", "variant_type"): ("(kindOf {})", LAYER_KIND),
           ("LayerKind", "inheritance_priority"): ("(← inheritancePriorityE {})", NAT)},
    # DiagLayerRaw subclasses without PARENT-REFS (ECU-SHARED-DATA) have no attribute `parent_refs`: `parent_refs` is then []
    getattr_defaults={("DiagLayerRaw", "parent_refs"): ("parent_refs", ("List", ("Rec", "ParentRef")), "[]")},
    open_ns="OdxVerif.Gen")


def render_inherit_prio(repo: Path) -> str:
    rel1, rel2 = "odxtools/diaglayers/diaglayertype.py", "odxtools/diaglayers/hierarchyelement.py"
    a = translate_pure_function((Path(repo) / rel1).read_text(), "inheritance_priority", PRIO_SPEC, "OdxVerif.Inherit.Gen",
                                ["OdxVerif.Gen.LayerPrio", "OdxVerif.Model.PyRt"], rel1, cls_name="DiagLayerType")
    b = translate_pure_function((Path(repo) / rel2).read_text(), "_get_parent_refs_sorted_by_priority", PARENTREFS_SPEC,
                                "OdxVerif.Inherit.Gen", [], rel2, cls_name="HierarchyElement", lean_name="parentRefsSortedByPriority")
    return a + "\n" + b


def regenerate_inherit_prio(repo, verif):
    return _write(Path(verif) / "lean" / "OdxVerif" / "Gen" / "InheritPrio.lean", render_inherit_prio(Path(repo)))


ITEMKEY_SPEC = PureSpec(
    params={"self": (("Rec", "NamedItemList"), None), "item": (("Rec", "Item"), "item")},
    binders="(isDigit : Char → Bool) (kw : List Name) (item : Item)",
    attrs={("Item", "short_name"): ("{}.sn", STR)},
    # `c.isdigit()` for a one-character str `c` and `keyword.iskeyword` are tables of the interpreter: parameters of the rendering
    methods={("Char", "isdigit"): ("(isDigit {})", BOOL)},
    calls={(None, "iskeyword"): ("(kw.contains {0})", [STR], BOOL, False)},
    open_ns="OdxVerif.Nil")


def render_itemkey(repo: Path) -> str:
    rel = "odxtools/nameditemlist.py"
    return translate_pure_function((Path(repo) / rel).read_text(), "_get_item_key", ITEMKEY_SPEC, "OdxVerif.Nil.Gen",
                                   ["OdxVerif.Model.Nil", "OdxVerif.Model.PyRt"], rel, cls_name="NamedItemList", lean_name="itemKey")


# W32: `ItemAttributeList._add_attribute_item` — the unique-name computation as a pure function of (attribute lookup on the object BEFORE
# the call, the item's key): `hasattr(self, ·)` is the parameter `taken`, the abstract `self._get_item_key` the parameter `key`
ADDATTR_SPEC = PureSpec(
    params={"self": (("Rec", "ItemAttributeList"), None), "item": (("Rec", "Item"), "item")},
    binders="(taken : Name → Bool) (key : Item → Py.M (List Char)) (fuel : Nat) (item : Item)",
    calls={("ItemAttributeList", "_get_item_key"): ("(← key {0})", [("Rec", "Item")], STR, True)},
    hasattr={"ItemAttributeList": "(taken {0})"},
    final_store=("_item_dict", "item"),
    open_ns="OdxVerif.Nil")


def render_addattr(repo: Path) -> str:
    rel = "odxtools/nameditemlist.py"
    return translate_pure_function((Path(repo) / rel).read_text(), "_add_attribute_item", ADDATTR_SPEC, "OdxVerif.Nil.Gen",
                                   ["OdxVerif.Model.Nil", "OdxVerif.Model.PyRt"], rel, cls_name="ItemAttributeList", lean_name="addAttrName")


def regenerate_addattr(repo, verif):
    # f"{i}" of a non-negative int = its decimal digits (Nat.toDigits 10): checked on this interpreter for a range of values
    assert all(f"{i}" == str(i) and str(i).isdigit() and int(str(i)) == i and (i == 0 or str(i)[0] != "0") for i in range(0, 3000, 7))
    return _write(Path(verif) / "lean" / "OdxVerif" / "Gen" / "NilAddAttr.lean", render_addattr(Path(repo)))


def regenerate_itemkey(repo, verif):
    # the model reads `str.isdigit` as `Char.isDigit` (ASCII short names): the two agree on ASCII in this interpreter
    assert all(chr(c).isdigit() == (48 <= c <= 57) for c in range(128))
    return _write(Path(verif) / "lean" / "OdxVerif" / "Gen" / "NilItemKey.lean", render_itemkey(Path(repo)))


def limit_spec():
    return PureSpec(
        params={"self": (("Rec", "Limit"), None), "value": (("Rec", "Val"), "value")},
        binders="(l : Limit) (value : Val)",
        attrs={("Limit", "_value"): ("l.value", opt(("Rec", "Val"))),
               ("Limit", "interval_type"): ("l.itype", opt(("Rec", "IType")))},
        enums={"IntervalType": ("IType", {"OPEN": "open_", "CLOSED": "closed", "INFINITE": "infinite"})},
        # odxtypes.compare_odx_values is not translated (it dispatches on the run-time type of its arguments): it stands for the
        # model's `compareOdx`, whose error classes are embedded into `Py.Err` by `errOfCompu`
        calls={(None, "compare_odx_values"): ("(← Py.call errOfCompu (compareOdx {0} {1}))", [("Rec", "Val"), ("Rec", "Val")], INT, True)},
        prelude=["/-- error classes of the hand-written compu model as Python exceptions of the rendering -/",
                 "def errOfCompu : Compu.Err → Py.Err",
                 "  | .encode => .encodeError",
                 "  | .decode => .decodeError",
                 "  | .odx => .odxError",
                 "  | .foreign => .foreign"])


def render_limit(repo: Path) -> str:
    rel = "odxtools/compumethods/limit.py"
    src = (Path(repo) / rel).read_text()
    up = translate_pure_function(src, "complies_to_upper", limit_spec(), "OdxVerif.Compu.Gen",
                                 ["OdxVerif.Model.Compu", "OdxVerif.Model.PyRt"], rel, cls_name="Limit")
    lo_spec = limit_spec()
    lo_spec.prelude = []
    lo = translate_pure_function(src, "complies_to_lower", lo_spec, "OdxVerif.Compu.Gen", [], rel, cls_name="Limit")
    return up + "\n" + lo


def regenerate_limit(repo, verif):
    return _write(Path(verif) / "lean" / "OdxVerif" / "Gen" / "CompuLimit.lean", render_limit(Path(repo)))


# ---- `DiagLayer._find_services_for_uds`: the prefix tree (`Dict[int, Union[List[DiagService], PrefixTree]]`, the services of a node
# under the key -1) is the model's `Trie Service` (`Model/Dispatch.lean`): byte keys ↔ `Trie.find?`, key -1 ↔ `Trie.leaf` (`[]` = absent)
_TRIE, _SVC = ("Rec", "Trie Service"), ("Rec", "Service")
FINDSVC_SPEC = PureSpec(
    params={"self": (("Rec", "DiagLayer"), None), "message": (BYTES, "message")},
    binders="(tree : Trie Service) (message : Bytes)",
    attrs={("DiagLayer", "_prefix_tree"): ("tree", _TRIE)},
    keyed={("Trie Service", NAT): {"contains": "(({obj}).find? {0}).isSome", "getitem": ("(← Py.unwrapKey (({obj}).find? {0}))", _TRIE, True)},
           ("Trie Service", -1): {"contains": "(¬ ({obj}).leaf.isEmpty){0}",
                                   "getitem": ("(← Py.unwrapKey (if ({obj}).leaf.isEmpty then none else some ({obj}).leaf)){0}", ("List", _SVC), True)}},
    open_ns="OdxVerif.Dispatch")


def render_findsvc(repo: Path) -> str:
    rel = "odxtools/diaglayers/diaglayer.py"
    return translate_pure_function((Path(repo) / rel).read_text(), "_find_services_for_uds", FINDSVC_SPEC, "OdxVerif.Dispatch.Gen",
                                   ["OdxVerif.Model.Dispatch", "OdxVerif.Model.PyRt"], rel, cls_name="DiagLayer",
                                   lean_name="findServicesForUds")


def regenerate_findsvc(repo, verif):
    return _write(Path(verif) / "lean" / "OdxVerif" / "Gen" / "DispatchWalk.lean", render_findsvc(Path(repo)))


# ---- `Parameter.is_required` of the parameter classes the codec model knows + `composite_codec_get_required_parameters`
# (python file, class, constructor pattern of the model's `PKind`, binders, attrs): the dispatch `p.is_required` on the run-time class
# of `p` is the hand-written table `isRequiredE` below (class ↔ constructor of `PKind`, the same reading as the model's encoder)
_REQ_CLASSES = [
    ("codedconstparameter", "CodedConstParameter", ".codedConst _ _", "", "", {}),
    ("physicalconstantparameter", "PhysicalConstantParameter", ".physConst _ _", "", "", {}),
    ("valueparameter", "ValueParameter", ".value _ dflt", "(dflt : Option PVal)", " dflt",
     {("ValueParameter", "_physical_default_value"): ("dflt", opt(("Rec", "PVal")))}),
    ("reservedparameter", "ReservedParameter", ".reserved _", "", "", {}),
    ("matchingrequestparameter", "MatchingRequestParameter", ".matchingReq _ _", "", "", {}),
    ("nrcconstparameter", "NrcConstParameter", ".nrcConst _ _", "", "", {}),
    ("lengthkeyparameter", "LengthKeyParameter", ".lengthKey _", "", "", {}),
]


def render_required(repo: Path) -> str:
    parts, table = [], []
    for k, (mod, cls, pat, binders, args, attrs) in enumerate(_REQ_CLASSES):
        rel = f"odxtools/parameters/{mod}.py"
        name = cls[0].lower() + cls[1:] + "IsRequired"
        spec = PureSpec(params={"self": (("Rec", cls), None)}, binders=binders, attrs=attrs)
        parts.append(translate_pure_function((Path(repo) / rel).read_text(), "is_required", spec, "OdxVerif.Codec.Gen",
                                             ["OdxVerif.Model.Codec", "OdxVerif.Model.PyRt"] if k == 0 else [], rel, cls_name=cls,
                                             lean_name=name))
        table.append(f"  | {pat} => {name}E{args}")
    spec = PureSpec(
        params={"codec": (("Rec", "CompositeCodec"), None)},
        binders="(other : Py.M Bool) (parameters : List Param)",
        attrs={("CompositeCodec", "parameters"): ("parameters", ("List", ("Rec", "Param"))),
               ("Param", "is_required"): ("(← isRequiredE other {})", BOOL)},
        prelude=["/-- `p.is_required`: Python dispatches on the class of `p`; the classes the model knows are the constructors of `PKind`.",
                 "    `PKind.unsupported` stands for every other parameter class (SYSTEM, TABLE-KEY, TABLE-STRUCT, TABLE-ENTRY, DYNAMIC): what",
                 "    their `is_required` does is the parameter `other` of the rendering. -/",
                 "def isRequiredE (other : Py.M Bool) (p : Param) : Py.M Bool :=",
                 "  match p.kind with"] + table + ["  | .unsupported => other"])
    rel = "odxtools/codec.py"
    parts.append(translate_pure_function((Path(repo) / rel).read_text(), "composite_codec_get_required_parameters", spec,
                                         "OdxVerif.Codec.Gen", [], rel, lean_name="requiredParameters"))
    return "\n".join(parts)


def regenerate_required(repo, verif):
    return _write(Path(verif) / "lean" / "OdxVerif" / "Gen" / "CodecRequired.lean", render_required(Path(repo)))


_FRAG, _OBJ, _S, _DB, _FRAGDB = ("Rec", "Frag"), ("Rec", "Obj"), ("Rec", "String"), ("Rec", "Db"), ("Rec", "FragDb")

# `OdxLinkDatabase.resolve` / `resolve_lenient`: `self._db` is the model's `Db` (an insertion-ordered association list for the dict of
# dicts), `dict.get` the model's `dget` (keys: frozen dataclasses / str, compared by value), `isinstance(obj, T)` the model's
# `Obj.isInst` (class names); `expected_type` is the class name or None. `ref.ref_id` is an opaque `String` (only handed to `get`).
ODXLINK_SPEC = PureSpec(
    params={"self": (("Rec", "OdxLinkDatabase"), None), "ref": (("Rec", "Ref"), None), "expected_type": (opt(_S), "expected_type")},
    binders="(db : Db) (r : Ref) (expected_type : Option String)",
    attrs={("OdxLinkDatabase", "_db"): ("db", _DB),
           ("Ref", "ref_docs"): ("r.docs", ("List", _FRAG)),
           ("Ref", "ref_id"): ("r.refId", _S)},
    calls={("Db", "get"): ("(dget {obj} {0})", [_FRAG], opt(_FRAGDB), False),
           ("FragDb", "get"): ("(dget {obj} {0})", [_S], opt(_OBJ), False),
           (None, "isinstance"): ("(Obj.isInst {0} (some {1}))", [_OBJ, _S], BOOL, False)},
    open_ns="OdxVerif.OdxLink")


# `resolve_snref(target_short_name, items, expected_type)`: `items` a list of the model's `Obj`, `x.short_name` ↔ `Obj.name`
SNREF_SPEC = PureSpec(
    params={"target_short_name": (_S, "target_short_name"), "items": (("List", _OBJ), "items"), "expected_type": (opt(_S), "expected_type")},
    binders="(target_short_name : String) (items : List Obj) (expected_type : Option String)",
    attrs={("Obj", "short_name"): ("{}.name", _S)},
    calls={(None, "isinstance"): ("(Obj.isInst {0} (some {1}))", [_OBJ, _S], BOOL, False)},
    open_ns="OdxVerif.OdxLink")


def render_odxlink_resolve(repo: Path) -> str:
    rel = "odxtools/odxlink.py"
    src = (Path(repo) / rel).read_text()
    a = translate_pure_function(src, "resolve", ODXLINK_SPEC, "OdxVerif.OdxLink.Gen", ["OdxVerif.Model.OdxLink", "OdxVerif.Model.PyRt"],
                                rel, cls_name="OdxLinkDatabase")
    b = translate_pure_function(src, "resolve_lenient", ODXLINK_SPEC, "OdxVerif.OdxLink.Gen", [], rel, cls_name="OdxLinkDatabase")
    c = translate_pure_function(src, "resolve_snref", SNREF_SPEC, "OdxVerif.OdxLink.Gen", [], rel)
    return a + "\n" + b + "\n" + c


def regenerate_odxlink_resolve(repo, verif):
    return _write(Path(verif) / "lean" / "OdxVerif" / "Gen" / "OdxLinkResolve.lean", render_odxlink_resolve(Path(repo)))


# ---- `CompuScale.applies` (compuscale.py): the limits' `complies_to_lower/upper` are the functions translated above
# (`Gen/CompuLimit.lean`), `Limit.value` is translated too; `==` on AtomicOdxType values is the model's `Val.pyEq`
_VAL, _LIMIT = ("Rec", "Val"), ("Rec", "Limit")


def render_scale_applies(repo: Path) -> str:
    rel1, rel2 = "odxtools/compumethods/limit.py", "odxtools/compumethods/compuscale.py"
    vspec = PureSpec(params={"self": (_LIMIT, None)}, binders="(l : Limit)", attrs={("Limit", "_value"): ("l.value", opt(_VAL))})
    a = translate_pure_function((Path(repo) / rel1).read_text(), "value", vspec, "OdxVerif.Compu.Gen",
                                ["OdxVerif.Gen.CompuLimit"], rel1, cls_name="Limit", lean_name="limitValue")
    spec = PureSpec(
        params={"self": (("Rec", "CompuScale"), None), "internal_value": (_VAL, "internal_value")},
        binders="(s : Scale) (internal_value : Val)",
        attrs={("CompuScale", "lower_limit"): ("s.lo", opt(_LIMIT)), ("CompuScale", "upper_limit"): ("s.hi", opt(_LIMIT)),
               ("Limit", "value"): ("(← limitValueE {})", opt(_VAL))},
        calls={("Limit", "complies_to_lower"): ("(← compliesToLowerE {obj} {0})", [_VAL], BOOL, True),
               ("Limit", "complies_to_upper"): ("(← compliesToUpperE {obj} {0})", [_VAL], BOOL, True)},
        eq={"Val": "(Val.pyEq {0} {1})"})
    b = translate_pure_function((Path(repo) / rel2).read_text(), "applies", spec, "OdxVerif.Compu.Gen", [], rel2, cls_name="CompuScale",
                                lean_name="scaleApplies")
    return a + "\n" + b


# ---- `RatFuncSegment.applies`, `LinearSegment.physical_applies` / `internal_applies`: the type test against
# `<type>.python_type` and the two optional limits
_DTYPE = ("Rec", "DType")
_SEG_PRELUDE = [
    "/-- `isinstance(v, int)` / `isinstance(v, float)` / `isinstance(v, t.python_type)` on the model's values; `DataType.python_type` is `int`",
    "    for the integer types, `float` for the float types, `str` for the string types (a Python `bool` is not a value of the model) -/",
    "def valIsInt : Val → Bool | .int _ => true | _ => false",
    "def valIsFloat : Val → Bool | .flt _ => true | _ => false",
    "def valIsInst (v : Val) (t : DType) : Bool :=",
    "  match v with",
    "  | .int _ => t.isInt",
    "  | .flt _ => t.isFloat",
    "  | .str _ => t = .str"]


def _segment_spec(cls, param, binders, ty_attr, ty_term, lo_attr, lo_term, hi_attr, hi_term, prelude):
    return PureSpec(
        params={"self": (("Rec", cls), None), param: (_VAL, param)},
        binders=binders,
        attrs={(cls, ty_attr): (ty_term, _DTYPE), ("DType", "python_type"): ("{}", _DTYPE),
               (cls, lo_attr): (lo_term, opt(_LIMIT)), (cls, hi_attr): (hi_term, opt(_LIMIT))},
        calls={("Limit", "complies_to_lower"): ("(← compliesToLowerE {obj} {0})", [_VAL], BOOL, True),
               ("Limit", "complies_to_upper"): ("(← compliesToUpperE {obj} {0})", [_VAL], BOOL, True),
               (None, "isinstance"): ("(valIsInst {0} {1})", [_VAL, _DTYPE], BOOL, False)},
        isinstance={("Val", "int"): "(valIsInt {0})", ("Val", "float"): "(valIsFloat {0})"},
        issubclass={("DType", "float"): "({0}.isFloat)"},
        prelude=prelude)


def render_segment_applies(repo: Path) -> str:
    rel1, rel2 = "odxtools/compumethods/ratfuncsegment.py", "odxtools/compumethods/linearsegment.py"
    a = translate_pure_function((Path(repo) / rel1).read_text(), "applies",
                                _segment_spec("RatFuncSegment", "value", "(s : RatSeg) (value : Val)", "domain_type", "s.domTy",
                                              "lower_limit", "s.lo", "upper_limit", "s.hi", _SEG_PRELUDE),
                                "OdxVerif.Compu.Gen", ["OdxVerif.Gen.CompuLimit"], rel1, cls_name="RatFuncSegment", lean_name="ratSegApplies")
    b = translate_pure_function((Path(repo) / rel2).read_text(), "physical_applies",
                                _segment_spec("LinearSegment", "physical_value", "(s : LinSeg) (physical_value : Val)", "physical_type", "s.pty",
                                              "_physical_lower_limit", "s.plo", "_physical_upper_limit", "s.phi", []),
                                "OdxVerif.Compu.Gen", [], rel2, cls_name="LinearSegment", lean_name="linSegPhysApplies")
    c = translate_pure_function((Path(repo) / rel2).read_text(), "internal_applies",
                                _segment_spec("LinearSegment", "internal_value", "(s : LinSeg) (internal_value : Val)", "internal_type", "s.ity",
                                              "internal_lower_limit", "s.ilo", "internal_upper_limit", "s.ihi", []),
                                "OdxVerif.Compu.Gen", [], rel2, cls_name="LinearSegment", lean_name="linSegIntApplies")
    return a + "\n" + b + "\n" + c


def regenerate_segment_applies(repo, verif):
    return _write(Path(verif) / "lean" / "OdxVerif" / "Gen" / "CompuSegmentApplies.lean", render_segment_applies(Path(repo)))


def regenerate_scale_applies(repo, verif):
    return _write(Path(verif) / "lean" / "OdxVerif" / "Gen" / "CompuScaleApplies.lean", render_scale_applies(Path(repo)))


# ---- W28: `HierarchyElement.get_comparam` (diaglayers/hierarchyelement.py) ↔ `Comparam.getComparamIn` (Model/Comparam.lean)
_INST, _PROTOARG = ("Rec", "Inst"), ("Rec", "ProtoArg")
GETCOMPARAM_SPEC = PureSpec(
    params={"self": (("Rec", "HierarchyElement"), None), "cp_short_name": (PYSTR, "cp_short_name"), "protocol": (opt(_PROTOARG), "protocol")},
    binders="(refs : List Inst) (cp_short_name : String) (protocol : Option ProtoArg)",
    attrs={("HierarchyElement", "comparam_refs"): ("refs", ("List", _INST)),
           ("Inst", "short_name"): ("{}.name", PYSTR),
           ("Inst", "protocol_snref"): ("{}.proto", opt(PYSTR)),
           ("ProtoArg", "short_name"): ("(← ProtoArg.shortNameE {})", PYSTR)},
    isinstance={("ProtoArg", "Protocol"): "({}).isProtocol"},
    narrow={("protocol", "Protocol"): ("(ProtoArg.asName {})", opt(PYSTR))},
    open_ns="OdxVerif.Comparam",
    prelude=["/-- the argument `protocol: Optional[Union[str, Protocol]]`: a protocol name, or a `Protocol` layer object (of which the",
             "    function reads `short_name` only) -/",
             "inductive ProtoArg where",
             "  | name (s : String)",
             "  | layer (shortName : String)",
             "deriving Repr, DecidableEq",
             "/-- `isinstance(·, Protocol)` -/",
             "def ProtoArg.isProtocol : ProtoArg → Bool | .layer _ => true | .name _ => false",
             "/-- `·.short_name`: a `str` has no such attribute -/",
             "def ProtoArg.shortNameE : ProtoArg → Py.M String | .layer s => pure s | .name _ => throw Py.Err.attributeError",
             "/-- `protocol` where it is known not to be a `Protocol` (the `else` branch of the isinstance test): None or the string itself;",
             "    the value for a `Protocol` is never read there -/",
             "def ProtoArg.asName : Option ProtoArg → Option String | some (.name s) => some s | _ => none"])


def render_get_comparam(repo: Path) -> str:
    rel = "odxtools/diaglayers/hierarchyelement.py"
    src = (Path(repo) / rel).read_text()
    return translate_pure_function(src, "get_comparam", GETCOMPARAM_SPEC, "OdxVerif.Comparam.Gen", ["OdxVerif.Model.Comparam", "OdxVerif.Model.PyRt"],
                                   rel, cls_name="HierarchyElement")


# the typed accessors that read a simple parameter through `get_value()` and convert it with `int()` (`viaValue … intRes` of the model);
# `self.get_comparam` is the function generated above, `get_value` / `int` are the model's `getValue` / `pyInt`
_ACCESSORS_INT = ["get_can_func_req_id", "get_doip_logical_gateway_address", "get_doip_logical_tester_address",
                  "get_doip_logical_functional_address", "get_doip_routing_activation_type",
                  "get_can_baudrate"]          # the last one: `viaGuardedValue` (a complex value is answered with None)
ACCESSOR_SPEC = PureSpec(
    params={"self": (("Rec", "HierarchyElement"), None), "protocol": (opt(_PROTOARG), "protocol")},
    binders="(refs : List Inst) (protocol : Option ProtoArg)",
    calls={("HierarchyElement", "get_comparam"): ("(← getComparamE refs {0} {1})", [PYSTR, opt(_PROTOARG)], opt(_INST), True),
           ("Inst", "get_value"): ("(← Py.call errOfComparam (getValue {obj}))", [], PYSTR, True),
           (None, "int"): ("(← pyIntE {0})", [PYSTR], INT, True)},
    call_keywords={("HierarchyElement", "get_comparam"): ["cp_short_name", "protocol"]},
    attrs={("Inst", "value"): ("{}.value", ("Rec", "CVal"))},
    isinstance={("CVal", "str"): "({}).isStr"},
    open_ns="OdxVerif.Comparam",
    prelude=["/-- exception classes of the hand-written `getValue` (comparaminstance.py): `odxraise()` in strict mode is an OdxError -/",
             "def errOfComparam : Comparam.Err → Py.Err | .odx => .odxError | .foreign => .foreign",
             "/-- `int(s)` for a `str`: the model's `pyInt`; a string that is no integer literal raises ValueError (class `foreign`) -/",
             "def pyIntE (s : String) : Py.M Int := match pyInt s with | some i => pure i | none => throw Py.Err.foreign"])


def render_accessors(repo: Path) -> str:
    rel = "odxtools/diaglayers/hierarchyelement.py"
    src = (Path(repo) / rel).read_text()
    out = []
    for k, fn in enumerate(_ACCESSORS_INT):
        spec = ACCESSOR_SPEC if k == 0 else PureSpec(**{**ACCESSOR_SPEC.__dict__, "prelude": []})
        out.append(translate_pure_function(src, fn, spec, "OdxVerif.Comparam.Gen",
                                           ["OdxVerif.Gen.GetComparam"] if k == 0 else [], rel, cls_name="HierarchyElement"))
    return "\n".join(out)


def regenerate_accessors(repo, verif):
    return _write(Path(verif) / "lean" / "OdxVerif" / "Gen" / "ComparamAccessors.lean", render_accessors(Path(repo)))


def regenerate_get_comparam(repo, verif):
    return _write(Path(verif) / "lean" / "OdxVerif" / "Gen" / "GetComparam.lean", render_get_comparam(Path(repo)))


def _write(out: Path, new: str):
    if not out.exists() or out.read_text() != new:
        out.write_text(new)
    return out


def regenerate_staticlen(repo, verif):
    return _write(Path(verif) / "lean" / "OdxVerif" / "Gen" / "CodecStaticLen.lean", render_staticlen(Path(repo)))


def regenerate_isotp(repo, verif):
    out = Path(verif) / "lean" / "OdxVerif" / "Gen" / "IsoTpStep.lean"
    new = render_isotp(Path(repo))
    if not out.exists() or out.read_text() != new:
        out.write_text(new)
    return out


if __name__ == "__main__":
    import sys
    repo = Path(sys.argv[1]) if len(sys.argv) > 1 else Path("/repo")
    if len(sys.argv) > 2:
        for regen in (regenerate_isotp, regenerate_staticlen, regenerate_muxkey, regenerate_limit, regenerate_inherit_prio,
                      regenerate_itemkey, regenerate_odxlink_resolve, regenerate_required,
                      regenerate_findsvc, regenerate_scale_applies, regenerate_segment_applies, regenerate_get_comparam, regenerate_accessors, regenerate_addattr):
            print(regen(repo, Path(sys.argv[2])))
    else:
        for render in (render_isotp, render_staticlen, render_muxkey, render_limit, render_inherit_prio, render_itemkey, render_odxlink_resolve, render_required,
                       render_findsvc, render_scale_applies, render_segment_applies, render_get_comparam, render_accessors, render_addattr):
            sys.stdout.write(render(repo))
