"""Extractor (DESIGN.md §2.2): regenerate lean/OdxVerif/Gen/LayerPrio.lean from the source of odxtools.

Read with Python `ast` only (nothing is imported or executed):
  * odxtools/diaglayers/diaglayertype.py : members of `DiagLayerType` and `PRIORITY_OF_DIAG_LAYER_TYPE`
  * odxtools/diaglayers/hierarchyelement.py (+ basevariant/ecuvariant/functionalgroup.py): for every object
    category subject to value inheritance the expression yielding the local objects and the `ParentRef`
    attribute used as NOT-INHERITED list (the lambdas / nested functions handed to `_compute_available_objects`),
    and the attribute of the layer the result is stored in
  * odxtools/parentref.py : which XML path feeds which not_inherited_* attribute
The generated file is compared at run time with the live objects by harness/props/c09.py.
"""
import ast
from pathlib import Path

OUT_REL = "lean/OdxVerif/Gen/LayerPrio.lean"


class ExtractError(Exception):
    pass


def _camel(member: str) -> str:
    parts = member.lower().split("_")
    return parts[0] + "".join(p.capitalize() for p in parts[1:])


def _cls(tree, name):
    for n in ast.walk(tree):
        if isinstance(n, ast.ClassDef) and n.name == name:
            return n
    raise ExtractError(f"class {name} not found")


def _func(node, name):
    for n in ast.walk(node):
        if isinstance(n, ast.FunctionDef) and n.name == name:
            return n
    raise ExtractError(f"function {name} not found")


def extract_priorities(repo: Path):
    """[(member name, xml value, priority)] in enum order"""
    tree = ast.parse((repo / "odxtools/diaglayers/diaglayertype.py").read_text())
    cls = _cls(tree, "DiagLayerType")
    members = []
    for st in cls.body:
        if isinstance(st, ast.Assign) and len(st.targets) == 1 and isinstance(st.targets[0], ast.Name) \
                and isinstance(st.value, ast.Constant) and isinstance(st.value.value, str):
            members.append((st.targets[0].id, st.value.value))
    prio = None
    fn = _func(cls, "inheritance_priority")
    ret = None
    for n in ast.walk(fn):
        tgt = None
        if isinstance(n, ast.AnnAssign) and isinstance(n.target, ast.Name):
            tgt, val = n.target.id, n.value
        elif isinstance(n, ast.Assign) and len(n.targets) == 1 and isinstance(n.targets[0], ast.Name):
            tgt, val = n.targets[0].id, n.value
        if tgt == "PRIORITY_OF_DIAG_LAYER_TYPE":
            if not isinstance(val, ast.Dict):
                raise ExtractError("PRIORITY_OF_DIAG_LAYER_TYPE is not a dict display")
            prio = {}
            for k, v in zip(val.keys, val.values):
                if not (isinstance(k, ast.Attribute) and isinstance(k.value, ast.Name) and k.value.id == "DiagLayerType"):
                    raise ExtractError("priority key is not DiagLayerType.X")
                if not (isinstance(v, ast.Constant) and type(v.value) is int and v.value >= 0):
                    raise ExtractError("priority value is not a non-negative int literal")
                if k.attr in prio:
                    raise ExtractError(f"duplicate priority key {k.attr}")
                prio[k.attr] = v.value
        if isinstance(n, ast.Return):
            ret = ast.unparse(n.value)
    if prio is None:
        raise ExtractError("PRIORITY_OF_DIAG_LAYER_TYPE not found")
    if ret != "PRIORITY_OF_DIAG_LAYER_TYPE[self]":
        raise ExtractError(f"inheritance_priority returns {ret!r}, expected a plain table lookup")
    if set(prio) != {m for m, _ in members}:
        raise ExtractError(f"priority table keys {sorted(prio)} != enum members {sorted(m for m, _ in members)}")
    return [(m, x, prio[m]) for m, x in members]


def _lambda_attr(lam, argname_expected=None):
    """`lambda x: x.attr` -> 'attr';  `lambda x: []` -> ''"""
    if not isinstance(lam, ast.Lambda):
        raise ExtractError("expected a lambda")
    arg = lam.args.args[0].arg
    b = lam.body
    if isinstance(b, ast.List) and not b.elts:
        return ""
    if isinstance(b, ast.Attribute) and isinstance(b.value, ast.Name) and b.value.id == arg:
        return b.attr
    raise ExtractError(f"unexpected lambda body {ast.unparse(b)}")


def _nested_returns(fn, inner):
    f = _func(fn, inner)
    rets = [ast.unparse(n.value) for n in sorted((n for n in ast.walk(f) if isinstance(n, ast.Return) and n.value is not None),
                                                 key=lambda n: n.lineno)]
    if not rets:
        raise ExtractError(f"{inner} has no return")
    return rets


def _not_inherited_of(fn):
    rets = _nested_returns(fn, "not_inherited_fn")
    if len(rets) != 1:
        raise ExtractError("not_inherited_fn has several returns")
    r = rets[0]
    if r == "[]":
        return ""
    if r.startswith("parent_ref."):
        return r[len("parent_ref."):]
    raise ExtractError(f"unexpected not_inherited_fn result {r}")


def extract_categories(repo: Path):
    """[(where the view is stored, expression for the local objects, ParentRef attribute or '')]"""
    rows = []
    tree = ast.parse((repo / "odxtools/diaglayers/hierarchyelement.py").read_text())
    he = _cls(tree, "HierarchyElement")
    # the generic merge must be handed the two callables unchanged
    for meth in [n for n in he.body if isinstance(n, ast.FunctionDef) and n.name.startswith("_compute_available_")]:
        if meth.name in ("_compute_available_objects", "_compute_available_commmunication_parameters"):
            continue
        calls = [n for n in ast.walk(meth) if isinstance(n, ast.Call) and ast.unparse(n.func) == "self._compute_available_objects"]
        if len(calls) != 1:
            raise ExtractError(f"{meth.name}: expected exactly one call of _compute_available_objects")
        args = [ast.unparse(a) for a in calls[0].args]
        if meth.name == "_compute_available_ddd_spec_items":
            if args != ["get_local_objects_fn", "exclude"]:
                raise ExtractError(f"{meth.name}: arguments {args}")
            if _nested_returns(meth, "get_local_objects_fn")[-1] != "include(dl.diag_layer_raw.diag_data_dictionary_spec)":
                raise ExtractError(f"{meth.name}: local getter changed")
            continue
        if args != ["get_local_objects_fn", "not_inherited_fn"]:
            raise ExtractError(f"{meth.name}: arguments {args}")
    # methods -> (local getter, exclusion attribute)
    meths = {}
    for meth in [n for n in he.body if isinstance(n, ast.FunctionDef) and n.name.startswith("_compute_available_")]:
        if meth.name in ("_compute_available_objects", "_compute_available_commmunication_parameters",
                         "_compute_available_ddd_spec_items"):
            continue
        meths[meth.name] = (_nested_returns(meth, "get_local_objects_fn")[-1], _not_inherited_of(meth))
    # _compute_value_inheritance: self._X = NamedItemList(var), var = self._compute_available_M(...)
    cvi = _func(he, "_compute_value_inheritance")
    var_of = {}
    for st in cvi.body:
        if isinstance(st, ast.Assign) and isinstance(st.targets[0], ast.Name) and isinstance(st.value, ast.Call):
            f = ast.unparse(st.value.func)
            if f.startswith("self._compute_available_"):
                var_of[st.targets[0].id] = f[len("self."):]
    for st in cvi.body:
        if isinstance(st, ast.Assign) and isinstance(st.targets[0], ast.Attribute) and isinstance(st.value, ast.Call) \
                and ast.unparse(st.value.func).startswith("NamedItemList") and len(st.value.args) == 1:
            a = ast.unparse(st.value.args[0])
            if a in var_of:
                m = var_of[a]
                rows.append((ast.unparse(st.targets[0]), meths[m][0], meths[m][1]))
            elif a in ("diag_services", "single_ecu_jobs"):
                # filtered from diag_comms by isinstance
                src = next((ast.unparse(s.value) for s in cvi.body if isinstance(s, ast.Assign)
                            and ast.unparse(s.targets[0]) == a), "?")
                rows.append((ast.unparse(st.targets[0]), src, "(subset of self._diag_comms)"))
    # _finalize_init: ddd-spec items and unit groups
    fin = _func(he, "_finalize_init")
    ddd_var = {}
    for st in fin.body:
        if isinstance(st, ast.Assign) and isinstance(st.targets[0], ast.Name) and isinstance(st.value, ast.Call):
            f = ast.unparse(st.value.func)
            if f == "self._compute_available_ddd_spec_items":
                if len(st.value.args) != 2:
                    raise ExtractError("ddd_spec_items call: expected two positional lambdas")
                inc = _lambda_attr(st.value.args[0])
                exc = _lambda_attr(st.value.args[1])
                ddd_var[st.targets[0].id] = ("ddd_spec." + inc, exc)
            elif f == "self._compute_available_unit_groups":
                m = meths["_compute_available_unit_groups"]
                ddd_var[st.targets[0].id] = m
    ddds_call = None
    for n in ast.walk(fin):
        if isinstance(n, ast.Call) and ast.unparse(n.func) == "DiagDataDictionarySpec":
            ddds_call = n
    if ddds_call is None:
        raise ExtractError("DiagDataDictionarySpec(...) not found in _finalize_init")
    for kw in ddds_call.keywords:
        v = ast.unparse(kw.value)
        if v in ddd_var:
            rows.append(("ddds." + kw.arg, ddd_var[v][0], ddd_var[v][1]))
    # unit groups end up in UnitSpec(unit_groups=NamedItemList(unit_groups), ...)
    us = [n for n in ast.walk(fin) if isinstance(n, ast.Call) and ast.unparse(n.func) == "UnitSpec"]
    ug_args = set()
    for c in us:
        for kw in c.keywords:
            if kw.arg == "unit_groups":
                ug_args.add(ast.unparse(kw.value))
    if ug_args != {"NamedItemList(unit_groups)"} or "unit_groups" not in ddd_var:
        raise ExtractError(f"unit group handling changed: {sorted(ug_args)}")
    rows.append(("ddds.unit_spec.unit_groups", ddd_var["unit_groups"][0], ddd_var["unit_groups"][1]))
    # diag variables / variable groups of the concrete layer classes (same scheme, three copies)
    for fname, cname in [("functionalgroup.py", "FunctionalGroup"), ("basevariant.py", "BaseVariant"), ("ecuvariant.py", "EcuVariant")]:
        t = ast.parse((repo / "odxtools/diaglayers" / fname).read_text())
        c = _cls(t, cname)
        for meth in [n for n in c.body if isinstance(n, ast.FunctionDef) and n.name.startswith("_compute_available_")]:
            rows.append((f"{cname}.{meth.name[len('_compute_available'):]}", _nested_returns(meth, "get_local_objects_fn")[-1],
                         _not_inherited_of(meth)))
    return rows


def extract_parentref_paths(repo: Path):
    """[(ParentRef attribute, XML path read into it)]"""
    tree = ast.parse((repo / "odxtools/parentref.py").read_text())
    fe = _func(_cls(tree, "ParentRef"), "from_et")
    local = {}
    for st in fe.body:
        if isinstance(st, ast.Assign) and isinstance(st.targets[0], ast.Name) and isinstance(st.value, ast.ListComp):
            gen = st.value.generators[0]
            it = gen.iter
            if isinstance(it, ast.Call) and ast.unparse(it.func) == "et_element.iterfind" and isinstance(it.args[0], ast.Constant):
                elt = ast.unparse(st.value.elt)
                if elt != "odxrequire(el.get('SHORT-NAME'))" or gen.ifs:
                    raise ExtractError(f"parentref: element expression changed: {elt}")
                local[st.targets[0].id] = it.args[0].value
    rows = []
    for n in ast.walk(fe):
        if isinstance(n, ast.Call) and ast.unparse(n.func) == "ParentRef":
            for kw in n.keywords:
                v = ast.unparse(kw.value)
                if v in local:
                    rows.append((kw.arg, local[v]))
    if not rows:
        raise ExtractError("ParentRef(...) construction not found")
    return rows


def lean_str(s: str) -> str:
    return '"' + s.replace("\\", "\\\\").replace('"', '\\"') + '"'


def render(repo: Path) -> str:
    pr = extract_priorities(repo)
    cats = extract_categories(repo)
    paths = extract_parentref_paths(repo)
    ctors = [_camel(m) for m, _, _ in pr]
    L = []
    L.append("/-! GENERATED by harness/extract/layerprio.py from odxtools/diaglayers/diaglayertype.py,")
    L.append("    hierarchyelement.py (+ the concrete layer classes) and parentref.py -- do not edit.")
    L.append("    Rewritten at the start of every `./check C09`; the obligations over it are in Props/C09.lean. -/")
    L.append("namespace OdxVerif.Gen")
    L.append("")
    L.append("/-- members of `DiagLayerType`, in source order -/")
    L.append("inductive LayerKind where")
    L.append("  " + " ".join(f"| {c}" for c in ctors))
    L.append("deriving DecidableEq, Repr, Inhabited")
    L.append("")
    L.append(f"def LayerKind.all : List LayerKind := [{', '.join('.' + c for c in ctors)}]")
    L.append("")
    L.append("/-- the XML element name / enum value -/")
    L.append("def LayerKind.odxName : LayerKind → String")
    for c, (_, x, _) in zip(ctors, pr):
        L.append(f"  | .{c} => {lean_str(x)}")
    L.append("")
    L.append("/-- `PRIORITY_OF_DIAG_LAYER_TYPE` (`DiagLayerType.inheritance_priority`) -/")
    L.append("def LayerKind.prio : LayerKind → Nat")
    for c, (_, _, p) in zip(ctors, pr):
        L.append(f"  | .{c} => {p}")
    L.append("")
    L.append("/-- per object category subject to value inheritance: (where the merged view is stored,")
    L.append("    expression yielding a layer's local objects, `ParentRef` attribute used as NOT-INHERITED list; \"\" = `[]`) -/")
    L.append("def categoryTable : List (String × String × String) := [")
    L.append(",\n".join(f"  ({lean_str(a)}, {lean_str(b)}, {lean_str(c)})" for a, b, c in cats))
    L.append("]")
    L.append("")
    L.append("/-- `ParentRef.from_et`: (attribute, XML path whose SHORT-NAMEs are read into it) -/")
    L.append("def parentRefPaths : List (String × String) := [")
    L.append(",\n".join(f"  ({lean_str(a)}, {lean_str(b)})" for a, b in paths))
    L.append("]")
    L.append("")
    L.append("end OdxVerif.Gen")
    return "\n".join(L) + "\n"


def regenerate(repo: Path, verif: Path) -> bool:
    """rewrite the generated file if its content changed; returns True when it was rewritten"""
    text = render(repo)
    out = verif / OUT_REL
    if out.exists() and out.read_text() == text:
        return False
    out.parent.mkdir(parents=True, exist_ok=True)
    out.write_text(text)
    return True


if __name__ == "__main__":
    import sys
    repo = Path(sys.argv[1] if len(sys.argv) > 1 else "/repo")
    sys.stdout.write(render(repo))
