"""Extractor (DESIGN.md §2.2, property C11): regenerate lean/OdxVerif/Gen/PdxSchema.lean from the source of odxtools.

Nothing of odxtools is imported or executed.  Two independent scans and one join:

READER  (Python `ast` over odxtools/**/*.py)
  For every class with a `from_et` method and every module-level function whose first parameter is
  `et_element` (the `create_any_*_from_et` factories, `read_hex_binary`, ...) plus
  `Database._process_xml_tree`, a small abstract interpretation of the body tracks which variables hold an
  XML element and at which *path* below the function's element:
     X.find("A/B") / X.iterfind / X.findall / odxrequire(...) / walrus / for-loops / comprehensions  -> element at path+(A,B)
     X.findtext("A/B")                        -> reads child slot  path+(A,B)
     X.get("K") / X.attrib.get("K") / X.attrib["K"] / X.get(f"{xsi}type")   -> reads attribute slot path+(@K)
     Cls.from_et(X, ...) / helper(X, ...)     -> call edge (callee, path of X)
  A call with the function's own element (path ()) is a *same-element* edge (base class, factory dispatch):
  the caller's reads include the callee's reads, and the callee is applied to every tag the caller is.
  A call with a child element gives the callee the child's tag.  Tags therefore propagate from
  `_process_xml_tree` (DIAG-LAYER-CONTAINER, COMPARAM-SUBSET, COMPARAM-SPEC) down the call graph.

WRITER  (`jinja2.Environment().parse` over odxtools/templates/**/*.jinja2)
  The three document templates are walked with every macro call *inlined* (constant arguments are bound, so
  `printLimit("LOWER-LIMIT", ...)` and `<{{ tag_name }}>` resolve; `{% set x = make_xml_attrib("N", ..) %}` is
  followed), all branches of `if`/`for` taken, and the emitted text is lexed as XML with an element stack.
  Result: for every element tag T the attributes that can appear in `<T ...>` and the child tags that can
  appear directly below T (`@A` / `B`), plus `*` when a child tag could not be resolved.

JOIN
  One table row per (class, tag): reads = slot paths of the class (own + same-element callees), writes = those
  paths p = c1/../cn for which c1 is emitted below T, c2 below c1, ... by the templates, plus everything the
  templates emit directly below T (so the row is readable on its own).  `C11_schema_table` is then
  `∀ row, row.reads ⊆ row.writes ∪ allowlist`.
"""
import ast
import re
from pathlib import Path

OUT_REL = "lean/OdxVerif/Gen/PdxSchema.lean"
XSI_ATTR = "@xsi:type"


class ExtractError(Exception):
    pass


# =================================================================================================
# READER
ELEM_PARAM_NAMES = ("et_element", "root")


class FuncInfo:
    def __init__(self, qual, file, line):
        self.qual = qual            # "Class" for Class.from_et, "func" for module functions
        self.file, self.line = file, line
        self.reads = set()          # tuples of path components, attribute last as "@NAME"
        self.calls = []             # (callee name as written, path tuple)   path () = same element


def _const_str(node, consts):
    """string value of a constant / f-string built from known module constants, else None"""
    if isinstance(node, ast.Constant) and isinstance(node.value, str):
        return node.value
    if isinstance(node, ast.JoinedStr):
        out = ""
        for v in node.values:
            if isinstance(v, ast.Constant):
                out += str(v.value)
            elif isinstance(v, ast.FormattedValue) and isinstance(v.value, ast.Name) and v.value.id in consts:
                out += consts[v.value.id]
            else:
                return None
        return out
    return None


def _split_path(s):
    return tuple(p for p in s.split("/") if p and p != ".")


class BodyScan:
    """abstract interpretation of one parser function.

    env: variable -> (path, coll)   path = tuple of tags below the function's element ("*" = a child of unknown
    tag), coll = the variable holds a collection of such elements (iterfind/findall/list) rather than one.
    Tag tests (`v.tag == "T"`, `v.tag in (...)`, `if v.tag != "T": continue`, `odxassert(v.tag == "T")`) narrow a
    "*" path inside the guarded statements; where no test guards a use, the "*" is expanded to every tag the
    function ever tests that path against."""

    FIND = {"find", "iterfind", "findall"}
    PASS = ("odxrequire", "cast", "list", "iter", "next", "reversed", "enumerate", "tuple", "sorted")

    def __init__(self, info, elem_param, consts):
        self.info = info
        self.env = {elem_param: ((), False)}
        self.consts = consts
        self.tested = {}            # generic path -> set of tags it is compared with
        self.pending_calls = []     # (callee, path, only_tag)
        self.pending_reads = []
        self.helpers = {}           # local helper name -> (index of element arg, index of name arg, 'child'|'attr')
        self.self_tag = None        # narrowing of the function's own element (`et_element.tag == "T"`)

    # ---- expressions
    def val(self, node):
        """(path, coll) of an element-valued expression, else None"""
        if isinstance(node, ast.Name):
            return self.env.get(node.id)
        if isinstance(node, ast.NamedExpr):
            v = self.val(node.value)
            if v is not None and isinstance(node.target, ast.Name):
                self.env[node.target.id] = v
            return v
        if isinstance(node, ast.Call):
            f = node.func
            if isinstance(f, ast.Attribute) and f.attr in self.FIND and node.args:
                base = self.val(f.value)
                s = _const_str(node.args[0], self.consts)
                if base is not None and s is not None:
                    p = base[0] + _split_path(s)
                    self.read(p)
                    return (p, f.attr != "find")
                return None
            if isinstance(f, ast.Name) and f.id in self.PASS and node.args:
                v = self.val(node.args[-1] if f.id == "cast" else node.args[0])
                if v is not None and f.id in ("list", "iter", "tuple", "reversed", "enumerate", "sorted") and not v[1]:
                    return (v[0] + ("*",), True)        # children of a single element
                if v is not None and f.id == "next":
                    return (v[0], False)
                return v
            return None
        if isinstance(node, ast.IfExp):
            return self.val(node.body) or self.val(node.orelse)
        if isinstance(node, ast.BoolOp):
            for x in node.values:
                v = self.val(x)
                if v is not None:
                    return v
            return None
        if isinstance(node, ast.Subscript):
            v = self.val(node.value)
            return (v[0], False) if v is not None else None
        return None

    def item_of(self, v):
        """the loop variable of `for x in <v>`"""
        if v is None:
            return None
        return (v[0], False) if v[1] else (v[0] + ("*",), False)

    def bind(self, target, v):
        if v is None:
            return
        if isinstance(target, ast.Name):
            self.env[target.id] = v
        elif isinstance(target, (ast.Tuple, ast.List)):
            for t in target.elts:
                self.bind(t, v)

    def read(self, path):
        self.pending_reads.append(path)

    def _attr(self, s):
        return "xsi:type" if s.endswith("}type") else s

    def tag_test(self, test):
        """-> (expr node of the element, [tags], positive?) for `X.tag == "T"`, `X.tag in (..)`, `!=`, `not in`"""
        if isinstance(test, ast.Compare) and len(test.ops) == 1 and isinstance(test.left, ast.Attribute) and test.left.attr == "tag":
            c = test.comparators[0]
            tags = []
            s = _const_str(c, self.consts)
            if s is not None:
                tags = [s]
            elif isinstance(c, (ast.Tuple, ast.List, ast.Set)):
                tags = [x for x in (_const_str(e, self.consts) for e in c.elts) if x is not None]
            if tags:
                op = test.ops[0]
                if isinstance(op, (ast.Eq, ast.In)):
                    return test.left.value, tags, True
                if isinstance(op, (ast.NotEq, ast.NotIn)):
                    return test.left.value, tags, False
        return None

    def note_test(self, test):
        t = self.tag_test(test)
        if t is None:
            return None
        v = self.val(t[0])
        if v is None:
            return None
        if v[0] and v[0][-1] == "*":
            self.tested.setdefault(v[0], set()).update(t[1])
            for tg in t[1]:
                self.read(v[0][:-1] + (tg,))
        return t

    # ---- generic expression walk (reads and calls)
    def expr(self, node):
        if node is None:
            return
        for sub in ast.walk(node):
            if isinstance(sub, ast.Compare):
                self.note_test(sub)
            if isinstance(sub, ast.NamedExpr):
                self.val(sub)
            if isinstance(sub, (ast.ListComp, ast.SetComp, ast.GeneratorExp, ast.DictComp)):
                for g in sub.generators:
                    self.bind(g.target, self.item_of(self.val(g.iter)))
        for sub in ast.walk(node):
            if isinstance(sub, ast.Subscript):
                v = sub.value
                if isinstance(v, ast.Attribute) and v.attr == "attrib":
                    base = self.val(v.value)
                    s = _const_str(sub.slice, self.consts)
                    if base is not None and s is not None:
                        self.read(base[0] + ("@" + self._attr(s),))
            if isinstance(sub, ast.Attribute) and sub.attr == "text":
                pass
            if isinstance(sub, ast.Call):
                self.call(sub)

    def call(self, node):
        f = node.func
        if isinstance(f, ast.Attribute):
            if f.attr in self.FIND:
                self.val(node)
            elif f.attr == "findtext" and node.args:
                base = self.val(f.value)
                s = _const_str(node.args[0], self.consts)
                if base is not None and s is not None:
                    self.read(base[0] + _split_path(s))
            elif f.attr == "get" and node.args:
                if isinstance(f.value, ast.Attribute) and f.value.attr == "attrib":
                    base = self.val(f.value.value)
                else:
                    base = self.val(f.value)
                s = _const_str(node.args[0], self.consts)
                if base is not None and s is not None:
                    self.read(base[0] + ("@" + self._attr(s),))
        if isinstance(f, ast.Name) and f.id in self.helpers:
            ei, ni, kind = self.helpers[f.id]
            if ei < len(node.args) and ni < len(node.args):
                base = self.val(node.args[ei])
                s = _const_str(node.args[ni], self.consts)
                if base is not None and s is not None:
                    self.read(base[0] + (("@" + self._attr(s),) if kind == "attr" else _split_path(s)))
            return
        callee = None
        if isinstance(f, ast.Attribute) and f.attr.endswith("from_et"):
            if isinstance(f.value, ast.Name):
                callee = f.value.id if f.attr == "from_et" else f"{f.value.id}.{f.attr}"
            elif isinstance(f.value, ast.Call) and isinstance(f.value.func, ast.Name) and f.value.func.id == "super":
                callee = "super()"
        elif isinstance(f, ast.Name) and f.id not in self.PASS + ("len", "isinstance", "odxassert", "odxraise", "str", "int", "bool", "print"):
            callee = f.id
        if callee is not None:
            for a in node.args[:2]:
                v = self.val(a)
                if v is not None:
                    self.pending_calls.append((callee, v[0], self.self_tag if v[0] == () else None))
                    break

    # ---- statements
    def block(self, stmts):
        saved = None
        for st in stmts:
            self.stmt(st)
            # `if v.tag != "T": ... continue/raise/return`  narrows v for the rest of the block
            if isinstance(st, ast.If) and st.body and isinstance(st.body[-1], (ast.Continue, ast.Raise, ast.Return, ast.Break)):
                t = self.tag_test(st.test)
                if t is not None and not t[2] and len(t[1]) == 1 and isinstance(t[0], ast.Name):
                    v = self.env.get(t[0].id)
                    if v is not None and v[0] and v[0][-1] == "*":
                        if saved is None:
                            saved = dict(self.env)
                        self.env[t[0].id] = (v[0][:-1] + (t[1][0],), v[1])
            # odxassert(v.tag == "T")
            if isinstance(st, (ast.Expr, ast.Assert)):
                test = st.test if isinstance(st, ast.Assert) else (st.value.args[0] if isinstance(st.value, ast.Call) and isinstance(st.value.func, ast.Name)
                                                                    and st.value.func.id == "odxassert" and st.value.args else None)
                t = self.tag_test(test) if test is not None else None
                if t is not None and t[2] and len(t[1]) == 1 and isinstance(t[0], ast.Name):
                    v = self.env.get(t[0].id)
                    if v is not None and v[0] and v[0][-1] == "*":
                        if saved is None:
                            saved = dict(self.env)
                        self.env[t[0].id] = (v[0][:-1] + (t[1][0],), v[1])
        if saved is not None:
            for k, v in saved.items():
                self.env[k] = v

    def narrowed(self, test, body):
        """run `body` with the element tested by `test` narrowed to each tag in turn"""
        t = self.note_test(test)
        if t is not None and t[2] and isinstance(t[0], ast.Name):
            name = t[0].id
            v = self.env.get(name)
            if v is not None and v[0] and v[0][-1] == "*":
                for tg in t[1]:
                    self.env[name] = (v[0][:-1] + (tg,), v[1])
                    self.block(body)
                self.env[name] = v
                return
            if v is not None and v[0] == ():
                old = self.self_tag
                for tg in t[1]:
                    self.self_tag = tg
                    self.block(body)
                self.self_tag = old
                return
        self.block(body)

    def stmt(self, st):
        if isinstance(st, ast.Assign):
            self.expr(st.value)
            v = self.val(st.value)
            for t in st.targets:
                self.bind(t, v)
        elif isinstance(st, ast.AnnAssign):
            if st.value is not None:
                self.expr(st.value)
                self.bind(st.target, self.val(st.value))
        elif isinstance(st, ast.For):
            self.expr(st.iter)
            self.bind(st.target, self.item_of(self.val(st.iter)))
            self.block(st.body)
            self.block(st.orelse)
        elif isinstance(st, ast.While):
            self.expr(st.test)
            self.block(st.body)
            self.block(st.orelse)
        elif isinstance(st, ast.If):
            self.expr(st.test)
            self.narrowed(st.test, st.body)
            self.block(st.orelse)
        elif isinstance(st, (ast.With,)):
            self.block(st.body)
        elif isinstance(st, ast.Try):
            self.block(st.body)
            for h in st.handlers:
                self.block(h.body)
            self.block(st.orelse)
            self.block(st.finalbody)
        elif isinstance(st, ast.FunctionDef):
            self.helper(st)
        elif isinstance(st, ast.ClassDef):
            pass
        else:
            for sub in ast.iter_child_nodes(st):
                if isinstance(sub, ast.expr):
                    self.expr(sub)

    def helper(self, fn):
        """a local function `g(element, name)` whose body reads `element.find*(name)` / `element.get(name)`"""
        params = [a.arg for a in fn.args.args]
        for sub in ast.walk(fn):
            if isinstance(sub, ast.Call) and isinstance(sub.func, ast.Attribute) and sub.args and isinstance(sub.args[0], ast.Name):
                f = sub.func
                base = f.value.value if (isinstance(f.value, ast.Attribute) and f.value.attr == "attrib") else f.value
                if isinstance(base, ast.Name) and base.id in params and sub.args[0].id in params:
                    kind = "attr" if f.attr == "get" else ("child" if f.attr in self.FIND or f.attr == "findtext" else None)
                    if kind:
                        self.helpers[fn.name] = (params.index(base.id), params.index(sub.args[0].id), kind)

    def finish(self):
        """expand the remaining "*" components with the tags tested anywhere in the function"""
        def expand(path):
            outs = [()]
            for i, c in enumerate(path):
                if c == "*":
                    tags = self.tested.get(tuple(path[:i + 1]) if False else None)
                    # look the generic prefix up in `tested` (prefix may itself contain expanded tags: use the raw prefix)
                    tags = self.tested.get(path[:i + 1])
                    if not tags:
                        return []
                    outs = [o + (t,) for o in outs for t in sorted(tags)]
                else:
                    outs = [o + (c,) for o in outs]
            return outs
        for p in self.pending_reads:
            for q in expand(p):
                if q:
                    self.info.reads.add(q)
        for callee, p, only in self.pending_calls:
            for q in expand(p):
                self.info.calls.append((callee, q, only))


def scan_readers(repo: Path):
    """-> ({qualname: FuncInfo}, {class: [base names]})"""
    funcs, bases = {}, {}
    consts = {"xsi": "{http://www.w3.org/2001/XMLSchema-instance}"}
    g = repo / "odxtools" / "globals.py"
    if g.exists():
        for st in ast.parse(g.read_text()).body:
            if isinstance(st, ast.Assign) and len(st.targets) == 1 and isinstance(st.targets[0], ast.Name) \
                    and isinstance(st.value, ast.Constant) and isinstance(st.value.value, str):
                consts[st.targets[0].id] = st.value.value
    files = sorted((repo / "odxtools").rglob("*.py"))
    if not files:
        raise ExtractError("no python sources below odxtools/")
    for f in files:
        rel = str(f.relative_to(repo))
        if "/templates/" in rel or "/cli/" in rel:
            continue
        try:
            tree = ast.parse(f.read_text())
        except SyntaxError as e:
            raise ExtractError(f"{rel}: {e}")
        for st in tree.body:
            if isinstance(st, ast.ClassDef):
                bases[st.name] = [b.id for b in st.bases if isinstance(b, ast.Name)]
                for m in st.body:
                    if isinstance(m, ast.FunctionDef) and (m.name.endswith("from_et") or (st.name == "Database" and m.name == "_process_xml_tree")):
                        _scan_func(funcs, st.name if m.name == "from_et" else f"{st.name}.{m.name}", m, rel, consts, method=True)
            elif isinstance(st, ast.FunctionDef):
                _scan_func(funcs, st.name, st, rel, consts, method=False)
            elif isinstance(st, ast.Assign) and len(st.targets) == 1 and isinstance(st.targets[0], ast.Name) \
                    and isinstance(st.value, ast.Name) and st.value.id[:1].isupper() and st.targets[0].id[:1].isupper():
                bases.setdefault(st.targets[0].id, []).append(st.value.id)      # `CompuInverseValue = CompuConst`: an alias behaves like a subclass here
    return funcs, bases


def _scan_func(funcs, qual, fn, rel, consts, method):
    args = [a.arg for a in fn.args.args]
    if method and args and args[0] in ("self", "cls"):
        args = args[1:]
    if not args:
        return
    first = args[0]
    if not (first in ELEM_PARAM_NAMES or first.endswith("_element") or first.endswith("_elem") or first in ("et", "el", "elem", "element")):
        return
    info = FuncInfo(qual, rel, fn.lineno)
    scan = BodyScan(info, first, consts)
    scan.block(fn.body)
    scan.finish()
    funcs[qual] = info


def close_readers(funcs, bases):
    """-> (reads: {qual: set(path)}, tags: {qual: set(tag)}, edges) after propagating along the call graph"""
    def inherited(cls, meth, depth=0):
        """the class whose definition of `meth` (from_et, ...) the call `cls.meth(...)` reaches"""
        q = cls if meth == "from_et" else f"{cls}.{meth}"
        if q in funcs:
            return [q]
        out = []
        if depth < 8:
            for b in bases.get(cls, []):
                out += inherited(b, meth, depth + 1)
        return out

    def resolve(caller, callee):
        if callee == "super()":
            out = []
            for b in bases.get(caller.split(".")[0], []):
                out += inherited(b, "from_et")
            return out
        if callee in funcs:
            return [callee]
        cls, _, meth = callee.partition(".")
        return inherited(cls, meth or "from_et") if cls[:1].isupper() else []

    same, child = {}, {}
    for q, fi in funcs.items():
        for callee, p, only in fi.calls:
            for c in resolve(q, callee):
                if p == ():
                    same.setdefault(q, set()).add((c, only))
                else:
                    child.setdefault(q, set()).add((c, p))
    # reads: own + transitive same-element callees
    reads = {q: set(fi.reads) for q, fi in funcs.items()}
    changed = True
    while changed:
        changed = False
        for q, cs in same.items():
            for c, _only in cs:
                n = len(reads[q])
                reads[q] |= reads[c]
                changed |= len(reads[q]) != n
    # a class that only inherits its from_et (no own definition) is not in funcs: nothing to do for it
    tags = {q: set() for q in funcs}
    root = "Database._process_xml_tree"
    if root not in funcs:
        raise ExtractError("Database._process_xml_tree not found")
    tags[root].add("ODX")
    changed = True
    while changed:
        changed = False
        for q in funcs:
            for c, only in same.get(q, ()):
                n = len(tags[c])
                tags[c] |= (tags[q] if only is None else ({only} if tags[q] else set()))
                changed |= len(tags[c]) != n
            for c, p in child.get(q, ()):
                if p[-1].startswith("@"):
                    continue
                if tags[q] and p[-1] not in tags[c]:      # only reachable callers hand tags down
                    tags[c].add(p[-1])
                    changed = True
    return reads, tags, (same, child)


# =================================================================================================
# WRITER
class Writes:
    def __init__(self):
        self.slots = {}         # tag -> set of "@A" / "B" / "*"
        self.roots = set()
        self.unresolved = []    # notes

    def add(self, tag, slot):
        self.slots.setdefault(tag, set()).add(slot)


class XmlState:
    """lexer state over the emitted text"""

    def __init__(self):
        self.stack = []
        self.mode = "content"   # content | tagname | intag | attrname | attreq | attrval | endtag | skip
        self.buf = ""
        self.quote = ""
        self.until = ""
        self.cur = None         # tag whose start tag is being lexed

    def copy(self):
        s = XmlState()
        s.stack = list(self.stack)
        s.mode, s.buf, s.quote, s.until, s.cur = self.mode, self.buf, self.quote, self.until, self.cur
        return s


NAME_CH = re.compile(r"[A-Za-z0-9_:.\-*]")


class TemplateWalker:
    def __init__(self, tdir: Path):
        import jinja2
        from jinja2 import nodes
        self.nodes = nodes
        self.env = jinja2.Environment()
        self.tdir = tdir
        self.parsed = {}        # template rel name -> (macros {name: Macro node}, imports {alias: rel}, from-imports {name:(rel, name)}, body)
        self.w = Writes()
        self.call_stack = []
        self.inlined = 0

    # ---- parsing
    def load(self, rel):
        if rel in self.parsed:
            return self.parsed[rel]
        p = self.tdir / rel
        if not p.exists():
            raise ExtractError(f"template {rel} not found")
        ast_ = self.env.parse(p.read_text())
        n = self.nodes
        macros, imports, froms = {}, {}, {}
        for node in ast_.body:
            if isinstance(node, n.Macro):
                macros[node.name] = node
            elif isinstance(node, n.Import) and isinstance(node.template, n.Const):
                imports[node.target] = node.template.value
            elif isinstance(node, n.FromImport) and isinstance(node.template, n.Const):
                for nm in node.names:
                    src, dst = (nm, nm) if isinstance(nm, str) else nm
                    froms[dst] = (node.template.value, src)
        self.parsed[rel] = (macros, imports, froms, ast_.body)
        return self.parsed[rel]

    # ---- text lexing
    def feed(self, st: XmlState, text: str):
        i, n = 0, len(text)
        while i < n:
            c = text[i]
            m = st.mode
            if m == "content":
                j = text.find("<", i)
                if j < 0:
                    return
                i = j + 1
                rest = text[i:i + 3]
                if rest.startswith("?"):
                    st.mode, st.until = "skip", "?>"
                elif rest.startswith("!--"):
                    st.mode, st.until = "skip", "-->"
                elif rest.startswith("/"):
                    st.mode, st.buf = "endtag", ""
                    i += 1
                else:
                    st.mode, st.buf = "tagname", ""
                continue
            if m == "skip":
                j = text.find(st.until, i)
                if j < 0:
                    return
                i = j + len(st.until)
                st.mode = "content"
                continue
            if m == "tagname":
                if NAME_CH.match(c):
                    st.buf += c
                    i += 1
                    continue
                self.open_tag(st, st.buf or "*")
                st.mode = "intag"
                continue
            if m == "endtag":
                if c == ">":
                    self.close_tag(st, st.buf.strip() or "*")
                    st.mode = "content"
                else:
                    st.buf += c
                i += 1
                continue
            if m == "intag":
                if c == ">":
                    st.stack.append(st.cur)
                    st.mode = "content"
                    i += 1
                elif c == "/" and text[i:i + 2] == "/>":
                    st.mode = "content"
                    i += 2
                elif c == "/":
                    st.mode = "selfclose"
                    i += 1
                elif NAME_CH.match(c):
                    st.mode, st.buf = "attrname", ""
                else:
                    i += 1
                continue
            if m == "selfclose":
                if c == ">":
                    st.mode = "content"
                i += 1
                continue
            if m == "attrname":
                if NAME_CH.match(c):
                    st.buf += c
                    i += 1
                else:
                    self.w.add(st.cur, "@" + st.buf)
                    st.mode = "attreq"
                continue
            if m == "attreq":
                if c in "\"'":
                    st.mode, st.quote = "attrval", c
                elif c == ">" or c == "/":
                    st.mode = "intag"
                    continue
                i += 1
                continue
            if m == "attrval":
                j = text.find(st.quote, i)
                if j < 0:
                    return
                i = j + 1
                st.mode = "intag"
                continue
            raise ExtractError("lexer mode " + m)

    def open_tag(self, st, tag):
        st.cur = tag
        if st.stack:
            self.w.add(st.stack[-1], tag)
        else:
            self.w.roots.add(tag)
        self.w.slots.setdefault(tag, set())

    def close_tag(self, st, tag):
        if tag in st.stack:
            while st.stack and st.stack[-1] != tag:
                st.stack.pop()
            st.stack.pop()
        elif tag == "*" and st.stack:
            st.stack.pop()

    # ---- expression output
    def const_of(self, node, binds):
        n = self.nodes
        if isinstance(node, n.Const) and isinstance(node.value, str):
            return node.value
        if isinstance(node, n.Name) and node.name in binds:
            b = binds[node.name]
            return b if isinstance(b, str) else None
        if isinstance(node, n.Filter) and node.name in ("e", "escape", "safe", "upper", "string", "trim") and node.node is not None:
            v = self.const_of(node.node, binds)
            return v.upper() if (v is not None and node.name == "upper") else v
        return None

    def emit_expr(self, sts, node, ctx):
        """an output expression `{{ node }}` applied to every lexer state in `sts`; returns the new state list"""
        n = self.nodes
        rel, binds = ctx
        # filters pass markup through
        while isinstance(node, n.Filter) and node.node is not None:
            if self.const_of(node, binds) is not None:
                break
            node = node.node
        c = self.const_of(node, binds)
        if c is not None:
            for st in sts:
                self.feed(st, c)
            return sts
        if isinstance(node, n.Name) and node.name in binds and not isinstance(binds[node.name], str):
            b = binds[node.name]
            if b is not None:
                return self.emit_expr(sts, b[0], (b[1], b[2]))      # `{% set x = expr %}`
            return self.value(sts, rel)
        if isinstance(node, n.CondExpr):
            sts = self.emit_expr(sts, node.expr1, ctx)
            if node.expr2 is not None:
                sts = self.emit_expr(sts, node.expr2, ctx)
            return sts
        if isinstance(node, n.Concat):
            for x in node.nodes:
                sts = self.emit_expr(sts, x, ctx)
            return sts
        if isinstance(node, n.Call):
            f = node.node
            if isinstance(f, n.Name) and f.name in ("make_xml_attrib", "make_bool_xml_attrib") and node.args:
                a = self.const_of(node.args[0], binds)
                for st in sts:
                    if st.mode == "tagname":
                        self.open_tag(st, st.buf or "*")
                        st.mode = "intag"
                    if st.mode in ("intag", "attrname", "attreq"):
                        self.w.add(st.cur, "@" + (a if a is not None else "*"))
                    else:
                        self.w.unresolved.append(f"{rel}: make_xml_attrib outside a start tag")
                return sts
            target = self.resolve_macro(rel, f)
            if target is not None:
                return self.inline(sts, target, node, ctx)
        return self.value(sts, rel)

    def value(self, sts, rel):
        """some run-time value is printed: harmless unless a tag name is being read"""
        for st in sts:
            if st.mode == "tagname" and st.buf == "":
                st.buf = "*"
                self.w.unresolved.append(f"{rel}: tag name from a non-constant expression")
        return sts

    def resolve_macro(self, rel, f):
        n = self.nodes
        macros, imports, froms, _ = self.load(rel)
        if isinstance(f, n.Name):
            if f.name in macros:
                return (rel, f.name)
            if f.name in froms:
                return froms[f.name]
        if isinstance(f, n.Getattr) and isinstance(f.node, n.Name) and f.node.name in imports:
            r = imports[f.node.name]
            if f.attr in self.load(r)[0]:
                return (r, f.attr)
            self.w.unresolved.append(f"{rel}: macro {f.node.name}.{f.attr} not found in {r}")
        return None

    def inline(self, sts, target, call, ctx):
        rel, name = target
        macro = self.load(rel)[0][name]
        key = (rel, name, tuple(self.const_of(a, ctx[1]) for a in call.args),
               tuple(sorted((k.key, self.const_of(k.value, ctx[1])) for k in call.kwargs)))
        if self.call_stack.count(key) >= 2 or len(self.call_stack) > 40:
            return sts  # recursion (nested complex values, nested SDGs): two unfoldings have recorded everything
        self.call_stack.append(key)
        self.inlined += 1
        binds = {}
        params = [a.name for a in macro.args]
        defaults = dict(zip(params[len(params) - len(macro.defaults):], macro.defaults))
        for i, p in enumerate(params):
            v = None
            if i < len(call.args):
                v = self.const_of(call.args[i], ctx[1])
            else:
                kw = [k for k in call.kwargs if k.key == p]
                if kw:
                    v = self.const_of(kw[0].value, ctx[1])
                elif p in defaults:
                    v = self.const_of(defaults[p], {})
            binds[p] = v
        sts = self.walk(sts, macro.body, (rel, binds))
        self.call_stack.pop()
        return sts

    @staticmethod
    def dedupe(sts):
        seen, out = set(), []
        for s in sts:
            k = (tuple(s.stack), s.mode, s.cur, s.buf, s.quote, s.until)
            if k not in seen:
                seen.add(k)
                out.append(s)
        return out[:12]

    # ---- statements
    def walk(self, sts, body, ctx):
        n = self.nodes
        rel, binds = ctx
        for node in body:
            if isinstance(node, n.Output):
                for x in node.nodes:
                    if isinstance(x, n.TemplateData):
                        for st in sts:
                            self.feed(st, x.data)
                    else:
                        sts = self.emit_expr(sts, x, (rel, binds))
            elif isinstance(node, n.If):
                branches = [node.body] + [e.body for e in node.elif_] + [node.else_ or []]
                results = []
                for b in branches:
                    results += self.walk([s.copy() for s in sts], b, (rel, dict(binds)))
                sts = self.dedupe(results)
            elif isinstance(node, n.For):
                once = self.walk([s.copy() for s in sts], node.body, (rel, binds))
                if node.else_:
                    once = self.walk(once, node.else_, (rel, binds))
                sts = self.dedupe(sts + once)       # zero or more iterations
            elif isinstance(node, n.Assign) and isinstance(node.target, n.Name):
                c = self.const_of(node.node, binds)
                binds[node.target.name] = c if c is not None else (node.node, rel, dict(binds))
            elif isinstance(node, (n.AssignBlock, n.Macro, n.Import, n.FromImport)):
                pass
            elif isinstance(node, n.CallBlock):
                sts = self.emit_expr(sts, node.call, (rel, binds))
                sts = self.walk(sts, node.body, (rel, binds))
            elif isinstance(node, (n.With, n.Scope, n.FilterBlock, n.ScopedEvalContextModifier)):
                sts = self.walk(sts, node.body, (rel, binds))
        return sts

    def run(self, doc_templates):
        for rel in doc_templates:
            sts = self.walk([XmlState()], self.load(rel)[3], (rel, {}))
            for st in sts:
                if st.stack or st.mode != "content":
                    self.w.unresolved.append(f"{rel}: unbalanced at end (stack {st.stack[-3:]}, mode {st.mode})")
        return self.w


DOC_TEMPLATES = ["diag_layer_container.odx-d.xml.jinja2", "comparam-subset.odx-cs.xml.jinja2", "comparam-spec.odx-c.xml.jinja2"]


def scan_writers(repo: Path):
    tdir = repo / "odxtools" / "templates"
    tw = TemplateWalker(tdir)
    w = tw.run(DOC_TEMPLATES)
    # every macro must have been reached from a document template (else its lines are dead and a
    # dropped line in it could not matter) — recorded as a note
    reached = {k for k in tw.parsed}
    allt = {str(p.relative_to(tdir)) for p in tdir.rglob("*.jinja2")}
    for t in sorted(allt - reached - {"index.xml.jinja2"}):
        w.unresolved.append(f"template {t} is never imported by a document template")
    w.n_templates = len(allt)
    w.inlined = tw.inlined
    return w


# =================================================================================================
# JOIN + rendering
def written(w: Writes, tag, path):
    """is the slot path emitted below an element with this tag?"""
    cur = tag
    for comp in path:
        s = w.slots.get(cur)
        if s is None:
            return False
        if comp not in s and "*" not in s and not (comp.startswith("@") and "@*" in s):
            return False
        cur = comp
    return True


def build_rows(repo: Path):
    funcs, bases = scan_readers(repo)
    reads, tags, _ = close_readers(funcs, bases)
    w = scan_writers(repo)
    rows = []
    for q in sorted(funcs):
        if q == "Database._process_xml_tree" or not q[:1].isupper():
            continue        # module-level helpers are accounted for through their callers
        for t in sorted(tags[q]):
            if t not in w.slots:
                continue    # the tag itself is never emitted: reported once, by the row of the enclosing element
            rd = sorted("/".join(p) for p in reads[q])
            wr = sorted({"/".join(p) for p in reads[q] if written(w, t, p)} | {s for s in w.slots.get(t, ())})
            rows.append((q.split(".")[0], t, rd, wr))
    # the document root (MODEL-VERSION etc.) as a row of its own
    q = "Database._process_xml_tree"
    rd = sorted("/".join(p) for p in reads[q])
    wr = sorted({"/".join(p) for p in reads[q] if written(w, "ODX", p)} | set(w.slots.get("ODX", ())))
    rows.append(("Database", "ODX", rd, wr))
    unreachable = sorted(q for q in funcs if q[:1].isupper() and not tags[q] and q != "Database._process_xml_tree")
    return rows, w, funcs, unreachable


def lean_str(s):
    return '"' + s.replace("\\", "\\\\").replace('"', '\\"') + '"'


def render(rows, w, funcs, unreachable):
    out = ["import OdxVerif.Model.Pdx",
           "/-! GENERATED by harness/extract/pdxschema.py from odxtools/**/from_et and odxtools/templates/** — do not edit.",
           f"    {len(rows)} rows (element class × element tag); {len(funcs)} parser functions scanned; {w.n_templates} templates; "
           f"{w.inlined} macro inlinings. -/",
           "namespace OdxVerif.Gen", "open OdxVerif.Pdx", "",
           "def pdxSchema : List ClassSchema := ["]
    for i, (q, t, rd, wr) in enumerate(rows):
        out.append(f"  ⟨{lean_str(q)}, {lean_str(t)},")
        out.append("    [" + ", ".join(lean_str(s) for s in rd) + "],")
        out.append("    [" + ", ".join(lean_str(s) for s in wr) + "]⟩" + ("," if i + 1 < len(rows) else ""))
    out.append("]")
    out.append("")
    out.append("/-- parser classes never reached from `Database._process_xml_tree` (no element tag known; not checked) -/")
    out.append("def pdxUnreachable : List String := [" + ", ".join(lean_str(s) for s in unreachable) + "]")
    out.append("")
    out.append("end OdxVerif.Gen")
    return "\n".join(out) + "\n"


def regenerate(repo: Path, verif: Path):
    rows, w, funcs, unreachable = build_rows(repo)
    if len(rows) < 20:
        raise ExtractError(f"only {len(rows)} rows extracted — the scan no longer understands the source")
    new = render(rows, w, funcs, unreachable)
    out = verif / OUT_REL
    if not out.exists() or out.read_text() != new:
        out.write_text(new)
    return rows, w, funcs, unreachable


if __name__ == "__main__":
    import sys
    repo = Path(sys.argv[1] if len(sys.argv) > 1 else "/repo")
    rows, w, funcs, unreachable = build_rows(repo)
    print(len(rows), "rows;", len(funcs), "functions;", len(w.slots), "tags written;", w.inlined, "inlinings")
    print("unreachable:", unreachable)
    for u in sorted(set(w.unresolved)):
        print("note:", u)
    missing = {}
    for q, t, rd, wr in rows:
        for s in rd:
            if s not in wr:
                missing.setdefault((q, s), []).append(t)
    for (q, s), ts in sorted(missing.items()):
        print(f"READ-NOT-WRITTEN {q:34s} {s:40s} under {ts[:6]}{'...' if len(ts) > 6 else ''}")
