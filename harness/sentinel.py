"""Source sentinel: normalised AST hashes of the source files a property is anchored in (properties.jsonl `anchors.files`,
plus the modules every codec property goes through). `harness/anchors.json` pins the hashes of the tree the checks were
developed against (regenerate with `python harness/sentinel.py --pin` after every commit to /repo).

The sentinel decides NOTHING about the property. When an anchored file differs from the pinned snapshot the check spends
extra search effort (further rounds of the same generators with fresh seeds, under a time budget) — a changed
implementation is exactly the situation in which the model/implementation tie and the property have to be re-examined as
deeply as affordable. On the pinned tree it costs a few milliseconds."""
import ast
import glob
import hashlib
import json
import sys
from pathlib import Path

HERE = Path(__file__).resolve().parent
PIN = HERE / "anchors.json"
# files every property may depend on besides its own anchors
COMMON = ["odxtools/exceptions.py", "odxtools/odxtypes.py", "odxtools/nameditemlist.py", "odxtools/utils.py"]


def _strip_docstrings(tree):
    for node in ast.walk(tree):
        if isinstance(node, (ast.FunctionDef, ast.AsyncFunctionDef, ast.ClassDef, ast.Module)):
            b = node.body
            if b and isinstance(b[0], ast.Expr) and isinstance(getattr(b[0], "value", None), ast.Constant) and isinstance(b[0].value.value, str):
                node.body = b[1:] or [ast.Pass()]
    return tree


def file_hash(path: Path) -> str:
    src = path.read_bytes()
    if path.suffix == ".py":
        try:
            return hashlib.blake2b(ast.dump(_strip_docstrings(ast.parse(src))).encode(), digest_size=10).hexdigest()
        except SyntaxError:
            pass
    return hashlib.blake2b(src, digest_size=10).hexdigest()


# the codec properties share one implementation: a change anywhere in it concerns all of them
CODEC_GROUP = ["C01", "C02", "C03", "C04", "C05", "C08", "C17"]


def _patterns(props, pid):
    p = next(x for x in props if x["id"] == pid)
    a = p.get("anchors") or {}
    if isinstance(a, str):
        try:
            a = ast.literal_eval(a)
        except Exception:  # noqa
            a = {}
    return list(a.get("files", []))


def anchor_files(repo: Path, pid: str):
    props = [json.loads(l) for l in (HERE.parent / "properties.jsonl").read_text().splitlines() if l.strip()]
    pats = _patterns(props, pid) + COMMON
    if pid in CODEC_GROUP:
        for q in CODEC_GROUP:
            pats += _patterns(props, q)
    out = set()
    for pat in pats:
        for f in glob.glob(str(repo / pat), recursive=True):
            if Path(f).is_file():
                out.add(str(Path(f).relative_to(repo)))
    return sorted(out)


def current(repo: Path, pid: str):
    return {f: file_hash(repo / f) for f in anchor_files(repo, pid)}


def changed(repo: Path, pid: str):
    """anchored files whose normalised AST differs from the pinned snapshot (added / removed files count)"""
    if not PIN.exists():
        return []
    pinned = json.loads(PIN.read_text()).get(pid, {})
    cur = current(repo, pid)
    return sorted(f for f in set(pinned) | set(cur) if pinned.get(f) != cur.get(f))


if __name__ == "__main__":
    repo = Path(sys.argv[sys.argv.index("--repo") + 1]) if "--repo" in sys.argv else Path("/repo")
    props = [json.loads(l)["id"] for l in (HERE.parent / "properties.jsonl").read_text().splitlines() if l.strip()]
    if "--pin" in sys.argv:
        PIN.write_text(json.dumps({pid: current(repo, pid) for pid in props}, indent=0, sort_keys=True) + "\n")
        print("pinned", sum(len(v) for v in json.loads(PIN.read_text()).values()), "file hashes")
    else:
        for pid in props:
            print(pid, changed(repo, pid))
