"""C15 (communication parameters): hierarchy/placement generator, ODX-XML rendering on top of the shipped
comparam subsets, observation of the real code, s-expression encoding for `drv_comparam`.

A *document description* `h` is plain JSON:
  {"custom": [<spec entry> …],            # a generated comparam subset "VCS" (defaults vary per document)
   "layers": [{"kind": K, "name": N, "parents": [index …], "insts": [<inst> …]} …]}   # parents have smaller indices
  <spec entry> = ["S", id, short_name, default] | ["C", id, short_name, [<spec entry> …], null | <value list>]
  <inst>       = {"tag": t, "id": comparam id, "doc": subset short name, "proto": null | str,
                  "form": "VALUE"|"SIMPLE-VALUE"|"COMPLEX-VALUE", "value": str | nested list of str,
                  optional "stack": null | str (PROT-STACK-SNREF), optional "desc": null | str (DESC)}
  The optional qualifiers `stack` and `desc` are not part of the override key of the property ("per parameter and
  protocol"); they are rendered into the XML and checked on the raw objects, but not forwarded to the model.
"""
import math
import struct
import warnings
import zipfile
from fractions import Fraction
from xml.etree import ElementTree as ET

import common

KINDS = ["PROTOCOL", "FUNCTIONAL-GROUP", "BASE-VARIANT", "ECU-VARIANT", "ECU-SHARED-DATA"]
TAGS = {"PROTOCOL": "PROTOCOLS", "FUNCTIONAL-GROUP": "FUNCTIONAL-GROUPS", "ECU-SHARED-DATA": "ECU-SHARED-DATAS",
        "BASE-VARIANT": "BASE-VARIANTS", "ECU-VARIANT": "ECU-VARIANTS"}

# accessors in the order of `Acc.all` (Lean), and the short names they look up in the order of `accNames`
ACCESSORS = ["get_max_can_payload_size", "uses_can", "uses_can_fd", "get_can_baudrate", "get_can_fd_baudrate",
             "get_can_receive_id", "get_can_send_id", "get_can_func_req_id", "get_doip_logical_ecu_address",
             "get_doip_logical_gateway_address", "get_doip_logical_tester_address",
             "get_doip_logical_functional_address", "get_doip_routing_activation_timeout",
             "get_doip_routing_activation_type", "get_tester_present_time"]
ACC_NAMES = ["CP_CANFDTxMaxDataLength", "CP_UniqueRespIdTable", "CP_Baudrate", "CP_CANFDBaudrate", "CP_CanFuncReqId",
             "CP_DoIPLogicalGatewayAddress", "CP_DoIPLogicalTesterAddress", "CP_DoIPLogicalFunctionalAddress",
             "CP_DoIPRoutingActivationTimeout", "CP_DoIPRoutingActivationType", "CP_TesterPresentTime"]

_shipped = None


def shipped():
    """the comparam subsets shipped inside examples/somersault.pdx: name -> (parsed XML root, catalog)
    The catalog is read here with ElementTree only, independently of the odxtools loader."""
    global _shipped
    if _shipped is None:
        _shipped = {}
        with zipfile.ZipFile(common.REPO / "examples" / "somersault.pdx") as z:
            for n in z.namelist():
                if n.endswith(".odx-cs"):
                    root = ET.fromstring(z.read(n))
                    cs = root.find("COMPARAM-SUBSET")
                    name = cs.findtext("SHORT-NAME")
                    cat = {}
                    for el in list(cs.iterfind("COMPARAMS/COMPARAM")) + list(cs.iterfind("COMPLEX-COMPARAMS/COMPLEX-COMPARAM")):
                        cat[el.get("ID")] = spec_of_et(el)
                    _shipped[name] = (root, cat)
    return _shipped


def value_of_et(el):
    return [("" if c.text is None else c.text) if c.tag == "SIMPLE-VALUE" else value_of_et(c) for c in el]


def spec_of_et(el):
    name = el.findtext("SHORT-NAME")
    if el.tag == "COMPARAM":
        return ["S", el.get("ID"), name, el.findtext("PHYSICAL-DEFAULT-VALUE") or ""]
    subs = [spec_of_et(c) for c in el if c.tag in ("COMPARAM", "COMPLEX-COMPARAM")]
    d = el.find("COMPLEX-PHYSICAL-DEFAULT-VALUE")
    return ["C", el.get("ID"), name, subs, None if d is None else value_of_et(d)]


# ----------------------------------------------------------------------------- XML rendering

def esc(s):
    return s.replace("&", "&amp;").replace("<", "&lt;").replace(">", "&gt;")


def render_spec(e):
    attrs = f'ID="{e[1]}" PARAM-CLASS="COM" CPTYPE="STANDARD" CPUSAGE="ECU-COMM"'
    if e[0] == "S":
        d = f"<PHYSICAL-DEFAULT-VALUE>{esc(e[3])}</PHYSICAL-DEFAULT-VALUE>" if e[3] != "" else "<PHYSICAL-DEFAULT-VALUE/>"
        return f'<COMPARAM {attrs}><SHORT-NAME>{e[2]}</SHORT-NAME>{d}<DATA-OBJECT-PROP-REF ID-REF="VCS.DOP"/></COMPARAM>'
    d = "" if e[4] is None else f"<COMPLEX-PHYSICAL-DEFAULT-VALUE>{render_values(e[4])}</COMPLEX-PHYSICAL-DEFAULT-VALUE>"
    return (f'<COMPLEX-COMPARAM {attrs} ALLOW-MULTIPLE-VALUES="true"><SHORT-NAME>{e[2]}</SHORT-NAME>'
            f'{"".join(render_spec(s) for s in e[3])}{d}</COMPLEX-COMPARAM>')


def render_values(vs):
    out = ""
    for v in vs:
        if isinstance(v, str):
            out += f"<SIMPLE-VALUE>{esc(v)}</SIMPLE-VALUE>" if v != "" else "<SIMPLE-VALUE/>"
        else:
            out += f"<COMPLEX-VALUE>{render_values(v)}</COMPLEX-VALUE>"
    return out


ODX_HEAD = '<?xml version="1.0"?><ODX MODEL-VERSION="2.2.0" xmlns:xsi="http://www.w3.org/2001/XMLSchema-instance">'


def render_custom(custom):
    simple = "".join(render_spec(e) for e in custom if e[0] == "S")
    cplx = "".join(render_spec(e) for e in custom if e[0] == "C")
    dop = ('<DATA-OBJECT-PROP ID="VCS.DOP"><SHORT-NAME>DOP</SHORT-NAME><COMPU-METHOD><CATEGORY>IDENTICAL</CATEGORY></COMPU-METHOD>'
           '<DIAG-CODED-TYPE BASE-DATA-TYPE="A_UINT32" xsi:type="STANDARD-LENGTH-TYPE"><BIT-LENGTH>32</BIT-LENGTH></DIAG-CODED-TYPE>'
           '<PHYSICAL-TYPE BASE-DATA-TYPE="A_UINT32"/></DATA-OBJECT-PROP>')
    return (f'{ODX_HEAD}<COMPARAM-SUBSET ID="VCS" CATEGORY="VERIF"><SHORT-NAME>VCS</SHORT-NAME>'
            f'<COMPARAMS>{simple}</COMPARAMS><COMPLEX-COMPARAMS>{cplx}</COMPLEX-COMPARAMS>'
            f'<DATA-OBJECT-PROPS>{dop}</DATA-OBJECT-PROPS></COMPARAM-SUBSET></ODX>')


CSPEC_XML = f'{ODX_HEAD}<COMPARAM-SPEC ID="VCSPEC"><SHORT-NAME>VCSPEC</SHORT-NAME></COMPARAM-SPEC></ODX>'


def render_inst(c):
    if c["form"] == "COMPLEX-VALUE":
        v = f"<COMPLEX-VALUE>{render_values(c['value'])}</COMPLEX-VALUE>"
    else:
        v = f"<{c['form']}>{esc(c['value'])}</{c['form']}>" if c["value"] != "" else f"<{c['form']}/>"
    # schema order: value, DESC, PROTOCOL-SNREF, PROT-STACK-SNREF
    d = f'<DESC><p>{esc(c["desc"])}</p></DESC>' if c.get("desc") is not None else ""
    p = f'<PROTOCOL-SNREF SHORT-NAME="{c["proto"]}"/>' if c["proto"] is not None else ""
    p += f'<PROT-STACK-SNREF SHORT-NAME="{c["stack"]}"/>' if c.get("stack") is not None else ""
    return f'<COMPARAM-REF ID-REF="{c["id"]}" DOCREF="{c["doc"]}" DOCTYPE="COMPARAM-SUBSET">{v}{d}{p}</COMPARAM-REF>'


def render_layer(h, L):
    cr = f"<COMPARAM-REFS>{''.join(render_inst(c) for c in L['insts'])}</COMPARAM-REFS>" if L["insts"] else ""
    pr = "".join(render_parent_ref(h, p) for p in L["parents"])
    pr = f"<PARENT-REFS>{pr}</PARENT-REFS>" if pr else ""
    cs = '<COMPARAM-SPEC-REF ID-REF="VCSPEC" DOCREF="VCSPEC" DOCTYPE="COMPARAM-SPEC"/>' if L["kind"] == "PROTOCOL" else ""
    return f'<{L["kind"]} ID="{L["name"]}"><SHORT-NAME>{L["name"]}</SHORT-NAME>{cr}{cs}{pr}</{L["kind"]}>'


def render_parent_ref(h, p):
    return f'<PARENT-REF ID-REF="{h["layers"][p]["name"]}" xsi:type="{h["layers"][p]["kind"]}-REF"/>'


def render_layers(h):
    body = {k: "" for k in KINDS}
    for L in h["layers"]:
        body[L["kind"]] += render_layer(h, L)
    inner = "".join(f"<{TAGS[k]}>{body[k]}</{TAGS[k]}>" for k in ["PROTOCOL", "FUNCTIONAL-GROUP", "ECU-SHARED-DATA", "BASE-VARIANT", "ECU-VARIANT"] if body[k])
    return f'{ODX_HEAD}<DIAG-LAYER-CONTAINER ID="DLC"><SHORT-NAME>DLC</SHORT-NAME>{inner}</DIAG-LAYER-CONTAINER></ODX>'


def docs_of(h):
    return {c["doc"] for L in h["layers"] for c in L["insts"]}


def load(h, docs=None):
    """through the real XML loader; `docs` = the shipped subsets to load (default: those the document refers to)"""
    from odxtools.database import Database
    db = Database()
    docs = docs_of(h) if docs is None else docs
    for name, (root, _) in shipped().items():
        if name in docs:
            db._process_xml_tree(root)
    db._process_xml_tree(ET.fromstring(render_custom(h["custom"])))
    db._process_xml_tree(ET.fromstring(CSPEC_XML))
    db._process_xml_tree(ET.fromstring(render_layers(h)))
    db.refresh()
    return db


def catalog(h):
    cat = {}
    for _, (_, c) in shipped().items():
        cat.update(c)
    for e in h["custom"]:
        cat[e[1]] = e
    return cat


# ----------------------------------------------------------------------------- the implementation, observed

def exc_class(e):
    from odxtools.exceptions import OdxError
    return "odx" if isinstance(e, OdxError) else "foreign"


def canon_res(v):
    if v is None:
        return None
    if isinstance(v, bool):
        return ("b", v)
    if isinstance(v, int):
        return ("i", v)
    if isinstance(v, float):
        return ("m", "nan" if math.isnan(v) else struct.pack(">d", v).hex())
    return ("?", type(v).__name__)


def protos_of(h):
    ps = []
    for L in h["layers"]:
        if L["kind"] == "PROTOCOL" and L["name"] not in ps:
            ps.append(L["name"])
        for c in L["insts"]:
            if c["proto"] is not None and c["proto"] not in ps:
                ps.append(c["proto"])
    return [None] + ps + ["PX"]


def names_of(h):
    cat = catalog(h)
    ns = list(ACC_NAMES)
    for L in h["layers"]:
        for c in L["insts"]:
            n = cat[c["id"]][2]
            if n not in ns:
                ns.append(n)
    used = ns[len(ACC_NAMES):] or ["CP_Baudrate"]
    # near misses of names that are in use: a proper prefix, an extension, another case
    return ns + ["CP_NoSuchParameter", used[0][:-1], used[0] + "X", used[-1].lower(), "CP_Baudrat", ""]


def layer_map(db, live=False):
    """short name -> layer object, from the per-kind lists of the database (these follow the containers on every refresh());
    live=True: from the containers themselves (for edits between two refresh() calls)"""
    m = {}
    for src in (db.diag_layer_containers if live else [db]):
        for lst in (src.ecu_shared_datas, src.protocols, src.functional_groups, src.base_variants, src.ecu_variants):
            for lay in lst:
                m[lay.short_name] = lay
    return m


def observe(h, db):
    """per non-ESD layer: everything C15 speaks about, as plain data; exceptions become data"""
    out = {}
    by_obj = {}
    problems = []
    layers = layer_map(db)
    for i, L in enumerate(h["layers"]):
        if L["kind"] == "ECU-SHARED-DATA":
            continue
        raw = layers[L["name"]].hierarchy_element_raw.comparam_refs
        if len(raw) != len(L["insts"]):
            problems.append(("raw-count", i))
        for c, o in zip(L["insts"], raw):
            by_obj[id(o)] = c["tag"]
            if (o.spec_ref.ref_id, o.protocol_snref, o.value) != (c["id"], c["proto"], c["value"]):
                problems.append(("raw-parse", c["tag"], repr((o.spec_ref.ref_id, o.protocol_snref, o.value))))
            try:
                got_q = (o.prot_stack_snref, o.description is not None)
            except Exception as e:
                got_q = "foreign:" + type(e).__name__
            if got_q != (c.get("stack"), c.get("desc") is not None):
                problems.append(("raw-qualifier", c["tag"], repr(got_q)))
    protos = protos_of(h)
    names = names_of(h)
    prot_layers = {L["name"] for L in h["layers"] if L["kind"] == "PROTOCOL"}
    with warnings.catch_warnings():
        warnings.simplefilter("ignore")
        for i, L in enumerate(h["layers"]):
            if L["kind"] == "ECU-SHARED-DATA":
                continue
            lay = layers[L["name"]]
            o = {}
            try:
                o["refs"] = [(by_obj.get(id(c), -1), c.spec_ref.ref_id, c.protocol_snref, c.value, c.short_name) for c in lay.comparam_refs]
            except Exception as e:
                o["refs"] = "err:" + exc_class(e)
            gc = []
            for n in names:
                for p in protos:
                    try:
                        r = lay.get_comparam(n, protocol=p)
                        r = None if r is None else by_obj.get(id(r), -1)
                        if p in prot_layers:   # a Protocol object means its short name
                            r2 = lay.get_comparam(n, protocol=layers[p])
                            r2 = None if r2 is None else by_obj.get(id(r2), -1)
                            if r2 != r:
                                problems.append(("protocol-object", i, n, p))
                    except Exception as e:
                        r = "err:" + exc_class(e)
                    gc.append(r)
            o["gc"] = gc
            acc = []
            for p in protos:
                row = []
                for a in ACCESSORS:
                    try:
                        row.append(canon_res(getattr(lay, a)(protocol=p)))
                    except Exception as e:
                        row.append(("e", exc_class(e)))
                ch = []
                for n in ACC_NAMES:
                    try:
                        r = lay.get_comparam(n, protocol=p)
                        ch.append(None if r is None else by_obj.get(id(r), -1))
                    except Exception:
                        ch.append(None)
                acc.append((row, ch))
            o["acc"] = acc
            # get_value / get_subvalue of every visible instance
            vals = {}
            if not isinstance(o["refs"], str):
                for c in lay.comparam_refs:
                    t = by_obj.get(id(c), -1)
                    try:
                        v = ("ok", c.get_value())
                    except Exception as e:
                        v = ("e", exc_class(e))
                    subs = []
                    for sp in getattr(c.spec, "subparams", []):
                        try:
                            subs.append((sp.short_name, ("ok", c.get_subvalue(sp.short_name))))
                        except Exception as e:
                            subs.append((sp.short_name, ("e", exc_class(e))))
                    vals[t] = (v, subs)
            o["vals"] = vals
            out[i] = o
    return out, problems, names, protos


# ----------------------------------------------------------------------------- edit histories
#
# A *history* is {"h0": <document>, "observe0": bool, "steps": [{"ops": [<op> …], "observe": bool} …]}: the document is loaded,
# then every step edits the LIVE objects of the database (the way examples/mksomersaultmodifiedpdx.py edits a database) and calls
# Database.refresh(); "observe" says whether all lookups are made in that state (the last state is always observed).
# The property speaks about "every layer hierarchy": after refresh() the answers must be those of the hierarchy as it is now.
#   <op> = {"op": "add",     "layer": i, "pos": k, "inst": <inst>, "style": "inplace"|"rebind"}   new COMPARAM-REF object
#        | {"op": "del",     "layer": i, "pos": k, "style": …}
#        | {"op": "replace", "layer": i, "pos": k, "inst": <inst>}                                 another object in the same slot
#        | {"op": "set",     "layer": i, "pos": k, "field": "value"|"proto"|"stack"|"id", "to": …[, "form": …]}   attribute of the existing object
#        | {"op": "swap",    "layer": i, "a": k1, "b": k2}                                          document order inside a layer
#        | {"op": "parents", "layer": i, "to": [index …], "style": …}                               add / remove / reorder parent refs
#        | {"op": "dflt",    "id": id of a simple (sub-)parameter of the generated subset, "to": str}   PHYSICAL-DEFAULT-VALUE
#        | {"op": "layer",   "layer": <layer>}                                                       a new layer (appended; parents = older layers)
# "style": "inplace" mutates the existing Python list, "rebind" assigns a new list to the attribute of the raw layer.

def copy_desc(h):
    return {"custom": h["custom"], "layers": [{**L, "parents": list(L["parents"]), "insts": [dict(c) for c in L["insts"]]} for L in h["layers"]]}


def _find_spec_entry(entries, id_):
    for e in entries:
        if e[1] == id_:
            return e
        if e[0] == "C":
            r = _find_spec_entry(e[3], id_)
            if r is not None:
                return r
    return None


def edit_desc(h, op):
    """the edited document description (the input is not modified)"""
    import json
    h = copy_desc(h)
    k = op["op"]
    if k == "dflt":
        h["custom"] = json.loads(json.dumps(h["custom"]))
        _find_spec_entry(h["custom"], op["id"])[3] = op["to"]
        return h
    if k == "layer":
        h["layers"].append(json.loads(json.dumps(op["layer"])))
        return h
    L = h["layers"][op["layer"]]
    if k == "add":
        L["insts"].insert(op["pos"], dict(op["inst"]))
    elif k == "del":
        del L["insts"][op["pos"]]
    elif k == "replace":
        L["insts"][op["pos"]] = dict(op["inst"])
    elif k == "set":
        c = L["insts"][op["pos"]]
        c[op["field"]] = op["to"]
        if op["field"] == "id":
            c["doc"] = op["doc"]
        if "form" in op:
            c["form"] = op["form"]
        if op["field"] == "stack" and op["to"] is None:
            del c["stack"]
    elif k == "swap":
        L["insts"][op["a"]], L["insts"][op["b"]] = L["insts"][op["b"]], L["insts"][op["a"]]
    elif k == "parents":
        L["parents"] = list(op["to"])
    else:
        raise ValueError(k)
    return h


def _et(xml):
    return ET.fromstring(f'<X xmlns:xsi="http://www.w3.org/2001/XMLSchema-instance">{xml}</X>')[0]


def _set_list(obj, attr, new, style):
    if style == "rebind":
        setattr(obj, attr, new)
    else:
        getattr(obj, attr)[:] = new


def _walk_specs(subset):
    todo = list(subset.comparams) + list(subset.complex_comparams)
    while todo:
        s = todo.pop()
        yield s
        todo.extend(getattr(s, "subparams", []))


def edit_live(h, db, op):
    """apply `op` to the objects of the loaded database; `h` describes the database BEFORE the op. New objects are made by the
    real `from_et` constructors from the same XML a document would contain. The caller calls db.refresh() afterwards."""
    from odxtools.comparaminstance import ComparamInstance
    from odxtools.odxlink import OdxLinkRef
    from odxtools.parentref import ParentRef
    k = op["op"]
    if k == "dflt":
        for sub in db.comparam_subsets:
            if sub.short_name == "VCS":
                for s in _walk_specs(sub):
                    if s.odx_id.local_id == op["id"]:
                        s.physical_default_value = op["to"]
        return
    if k == "layer":
        from odxtools.diaglayers.basevariant import BaseVariant
        from odxtools.diaglayers.ecuvariant import EcuVariant
        from odxtools.diaglayers.functionalgroup import FunctionalGroup
        from odxtools.diaglayers.protocol import Protocol
        L = op["layer"]
        cls, attr = {"PROTOCOL": (Protocol, "protocols"), "FUNCTIONAL-GROUP": (FunctionalGroup, "functional_groups"),
                     "BASE-VARIANT": (BaseVariant, "base_variants"), "ECU-VARIANT": (EcuVariant, "ecu_variants")}[L["kind"]]
        dlc = db.diag_layer_containers[0]
        getattr(dlc, attr).append(cls.from_et(_et(render_layer(h, L)), dlc.odx_id.doc_fragments))
        return
    L = h["layers"][op["layer"]]
    lay = layer_map(db, live=True)[L["name"]]
    raw = lay.diag_layer_raw
    frags = lay.odx_id.doc_fragments
    mk = lambda c: ComparamInstance.from_et(_et(render_inst(c)), frags)
    cur = list(raw.comparam_refs) if k != "parents" else None
    if k == "add":
        cur.insert(op["pos"], mk(op["inst"]))
        _set_list(raw, "comparam_refs", cur, op.get("style"))
    elif k == "del":
        del cur[op["pos"]]
        _set_list(raw, "comparam_refs", cur, op.get("style"))
    elif k == "replace":
        raw.comparam_refs[op["pos"]] = mk(op["inst"])
    elif k == "swap":
        a, b = op["a"], op["b"]
        raw.comparam_refs[a], raw.comparam_refs[b] = raw.comparam_refs[b], raw.comparam_refs[a]
    elif k == "set":
        o = raw.comparam_refs[op["pos"]]
        f = op["field"]
        if f == "value":
            o.value = op["to"] if isinstance(op["to"], str) else _live_value(op["to"])
        elif f == "proto":
            o.protocol_snref = op["to"]
        elif f == "stack":
            o.prot_stack_snref = op["to"]
        elif f == "id":
            o.spec_ref = OdxLinkRef.from_et(_et(f'<R ID-REF="{op["to"]}" DOCREF="{op["doc"]}" DOCTYPE="COMPARAM-SUBSET"/>'), frags)
        else:
            raise ValueError(f)
    elif k == "parents":
        old = list(raw.parent_refs)
        pool = {}
        for p, o in zip(L["parents"], old):
            pool.setdefault(p, []).append(o)
        new = []
        for p in op["to"]:                      # parent refs that stay keep their object, others are new objects
            if pool.get(p):
                new.append(pool[p].pop(0))
            else:
                new.append(ParentRef.from_et(_et(render_parent_ref(h, p)), frags))
        _set_list(raw, "parent_refs", new, op.get("style"))
    else:
        raise ValueError(k)


def _live_value(v):
    return [x if isinstance(x, str) else _live_value(x) for x in v]


def history_states(hist):
    states = [hist["h0"]]
    for st in hist["steps"]:
        h = states[-1]
        for op in st["ops"]:
            h = edit_desc(h, op)
        states.append(h)
    return states


# ----------------------------------------------------------------------------- s-expressions

def sx_str(s):
    return "x" + s.encode("utf-8").hex()


def sx_val(v):
    return sx_str(v) if isinstance(v, str) else "(v " + " ".join(sx_val(x) for x in v) + ")"


def sx_spec(e):
    if e[0] == "S":
        return f"(S {sx_str(e[2])} {sx_str(e[3])})"
    d = "-" if e[4] is None else "(v " + " ".join(sx_val(x) for x in e[4]) + ")"
    return f"(C {sx_str(e[2])} (subs {' '.join(sx_spec(s) for s in e[3])}) {d})"


def sx_layer(h, i, cat, memo):
    if i not in memo:
        L = h["layers"][i]
        insts = "" if L["kind"] == "ECU-SHARED-DATA" else " ".join(
            f"(I {c['tag']} {sx_str(c['id'])} {'-' if c['proto'] is None else sx_str(c['proto'])} {sx_val(c['value'])} {sx_spec(cat[c['id']])})"
            for c in L["insts"])
        memo[i] = f"(L {L['kind']} (insts {insts}) (parents {' '.join(sx_layer(h, p, cat, memo) for p in L['parents'])}))"
    return memo[i]


def request_line(h, i, names, protos, choices, memo):
    cat = catalog(h)
    gc = " ".join(f"({sx_str(n)} {'-' if p is None else sx_str(p)})" for n in names for p in protos)
    acc = " ".join("(" + ("-" if p is None else sx_str(p)) + " " + " ".join("-" if t is None else str(t) for t in ch) + ")"
                   for p, ch in zip(protos, choices))
    return f"(cp {sx_layer(h, i, cat, memo)} (gc {gc}) (acc {acc}))"


def parse_sexp(s):
    toks = s.replace("(", " ( ").replace(")", " ) ").split()
    stack = [[]]
    for t in toks:
        if t == "(":
            stack.append([])
        elif t == ")":
            x = stack.pop()
            stack[-1].append(x)
        else:
            stack[-1].append(t)
    return stack[0]


def res_of_sx(x):
    """model/spec result -> the canonical form of `canon_res` ('?' = not specified)"""
    if x == "-":
        return None
    if x == "?":
        return "?"
    if x[0] == "i":
        return ("i", int(x[1]))
    if x[0] == "b":
        return ("b", x[1] == "t")
    if x[0] == "e":
        return ("e", x[1])
    if x[0] == "m":
        if x[1] == "nan":
            return ("m", "nan")
        if x[1] == "inf":
            v = -math.inf if x[2] == "t" else math.inf
        else:
            neg, mant, exp = x[2] == "t", int(x[3]), int(x[4])
            if mant == 0:
                v = 0.0
            elif abs(exp) > 1000:
                v = math.inf if exp > 0 else 0.0
            else:
                try:
                    v = float(Fraction(mant) * Fraction(10) ** exp)   # correctly rounded, like float(str)
                except OverflowError:
                    v = math.inf
            v = -v if neg else v
        return ("m", struct.pack(">d", v / 1e6).hex())
    return ("?", str(x))


def parse_reply(rep):
    d = {}
    for item in parse_sexp(rep):
        if isinstance(item, list) and item:
            d[item[0]] = item[1:]
    if "refs" not in d:
        return None
    return {
        "refs": [int(t) for t in d["refs"]],
        "eff": [int(t) for t in d["eff"]],
        "gc": [None if t == "-" else int(t) for t in d["gc"]],
        "cand": [[int(t) for t in c] for c in d["cand"]],
        "acc": [[res_of_sx(x) for x in row] for row in d["acc"]],
        "sacc": [[res_of_sx(x) for x in row] for row in d["sacc"]],
    }
