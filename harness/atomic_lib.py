"""Atomic layer (EncodeState.emplace_atomic_value / DecodeState.extract_atomic_value): case generation,
execution on the real code (either bitstruct backend) and the request lines for drv_codec.
A *case* is a plain dict (JSON-able), so it can be shipped to a worker interpreter that forces the
pure-Python bitstruct backend:  python atomic_lib.py --pure < cases.jsonl > replies.txt"""
import json
import os
import struct
import subprocess
import sys
import warnings
from pathlib import Path

BASE_TYPES = ["A_INT32", "A_UINT32", "A_FLOAT32", "A_FLOAT64", "A_ASCIISTRING", "A_UTF8STRING", "A_UNICODE2STRING", "A_BYTEFIELD"]
LEGAL_ENC = {
    "A_INT32": [None, "2C", "1C", "SM"],
    "A_UINT32": [None, "NONE", "BCD-P", "BCD-UP"],
    "A_FLOAT32": [None, "NONE"], "A_FLOAT64": [None, "NONE"],
    "A_ASCIISTRING": [None, "ISO-8859-1", "ISO-8859-2", "WINDOWS-1252", "UTF-8"],
    "A_UTF8STRING": [None, "UTF-8"],
    "A_UNICODE2STRING": [None, "UCS-2"],
    "A_BYTEFIELD": [None, "NONE", "BCD-P", "BCD-UP"],
}
ALL_ENC = [None, "BCD-P", "BCD-UP", "1C", "2C", "SM", "UTF-8", "UCS-2", "ISO-8859-1", "ISO-8859-2", "WINDOWS-1252", "NONE"]
HOT_BITLENS = [1, 7, 8, 9, 15, 16, 17, 31, 32, 33, 63, 64]


def hexa(b):
    b = bytes(b)
    return b.hex() if b else "-"


def val_to_sexp(v):
    if isinstance(v, bool):
        return f"(int {int(v)})"
    if isinstance(v, int):
        return f"(int {v})"
    if isinstance(v, (bytes, bytearray)):
        return f"(bytes {hexa(v)})"
    if isinstance(v, str):
        try:
            return f"(str {hexa(v.encode('utf-8'))})"
        except UnicodeEncodeError:
            return "(str ?)"
    if isinstance(v, float):
        return f"(float {struct.pack('>d', v).hex()})"
    return "(other)"


def val_from_json(j):
    t, x = j
    if t == "int":
        return int(x)
    if t == "bytes":
        return bytes.fromhex(x)
    if t == "str":
        return x
    if t == "float":
        return struct.unpack(">d", bytes.fromhex(x))[0]
    if t == "none":
        return None
    raise ValueError(t)


def val_to_json(v):
    if isinstance(v, bool):
        return ["int", int(v)]
    if isinstance(v, int):
        return ["int", v]
    if isinstance(v, (bytes, bytearray)):
        return ["bytes", bytes(v).hex()]
    if isinstance(v, str):
        return ["str", v]
    if isinstance(v, float):
        return ["float", struct.pack(">d", v).hex()]
    if v is None:
        return ["none", None]
    raise ValueError(type(v))


def classify(e):
    from odxtools.exceptions import DecodeError, DecodeMismatch, EncodeError, OdxError
    if isinstance(e, DecodeMismatch):
        return "mismatch"
    if isinstance(e, EncodeError):
        return "encode"
    if isinstance(e, DecodeError):
        return "decode"
    if isinstance(e, OdxError):
        return "odx"
    return "foreign"


def request_line(c):
    enc = f" (enc {c['enc']})" if c.get("enc") else ""
    hl = "t" if c["hl"] else "f"
    strict = "t" if c.get("strict", True) else "f"
    if c["op"] == "emplace":
        mask = f" (mask {c['mask']})" if c.get("mask") else ""
        v = val_to_sexp(val_from_json(c["v"]))
        return (f"(emplace (bt {c['bt']}){enc} (bitlen {c['bl']}) (bitpos {c['bp']}) (hl {hl}){mask} "
                f"(pre {c['pre_msg'] or '-'} {c['pre_used'] or '-'}) (pos {c['pos']}) (v {v}) (strict {strict}))")
    return (f"(extract (bt {c['bt']}){enc} (bitlen {c['bl']}) (bitpos {c['bp']}) (hl {hl}) (msg {c['msg'] or '-'}) "
            f"(pos {c['pos']}) (strict {strict}))")


def run_case(c):
    """execute one case on the real code; returns (canonical reply, exception type name or None)"""
    import odxtools.exceptions as ex
    from odxtools.decodestate import DecodeState
    from odxtools.encodestate import EncodeState
    from odxtools.encoding import Encoding
    from odxtools.exceptions import OdxWarning
    from odxtools.odxtypes import DataType
    bt = DataType(c["bt"])
    enc = Encoding(c["enc"]) if c.get("enc") else None
    old = ex.strict_mode
    ex.strict_mode = c.get("strict", True)
    try:
        with warnings.catch_warnings(record=True) as w:
            warnings.simplefilter("always")
            if c["op"] == "emplace":
                es = EncodeState(coded_message=bytearray.fromhex(c["pre_msg"]), used_mask=bytearray.fromhex(c["pre_used"]),
                                 cursor_byte_position=c["pos"], cursor_bit_position=c["bp"])
                es.emplace_atomic_value(internal_value=val_from_json(c["v"]), bit_length=c["bl"], base_data_type=bt,
                                        base_type_encoding=enc, is_highlow_byte_order=c["hl"],
                                        used_mask=bytes.fromhex(c["mask"]) if c.get("mask") else None)
                nw = sum(1 for x in w if issubclass(x.category, OdxWarning))
                return (f"(ok {hexa(es.coded_message)} {hexa(es.used_mask)} (warn {'t' if nw else 'f'}) (cursor {es.cursor_byte_position}))", None)
            ds = DecodeState(coded_message=bytes.fromhex(c["msg"]), cursor_byte_position=c["pos"], cursor_bit_position=c["bp"])
            v = ds.extract_atomic_value(bit_length=c["bl"], base_data_type=bt, base_type_encoding=enc, is_highlow_byte_order=c["hl"])
            return (f"(ok {val_to_sexp(v)} (cursor {ds.cursor_byte_position}))", None)
    except Exception as e:  # noqa
        return (f"(err {classify(e)})", type(e).__name__)
    finally:
        ex.strict_mode = old


def run_cases_pure(cases, repo):
    """same cases in a fresh interpreter with the pure-Python bitstruct backend"""
    env = dict(os.environ, ODX_REPO=str(repo))
    p = subprocess.run([sys.executable, str(Path(__file__).resolve()), "--pure"], input="\n".join(json.dumps(c) for c in cases) + "\n",
                       capture_output=True, text=True, env=env)
    if p.returncode != 0:
        raise RuntimeError("pure-backend worker failed: " + p.stderr[-500:])
    return [tuple(json.loads(l)) for l in p.stdout.splitlines()]


# ---------------------------------------------------------------- generation

def boundary_ints(bl):
    s = {0, 1, 2, -1, -2, 9, 10, 99, 100}
    for e in (bl - 1, bl):
        if e >= 0:
            p = 1 << e
            s |= {p - 2, p - 1, p, p + 1, -p - 1, -p, -p + 1, -p + 2}
    return sorted(s)


def gen_string(rng, enc_name):
    pools = {"ascii": "aZ09 _~", "latin1": "aé\xff\xa0ß", "latin2": "ačžŁ", "cp1252": "a€œ™", "bmp": "aé€中ࠀ￿", "astral": "a😀\U00010000\U0010ffff"}
    pool = rng.choice(list(pools.values())) if rng.random() < 0.7 else pools["ascii"]
    return "".join(rng.choice(pool) for _ in range(rng.randint(0, 5)))


def gen_emplace(rng, valid=True):
    bt = rng.choice(BASE_TYPES)
    enc = rng.choice(LEGAL_ENC[bt]) if valid or rng.random() < 0.6 else rng.choice(ALL_ENC)
    hl = rng.random() < 0.5
    bp = rng.randint(0, 7)
    c = {"op": "emplace", "bt": bt, "enc": enc, "hl": hl, "bp": bp, "strict": True}
    if bt in ("A_INT32", "A_UINT32"):
        bl = rng.choice(HOT_BITLENS) if rng.random() < 0.5 else rng.randint(1, 64)
        if valid:
            if bt == "A_UINT32":
                if enc == "BCD-P":
                    v = int("".join(rng.choice("0123456789") for _ in range(max(1, bl // 4))) or "0")
                    v = v if rng.random() < 0.8 else rng.choice([0, 9, 10 ** (bl // 4) - 1 if bl >= 4 else 0])
                elif enc == "BCD-UP":
                    v = int("".join(rng.choice("0123456789") for _ in range(max(1, (bl + 4) // 8))) or "0")
                else:
                    v = rng.choice([0, 1, (1 << bl) - 1, 1 << (bl - 1), rng.getrandbits(bl)])
            else:
                half = 1 << (bl - 1)
                lo = -half if enc in (None, "2C") else -(half - 1)
                v = rng.choice([0, lo, half - 1, -1 if lo <= -1 else 0, rng.randint(lo, half - 1)])
        else:
            v = rng.choice(boundary_ints(bl))
        c.update(bl=bl, v=["int", v])
    elif bt in ("A_FLOAT32", "A_FLOAT64"):
        bl = 32 if bt == "A_FLOAT32" else 64
        if not valid and rng.random() < 0.3:
            bl = rng.choice([16, 31, 33, 64, 32])
        f = rng.choice([0.0, -0.0, 1.0, -1.5, 0.15625, 2.0 ** 100, -2.0 ** -100, float("inf"), 1e300 if bt == "A_FLOAT64" else 2.0 ** 127, 3.0 * 2 ** -20])
        c.update(bl=bl, v=["float", struct.pack(">d", f).hex()])
    elif bt == "A_BYTEFIELD":
        n = rng.randint(0, 5)
        b = bytes(rng.getrandbits(8) for _ in range(n))
        bl = 8 * n if valid else rng.choice([8 * n, 8 * n + 8, max(0, 8 * n - 8), 8 * n + 4, 3])
        c.update(bl=bl, v=["bytes", b.hex()])
        if valid:
            c["bp"] = 0
    else:
        s = gen_string(rng, enc)
        codec = {"UTF-8": "utf-8", "UCS-2": "utf-16-be" if hl else "utf-16-le", "ISO-8859-1": "iso-8859-1", "ISO-8859-2": "iso-8859-2", "WINDOWS-1252": "cp1252"}.get(
            enc, {"A_UTF8STRING": "utf-8", "A_UNICODE2STRING": "utf-16-be" if hl else "utf-16-le", "A_ASCIISTRING": "iso-8859-1"}[bt])
        try:
            n = len(s.encode(codec))
        except UnicodeEncodeError:
            if valid:
                s = "".join(ch for ch in s if ord(ch) < 128)
            n = len(s.encode(codec, errors="replace"))
        bl = 8 * n if valid else rng.choice([8 * n, 8 * n + 8, max(0, 8 * n - 8), 8 * n + 16])
        c.update(bl=bl, v=["str", s])
        if valid:
            c["bp"] = 0
    if not valid and rng.random() < 0.15:  # wrongly typed value
        c["v"] = rng.choice([["int", 5], ["bytes", "0102"], ["str", "12"], ["float", struct.pack(">d", 2.5).hex()]])
    k = (c["bl"] + c["bp"] + 7) // 8
    pos = rng.choice([0, 0, 1, 3])
    pre_len = rng.choice([0, pos, pos + k, pos + k + 2])
    pre = bytes(rng.getrandbits(8) for _ in range(pre_len))
    mode = rng.random()
    used = bytes(pre_len) if mode < 0.6 else bytes(rng.choice([0, 0, 0x0f, 0xff, 0x80, 0x01]) for _ in range(pre_len))
    c.update(pos=pos, pre_msg=pre.hex(), pre_used=used.hex())
    if bt in ("A_INT32", "A_UINT32", "A_BYTEFIELD") and rng.random() < 0.2 and c["bl"] > 0:
        nbytes = (c["bl"] + 7) // 8
        m = rng.getrandbits(c["bl"]) if valid else rng.getrandbits(8 * nbytes)
        c["mask"] = m.to_bytes(nbytes, "big" if (hl or bt == "A_BYTEFIELD") else "little").hex()
    return c


def gen_extract(rng, valid=True):
    bt = rng.choice(BASE_TYPES)
    enc = rng.choice(LEGAL_ENC[bt]) if valid or rng.random() < 0.6 else rng.choice(ALL_ENC)
    bp = rng.randint(0, 7)
    if bt in ("A_INT32", "A_UINT32"):
        bl = rng.choice(HOT_BITLENS) if rng.random() < 0.5 else rng.randint(0, 64)
    elif bt == "A_FLOAT32":
        bl = 32 if valid or rng.random() < 0.7 else rng.choice([16, 64])
    elif bt == "A_FLOAT64":
        bl = 64 if valid or rng.random() < 0.7 else rng.choice([32, 8])
    else:
        bl = 8 * rng.randint(0, 6) if rng.random() < 0.85 else rng.randint(0, 40)
        if bt == "A_UNICODE2STRING" and valid:
            bl = 16 * rng.randint(0, 3)
    k = (bl + bp + 7) // 8
    pos = rng.choice([0, 0, 1, 2])
    n = pos + k + rng.choice([0, 0, 1, 3]) if rng.random() < 0.85 else max(0, pos + k - rng.randint(1, 2))
    style = rng.random()
    if bt in ("A_ASCIISTRING", "A_UTF8STRING", "A_UNICODE2STRING") and style < 0.6:
        txt = gen_string(rng, enc).encode("utf-8" if bt != "A_UNICODE2STRING" else "utf-16-le")
        msg = (bytes(pos) + txt + bytes(n))[:n]
    elif bt in ("A_FLOAT32", "A_FLOAT64") and style < 0.7:
        f = rng.choice([0.0, -0.0, 1.0, -2.5, 1e10, float("inf"), 2.0 ** -130])
        raw = struct.pack(">f" if bt == "A_FLOAT32" else ">d", f)
        msg = (bytes(pos) + raw + bytes(n))[:n]
    else:
        msg = bytes(rng.choice([0, 0xff, 0x80, 0x7f, rng.getrandbits(8)]) for _ in range(n))
    return {"op": "extract", "bt": bt, "enc": enc, "hl": rng.random() < 0.5, "bl": bl, "bp": bp, "pos": pos, "msg": msg.hex(), "strict": True}


if __name__ == "__main__":
    if "--pure" in sys.argv:
        sys.modules["bitstruct.c"] = None  # force the pure-Python backend before odxtools is imported
    sys.path.insert(0, str(Path(__file__).resolve().parent))
    import common
    common.import_repo()
    import odxtools.encodestate as es_mod
    assert ("--pure" not in sys.argv) or es_mod.bitstruct.__name__ == "bitstruct", es_mod.bitstruct.__name__
    for line in sys.stdin:
        line = line.strip()
        if line:
            print(json.dumps(run_case(json.loads(line))))
