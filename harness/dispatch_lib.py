"""Dispatch family (property C06): service-set generator (ODX XML through the real loader), runner for
DiagLayer.decode / decode_response / service_groups, description + oracle lines for the Lean driver.

A layer description is plain JSON:
  {"services": [{"name", "req": CODING, "pos": [CODING | "ref-name"], "neg": [...]}], "gnrs": [CODING]}
  CODING = {"name", "params": [PARAM]}
  PARAM  = {"k": "cc"|"pc", "v": int, "bl": 8|16|24}      CODED-CONST / PHYS-CONST
         | {"k": "mr", "pos": int, "len": int}            MATCHING-REQUEST-PARAM
         | {"k": "val", "bl": 8|16|24}                    VALUE
         | {"k": "nrc", "vals": [int], "bl": 8}           NRC-CONST
         | {"k": "res", "bl": 8}                          RESERVED
Coding attributes of cc / pc / val / nrc (all optional): "bo": "lh" (IS-HIGHLOW-BYTE-ORDER="false": least significant byte
first) | "hl" (the attribute spelled out as "true"); "t": "i" (A_INT32, two's complement; "v" may be negative); "bl" up to 32.
Unless stated otherwise all parameters are byte aligned and have no explicit position (envelope of the model: a constant
parameter contributes the bytes it encodes to on its own).  Position attributes (layers of the family
`enum-positioned-constant` only, evaluated by the model-free oracles): "bp": BYTE-POSITION, "bit": BIT-POSITION (then
bit + bl <= 8).  `const_bytes`, `layout`, `desc_prefix` say, from the description alone, which bytes end up on the wire.

Layers with parents (value inheritance): a description may carry
  "base": DESCRIPTION (of the parent layer, which may have a "base" itself; at most three levels),
  "not_inherited": {"services": [short name], "gnrs": [short name]}      the exclusion lists of its PARENT-REF
The description itself is then the ECU-VARIANT `ev` (the layer under test), its base the BASE-VARIANT `bv`, the base of
that the FUNCTIONAL-GROUP `fg`.  A service / global negative response of a layer overrides the inherited one of the same
short name.  `effective` computes, from the description alone, which services and global negative responses apply."""
import logging
import warnings
from xml.etree import ElementTree as ET

XSI = 'xmlns:xsi="http://www.w3.org/2001/XMLSchema-instance"'


# ---------------------------------------------------------------- XML
def _btype(p):
    return "A_INT32" if p.get("t") == "i" else "A_UINT32"


def _dct(bl, p=None):
    p = p or {}
    bo = {"lh": ' IS-HIGHLOW-BYTE-ORDER="false"', "hl": ' IS-HIGHLOW-BYTE-ORDER="true"'}.get(p.get("bo"), "")
    return (f'<DIAG-CODED-TYPE BASE-DATA-TYPE="{_btype(p)}"{bo} xsi:type="STANDARD-LENGTH-TYPE">'
            f'<BIT-LENGTH>{bl}</BIT-LENGTH></DIAG-CODED-TYPE>')


def _dop_id(p):
    """the data object property a PHYS-CONST / VALUE refers to: one per (bit length, byte order, base type)"""
    return f'u{p["bl"]}' + {"lh": "l", "hl": "h"}.get(p.get("bo"), "") + ("i" if p.get("t") == "i" else "")


def _dop(bl, p=None):
    p = dict(p or {}, bl=bl)
    return (f'<DATA-OBJECT-PROP ID="{_dop_id(p)}"><SHORT-NAME>{_dop_id(p)}</SHORT-NAME><COMPU-METHOD><CATEGORY>IDENTICAL</CATEGORY>'
            f'</COMPU-METHOD>{_dct(bl, p)}<PHYSICAL-TYPE BASE-DATA-TYPE="{_btype(p)}"/></DATA-OBJECT-PROP>')


def _pos(p):
    return ((f'<BYTE-POSITION>{p["bp"]}</BYTE-POSITION>' if "bp" in p else "")
            + (f'<BIT-POSITION>{p["bit"]}</BIT-POSITION>' if "bit" in p else ""))


def _param(i, p):
    n = f"p{i}"
    k = p["k"]
    if k == "cc":
        return (f'<PARAM xsi:type="CODED-CONST"><SHORT-NAME>{n}</SHORT-NAME>{_pos(p)}<CODED-VALUE>{p["v"]}</CODED-VALUE>'
                f'{_dct(p["bl"], p)}</PARAM>')
    if k == "pc":
        return (f'<PARAM xsi:type="PHYS-CONST"><SHORT-NAME>{n}</SHORT-NAME>{_pos(p)}<PHYS-CONSTANT-VALUE>{p["v"]}'
                f'</PHYS-CONSTANT-VALUE><DOP-REF ID-REF="{_dop_id(p)}"/></PARAM>')
    if k == "mr":
        return (f'<PARAM xsi:type="MATCHING-REQUEST-PARAM"><SHORT-NAME>{n}</SHORT-NAME>'
                f'<REQUEST-BYTE-POS>{p["pos"]}</REQUEST-BYTE-POS><BYTE-LENGTH>{p["len"]}</BYTE-LENGTH></PARAM>')
    if k == "val":
        return f'<PARAM xsi:type="VALUE"><SHORT-NAME>{n}</SHORT-NAME>{_pos(p)}<DOP-REF ID-REF="{_dop_id(p)}"/></PARAM>'
    if k == "nrc":
        vs = "".join(f"<CODED-VALUE>{v}</CODED-VALUE>" for v in p["vals"])
        return (f'<PARAM xsi:type="NRC-CONST"><SHORT-NAME>{n}</SHORT-NAME><CODED-VALUES>{vs}</CODED-VALUES>'
                f'{_dct(p["bl"], p)}</PARAM>')
    if k == "res":
        return f'<PARAM xsi:type="RESERVED"><SHORT-NAME>{n}</SHORT-NAME><BIT-LENGTH>{p["bl"]}</BIT-LENGTH></PARAM>'
    raise ValueError(k)


def _coding(tag, c, oid=None):
    ps = "".join(_param(i, p) for i, p in enumerate(c["params"]))
    return f'<{tag} ID="{oid or c["name"]}"><SHORT-NAME>{c["name"]}</SHORT-NAME><PARAMS>{ps}</PARAMS></{tag}>'


def _name(c):
    return c if isinstance(c, str) else c["name"]


LAYER_NAMES = ["ev", "bv", "fg"]
LAYER_KINDS = ["ECU-VARIANT", "BASE-VARIANT", "FUNCTIONAL-GROUP"]
NOT_INHERITED = {"services": ("NOT-INHERITED-DIAG-COMMS", "NOT-INHERITED-DIAG-COMM", "DIAG-COMM-SNREF"),
                 "gnrs": ("NOT-INHERITED-GLOBAL-NEG-RESPONSES", "NOT-INHERITED-GLOBAL-NEG-RESPONSE", "GLOBAL-NEG-RESPONSE-SNREF")}


def chain(desc):
    """the layers of a description, the layer under test first: [(layer short name, kind, local description)]"""
    ds, d = [], desc
    while d is not None and len(ds) < 3:
        ds.append(d)
        d = d.get("base")
    if len(ds) == 1:
        return [("bv", "BASE-VARIANT", desc)]
    return [(LAYER_NAMES[i], LAYER_KINDS[i], d) for i, d in enumerate(ds)]


def tested_layer(desc):
    return chain(desc)[0][0]


def _layer_xml(lname, kind, d, parent, with_dops, qualify):
    """one diagnostic layer; qualify: the IDs of services and global negative responses carry the layer name (an
    overriding object has the short name of the overridden one, IDs stay unique)"""
    q = (lambda n: f"{lname}.{n}") if qualify else (lambda n: n)
    reqs, pos, neg, svcs = [], [], [], []
    for s in d["services"]:
        reqs.append(_coding("REQUEST", s["req"]))
        pos += [_coding("POS-RESPONSE", c) for c in s["pos"] if not isinstance(c, str)]
        neg += [_coding("NEG-RESPONSE", c) for c in s["neg"] if not isinstance(c, str)]
        pr = "".join(f'<POS-RESPONSE-REF ID-REF="{_name(c)}"/>' for c in s["pos"])
        nr = "".join(f'<NEG-RESPONSE-REF ID-REF="{_name(c)}"/>' for c in s["neg"])
        svcs.append(f'<DIAG-SERVICE ID="{q(s["name"])}"><SHORT-NAME>{s["name"]}</SHORT-NAME>'
                    f'<REQUEST-REF ID-REF="{s["req"]["name"]}"/>'
                    + (f"<POS-RESPONSE-REFS>{pr}</POS-RESPONSE-REFS>" if pr else "")
                    + (f"<NEG-RESPONSE-REFS>{nr}</NEG-RESPONSE-REFS>" if nr else "") + "</DIAG-SERVICE>")
    gn = "".join(_coding("GLOBAL-NEG-RESPONSE", c, q(c["name"])) for c in d["gnrs"])
    ddds = ('<DIAG-DATA-DICTIONARY-SPEC><DATA-OBJECT-PROPS>' + _dop(8) + _dop(16) + _dop(24)
            + "".join(_dop(x["bl"], x) for x in (with_dops if isinstance(with_dops, list) else []))
            + '</DATA-OBJECT-PROPS></DIAG-DATA-DICTIONARY-SPEC>') if with_dops is not False else ""
    prefs = ""
    if parent is not None:
        pname, pkind = parent
        ni = ""
        for key, (outer, inner, snref) in NOT_INHERITED.items():
            names = d.get("not_inherited", {}).get(key, [])
            if names:
                ni += f"<{outer}>" + "".join(f'<{inner}><{snref} SHORT-NAME="{n}"/></{inner}>' for n in names) + f"</{outer}>"
        prefs = f'<PARENT-REFS><PARENT-REF ID-REF="{pname}" xsi:type="{pkind}-REF">{ni}</PARENT-REF></PARENT-REFS>'
    return (f'<{kind} ID="{lname}"><SHORT-NAME>{lname}</SHORT-NAME>{ddds}<DIAG-COMMS>{"".join(svcs)}</DIAG-COMMS>'
            f'<REQUESTS>{"".join(reqs)}</REQUESTS><POS-RESPONSES>{"".join(pos)}</POS-RESPONSES>'
            f'<NEG-RESPONSES>{"".join(neg)}</NEG-RESPONSES>'
            + (f'<GLOBAL-NEG-RESPONSES>{gn}</GLOBAL-NEG-RESPONSES>' if gn else "") + prefs + f'</{kind}>')


def _extra_dops(layers):
    """the data object properties beyond u8 / u16 / u24 which the PHYS-CONST / VALUE parameters of the description refer to"""
    out = {}
    for _, _, d in layers:
        for s in d["services"]:
            for c in [s["req"]] + s["pos"] + s["neg"]:
                if not isinstance(c, str):
                    for p in c["params"]:
                        if p["k"] in ("pc", "val") and _dop_id(p) not in ("u8", "u16", "u24"):
                            out[_dop_id(p)] = {k: p[k] for k in ("bl", "bo", "t") if k in p}
        for c in d["gnrs"]:
            for p in c["params"]:
                if p["k"] in ("pc", "val") and _dop_id(p) not in ("u8", "u16", "u24"):
                    out[_dop_id(p)] = {k: p[k] for k in ("bl", "bo", "t") if k in p}
    return [out[k] for k in sorted(out)]


def to_xml(desc):
    layers = chain(desc)
    flat = len(layers) == 1
    groups = {}
    for i, (lname, kind, d) in enumerate(layers):
        parent = (layers[i + 1][0], layers[i + 1][1]) if i + 1 < len(layers) else None
        groups[kind] = _layer_xml(lname, kind, d, parent, with_dops=_extra_dops(layers) if i == len(layers) - 1 else False,
                                  qualify=not flat)
    body = "".join(f"<{k}S>{groups[k]}</{k}S>" for k in ("FUNCTIONAL-GROUP", "BASE-VARIANT", "ECU-VARIANT") if k in groups)
    return (f'<?xml version="1.0"?><ODX MODEL-VERSION="2.2.0" {XSI}><DIAG-LAYER-CONTAINER ID="c">'
            f'<SHORT-NAME>c</SHORT-NAME>{body}</DIAG-LAYER-CONTAINER></ODX>')


def load_db(desc):
    from odxtools.database import Database
    logging.getLogger("odxtools").setLevel(logging.CRITICAL)
    db = Database()
    db._process_xml_tree(ET.fromstring(to_xml(desc)))
    db.refresh()
    return db


def load_layer(desc):
    """the description, loaded through the real parser; returns the DiagLayer under test"""
    return load_db(desc).diag_layers[tested_layer(desc)]


# ---------------------------------------------------------------- generator
def const_bytes(p, v=None):
    """the bytes an integer of p's coding (bit length, byte order, two's complement for A_INT32) occupies on the wire, written
    down from the description (whole bytes; default value: the constant's)"""
    n = p["bl"] // 8
    v = (p["v"] if v is None else v) % (1 << p["bl"])
    return v.to_bytes(n, "little" if p.get("bo") == "lh" else "big")


def layout(params, req_bytes=b"", rng=None, nrc_pick=0, stop=None):
    """(bytes, mask) of the PDU the parameters describe, written down directly from the description (independent of the
    encoder): every parameter starts at its BYTE-POSITION if it has one, else behind the preceding parameter; constants, echoed
    request bytes, values (random / zero), one of the NRC values; mask: the bits which were written.
    stop(p) → True ends the layout before parameter p (constant prefixes)."""
    buf, mask, cur = bytearray(), bytearray(), 0
    for p in params:
        if stop is not None and stop(p):
            break
        k = p["k"]
        pos, bit = p.get("bp", cur), p.get("bit", 0)
        if k == "mr":
            seg = bytes(req_bytes[p["pos"]:p["pos"] + p["len"]])
            data, m = seg + bytes(p["len"] - len(seg)), b"\xff" * p["len"]
        elif p["bl"] % 8 or bit:                                       # inside one byte (bit + bl <= 8)
            v = p["v"] if k in ("cc", "pc") else (rng.getrandbits(p["bl"]) if rng and k == "val" else 0)
            data, m = bytes([(v % (1 << p["bl"])) << bit]), bytes([((1 << p["bl"]) - 1) << bit])
        else:
            n = p["bl"] // 8
            if k in ("cc", "pc"):
                data = const_bytes(p)
            elif k == "val":
                data = bytes(rng.getrandbits(8) for _ in range(n)) if rng else bytes(n)
            elif k == "nrc":
                data = const_bytes(p, p["vals"][nrc_pick % len(p["vals"])])
            else:
                data = bytes(n)
            m = b"\xff" * n
        if len(buf) < pos + len(data):
            buf += bytes(pos + len(data) - len(buf))
            mask += bytes(len(buf) - len(mask))
        for i, (b, mb) in enumerate(zip(data, m)):
            buf[pos + i] |= b
            mask[pos + i] |= mb
        cur = pos + len(data)
    return bytes(buf), bytes(mask)


def plain_bytes(c, req_bytes=b"", rng=None, nrc_pick=0):
    """an encoding of coding object `c` written down directly from the description (independent of the encoder)"""
    return layout(c["params"], req_bytes, rng, nrc_pick)[0]


def desc_prefix(params, req_prefix=b""):
    """the constant prefix of a coding object, read off the description alone: the leading bytes which are completely
    determined by the leading run of CODED-CONST / PHYS-CONST parameters (and of MATCHING-REQUEST-PARAMs which echo bytes lying
    inside the constant prefix of the request) — whatever their byte order, base type, listing order and positions"""
    stop = lambda p: not (p["k"] in ("cc", "pc") or (p["k"] == "mr" and p["pos"] + p["len"] <= len(req_prefix)))
    buf, mask = layout(params, req_prefix, stop=stop)
    n = 0
    while n < len(buf) and mask[n] == 0xFF:
        n += 1
    return buf[:n]


def const_run(params):
    """bytes of the leading cc/pc run of a description"""
    stop = lambda p: p["k"] not in ("cc", "pc")
    return layout(params, stop=stop)[0]


SIDS = [0x22, 0x2E, 0x31, 0x10, 0x19]
SUBS = [0x01, 0x02, 0xF1, 0x22, 0x00]


def _consts(rng, bs, phys_ok=True):
    """constant parameters producing the byte string bs: 8/16/24/32 bit pieces, some as PHYS-CONST, in either byte order
    (IS-HIGHLOW-BYTE-ORDER absent / "true" / "false"), unsigned or two's complement (A_INT32; negative when the most
    significant byte has its top bit set)"""
    out, i = [], 0
    while i < len(bs):
        n = min(len(bs) - i, rng.choice([1, 1, 1, 2, 2, 3, 4]))
        kind = "pc" if phys_ok and rng.random() < 0.15 else "cc"
        p = {"k": kind, "bl": 8 * n}
        r = rng.random()
        if r < (0.4 if n > 1 else 0.1):
            p["bo"] = "lh"
        elif r > 0.85:
            p["bo"] = "hl"
        signed = rng.random() < 0.15
        if signed:
            p["t"] = "i"
        p["v"] = int.from_bytes(bs[i:i + n], "little" if p.get("bo") == "lh" else "big", signed=signed)
        out.append(p)
        i += n
    return out


def _tail(rng, maxn=3):
    out = []
    for _ in range(rng.choice([0, 1, 1, 2, maxn])):
        r = rng.random()
        if r < 0.7:
            out.append({"k": "val", "bl": rng.choice([8, 8, 16, 24])})
        elif r < 0.85:
            out.append({"k": "res", "bl": 8})
        else:
            out.append({"k": "cc", "v": rng.choice(SUBS), "bl": 8})   # a constant *after* the prefix
    return out


def gen_layer(rng, tag="", nsvc=None, ngnr=None, seed_prefixes=()):
    """1-5 services with shared / nested / empty / distinct constant prefixes, requests of differing
    lengths, responses with MATCHING-REQUEST-PARAM and NRC-CONST alternatives, 0-2 global negative responses.
    tag: prefix of all names (layers of one hierarchy); nsvc / ngnr: numbers of services / global negative responses;
    seed_prefixes: request prefixes of the inherited services (to be shared / nested by the local ones)"""
    if nsvc is None:
        nsvc = rng.choice([1, 2, 2, 3, 3, 4, 5])
    prefixes = list(seed_prefixes)          # request prefixes chosen so far
    services, cid = [], [0]
    shared_pos = None

    def coding(kind, params):
        cid[0] += 1
        return {"name": f"{tag}{kind}{cid[0]}", "params": params}

    for si in range(nsvc):
        r = rng.random()
        if prefixes and r < 0.25:
            pre = rng.choice(prefixes)                                  # shared
        elif prefixes and r < 0.5:
            base = rng.choice(prefixes)                                 # nested: extend or shorten
            pre = base + bytes([rng.choice(SUBS)]) if rng.random() < 0.6 or len(base) < 2 else base[:-1]
        elif r < 0.54:
            pre = b""                                                   # empty
        else:
            pre = bytes([rng.choice(SIDS)]) + bytes(rng.choice(SUBS) for _ in range(rng.choice([0, 0, 1, 1, 2])))
        pre = pre[:4]
        prefixes.append(pre)
        rparams = _consts(rng, pre)
        tail = _tail(rng)
        if not pre and not tail:
            tail = [{"k": "val", "bl": 8}]
        if pre and tail and tail[0]["k"] == "cc":
            tail[0] = {"k": "val", "bl": 8}
        if not pre and tail[0]["k"] == "cc":
            tail[0] = {"k": "val", "bl": 8}
        rparams += tail
        if rng.random() < 0.04:                                         # (nonsensical) echo inside a request
            rparams.insert(min(len(rparams), 1), {"k": "mr", "pos": 0, "len": rng.choice([0, 1])})
        req = coding("rq", rparams)
        rlen = len(plain_bytes(req))
        sid = (pre[0] + 0x40) & 0xFF if pre else 0x50

        def pos_resp():
            ps = []
            if rng.random() < 0.97:
                ps += [{"k": "pc" if rng.random() < 0.1 else "cc", "v": sid, "bl": 8}]
            rr = rng.random()
            if rr < 0.5 and rlen > 1:
                p0 = rng.choice([1, 1, 1, 0, 2])
                ln = rng.choice([1, 1, 2, 2, 3])
                ps.append({"k": "mr", "pos": p0, "len": ln})            # may lie inside, straddle or exceed the prefix
            elif rr < 0.65 and len(pre) > 1:
                ps += _consts(rng, pre[1:2], phys_ok=False)
            ps += _tail(rng, 2)
            return coding("pr", ps)

        def neg_resp(vals):
            ps = [{"k": "cc", "v": 0x7F, "bl": 8}]
            if rng.random() < 0.8:
                ps.append({"k": "mr", "pos": 0, "len": 1})
            else:
                ps.append({"k": "val", "bl": 8})
            if rng.random() < 0.12:        # 16 bit alternatives, least significant byte first: 0x1031 is `31 10` on the wire
                ps.append({"k": "nrc", "vals": [0x1000 | v if j % 2 else v << 8 | 0x10 for j, v in enumerate(vals)], "bl": 16, "bo": "lh"})
            else:
                ps.append({"k": "nrc", "vals": vals, "bl": 8})
            if rng.random() < 0.2:
                ps.append({"k": "val", "bl": 8})
            return coding("nr", ps)

        pos = [pos_resp() for _ in range(rng.choice([0, 1, 1, 1, 2]))]
        if shared_pos is not None and rng.random() < 0.08:
            pos.append(shared_pos)                                       # a response shared by two services
        elif pos and shared_pos is None and rng.random() < 0.3:
            shared_pos = _name(pos[0])
        if pos and rng.random() < 0.03:
            pos.append(_name(pos[0]))                                    # the same response referenced twice
        neg = []
        r = rng.random()
        if r < 0.35:
            neg = [neg_resp(rng.sample([0x10, 0x11, 0x12, 0x13, 0x22, 0x31], rng.choice([1, 2, 3])))]
        elif r < 0.55:                                                   # NRC-CONST alternatives
            vs = rng.sample([0x10, 0x11, 0x12, 0x13, 0x22, 0x31], 6)
            neg = [neg_resp(vs[:2]), neg_resp(vs[2:4] if rng.random() < 0.8 else vs[1:3])]
            if rng.random() < 0.3:                                       # a third alternative (disjoint / overlapping)
                neg.append(neg_resp(vs[4:] if rng.random() < 0.8 else vs[3:5]))
        services.append({"name": f"{tag}S{si}", "req": req, "pos": pos, "neg": neg})
    gnrs = []
    for _ in range(rng.choice([0, 0, 1, 1, 2]) if ngnr is None else ngnr):
        r = rng.random()
        ps = [{"k": "cc", "v": 0x7F, "bl": 8}]
        if r < 0.55:
            ps += [{"k": "mr", "pos": 0, "len": 1}, {"k": "val", "bl": 8}]
        elif r < 0.7:
            ps += [{"k": "mr", "pos": 0, "len": rng.choice([1, 2])}, {"k": "nrc", "vals": [0x10, 0x11, 0x78], "bl": 8}]
        elif r < 0.85:
            ps += [{"k": "val", "bl": 8}, {"k": "val", "bl": 8}]        # no matching-request parameter
        elif r < 0.89:
            ps = [{"k": "val", "bl": 8}, {"k": "val", "bl": 8}]         # empty prefix
        else:
            ps += [{"k": "mr", "pos": 0, "len": 1}, {"k": "val", "bl": 16}, {"k": "val", "bl": 8}]   # a long one
        gnrs.append(coding("gn", ps))
    return {"services": services, "gnrs": gnrs}


def gen_hier_layer(rng):
    """an ECU variant under a base variant (25 %: under a base variant under a functional group).  Every layer has
    services and global negative responses of its own (generated like a flat layer, request prefixes shared / nested with
    the inherited ones); a local service / global negative response may take the short name of an inherited one
    (override); every PARENT-REF excludes some of the inherited global negative responses and services.  The two exclusion
    lists are independent of each other and also contain names of the other kind and unknown names."""
    depth = 3 if rng.random() < 0.25 else 2
    desc = None
    for lv in range(depth - 1, -1, -1):          # the root of the hierarchy first
        tag = "EBF"[lv]
        if desc is None:
            d = gen_layer(rng, tag=tag, nsvc=rng.choice([1, 2, 2, 3, 3]), ngnr=rng.choice([1, 1, 2, 2, 3]))
        else:
            inh = effective(desc)
            inh_s, inh_g = [x["name"] for x in inh["services"]], [x["name"] for x in inh["gnrs"]]
            d = gen_layer(rng, tag=tag, nsvc=rng.choice([0, 1, 1, 2]), ngnr=rng.choice([0, 0, 1, 1]),
                          seed_prefixes=[const_run(x["req"]["params"])[:4] for x in inh["services"]])
            free = list(inh_s)
            for x in d["services"]:                # override an inherited service
                if free and rng.random() < 0.3:
                    x["name"] = free.pop(rng.randrange(len(free)))
            free = list(inh_g)
            for x in d["gnrs"]:                    # override an inherited global negative response
                if free and rng.random() < 0.4:
                    x["name"] = free.pop(rng.randrange(len(free)))
            ni_g = [n for n in inh_g if rng.random() < 0.45]
            ni_s = [n for n in inh_s if rng.random() < 0.2]
            if inh_s and rng.random() < 0.25:
                ni_g.append(rng.choice(inh_s))     # a service name among the excluded global negative responses
            if inh_g and rng.random() < 0.25:
                ni_s.append(rng.choice(inh_g))     # and the other way round
            if rng.random() < 0.15:
                ni_g.append("nobody")
            if rng.random() < 0.1:
                ni_s.append("nothing")
            rng.shuffle(ni_g)
            d["base"] = desc
            d["not_inherited"] = {"services": ni_s, "gnrs": ni_g}
        desc = d
    return desc


# ---------------------------------------------------------------- enumerated small-scope families
def _spell(wire, kind="cc", bo=None, t=None, **pos):
    """the constant parameter of the given coding whose wire bytes are `wire`"""
    p = {"k": kind, "bl": 8 * len(wire)}
    if bo:
        p["bo"] = bo
    if t:
        p["t"] = t
    p["v"] = int.from_bytes(wire, "little" if bo == "lh" else "big", signed=(t == "i"))
    p.update(pos)
    return p


def _enum_service(name, lead, wire, style=None, tail_bp=None):
    """a service whose request starts with the constant parameters `lead` (wire bytes `wire`) followed by one VALUE byte; a
    positive response `wire[0]+0x40 wire[1:2] <echo of the value> value` whose leading constant is spelled in the same coding
    (`style`) as the request's, and a negative response `7F <echo of the first request byte> NRC`"""
    val = {"k": "val", "bl": 8}
    if tail_bp is not None:
        val["bp"] = tail_bp
    rwire = bytes([(wire[0] + 0x40) & 0xFF]) + wire[1:2]
    st = style or {}
    return {"name": name, "req": {"name": "rq" + name, "params": lead + [val]},
            "pos": [{"name": "pr" + name, "params": [_spell(rwire, st.get("k", "cc"), st.get("bo"), st.get("t")),
                                                     {"k": "mr", "pos": len(wire), "len": 1}, {"k": "val", "bl": 8}]}],
            "neg": [{"name": "nr" + name, "params": [{"k": "cc", "v": 0x7F, "bl": 8}, {"k": "mr", "pos": 0, "len": 1},
                                                     {"k": "nrc", "vals": [0x11, 0x31], "bl": 8}]}]}


ENUM_GNR = {"name": "gn", "params": [{"k": "cc", "v": 0x7F, "bl": 8}, {"k": "mr", "pos": 0, "len": 1}, {"k": "val", "bl": 8}]}


def enum_leading_constant(big, rng):
    """family `enum-leading-constant` (inside the model's envelope): EVERY coding of the constant a request starts with —
    length 8/16/24/32 bit x CODED-CONST / PHYS-CONST x byte order absent / "true" / "false" x A_UINT32 / A_INT32 x byte
    patterns (ascending distinct bytes, top bit in the first / in the last wire byte, all bytes equal), the 16 bit ones also with
    BYTE-POSITION / BIT-POSITION spelled out as 0 — followed by nothing / a 16 bit constant in the other byte order (thorough: /
    an 8 bit constant / a 16 bit PHYS-CONST low-high / a 24 bit constant low-high).  The requests are distributed over
    layers of five services (shuffled, so that different codings of the same wire prefix meet in one layer), each layer with
    a global negative response.  → [(description, {service name: (wire prefix, length of the first constant)})]"""
    reqs = []
    for n in (1, 2, 3, 4):
        asc = bytes([0x22, 0x01, 0xF1, 0x03][:n])
        pats = {asc, bytes([0xA2]) + asc[1:], asc[:-1] + bytes([asc[-1] | 0x80])}
        if n > 1:
            pats.add(bytes([0x2E] * n))
        for wire in sorted(pats):
            for kind in ("cc", "pc"):
                for bo in (None, "hl", "lh"):
                    for t in (None, "i"):
                        poss = [{}]
                        if n == 2 and kind == "cc" and t is None:
                            poss += [{"bp": 0}, {"bit": 0}, {"bp": 0, "bit": 0}]
                        for pos in poss:
                            seconds = [None, b"\x05", b"\x05\x06"] + ([b"\x07\x08", b"\x05\x06\x09"] if big else [])
                            if not big:
                                del seconds[1]
                            for j, sec in enumerate(seconds):
                                lead = [_spell(wire, kind, bo, t, **pos)]
                                w = wire
                                if sec is not None:
                                    lead.append(_spell(sec, "pc" if sec == b"\x07\x08" else "cc",
                                                       "lh" if (bo != "lh" or len(sec) > 2 or sec == b"\x07\x08") and len(sec) > 1 else None))
                                    w = wire + sec
                                reqs.append((lead, w, {"k": kind, "bo": bo, "t": t}, n))
    rng.shuffle(reqs)
    out = []
    for i in range(0, len(reqs), 5):
        svcs, meta = [], {}
        for j, (lead, w, st, n) in enumerate(reqs[i:i + 5]):
            name = f"E{i + j}"
            svcs.append(_enum_service(name, lead, w, st))
            meta[name] = (w, n)
        out.append(({"services": svcs, "gnrs": [ENUM_GNR]}, meta))
    return out


def enum_positioned_constant(big, rng):
    """family `enum-positioned-constant` (OUTSIDE the model's envelope; description-level oracles only): the first byte(s)
    of a request assembled from constants with BIT-POSITION / BYTE-POSITION in every listing order —
      * the first byte as two nibbles (CODED-CONST / PHYS-CONST each) and as 3 + 4 + 1 bits, every listing order;
      * a constant nibble next to a VALUE nibble (the first byte is NOT constant: no constant prefix, group None), both ways;
      * whole-byte constants at explicit BYTE-POSITIONs: `22 F1` listed in wire order and reversed, positions explicit or
        implicit, 16 bit constants of either byte order at BYTE-POSITION 0 behind / before an 8 bit one, a constant behind a
        gap which a later VALUE fills (only the bytes before the gap are the constant prefix).
    Each layer: three such services + two plain ones sharing the first byte / differing in it.
    → [(description, {service name: (wire prefix of the leading constants, 0)})]"""
    import itertools
    reqs = []        # (leading + tail parameters, wire bytes of one encoding's constant part)
    hi = lambda k: {"k": k, "v": 2, "bl": 4, "bit": 4, "bp": 0}
    lo = lambda k, v=2: {"k": k, "v": v, "bl": 4, "bit": 0, "bp": 0}
    for k1 in ("cc", "pc"):
        for k2 in ("cc", "pc"):
            for order in (0, 1):
                a, b = hi(k1), lo(k2)
                lead = [a, b] if order == 0 else [b, a]
                lead = [dict(lead[0]), dict(lead[1])]
                if rng.random() < 0.5:
                    del lead[0]["bp"]                       # the first listed parameter needs no BYTE-POSITION
                reqs.append((lead + [{"k": "cc", "v": 0xF1, "bl": 8, "bp": 1}, {"k": "val", "bl": 8, "bp": 2}], b"\x22\xf1"))
    three = [{"k": "cc", "v": 1, "bl": 3, "bit": 5, "bp": 0}, {"k": "cc", "v": 1, "bl": 4, "bit": 1, "bp": 0},
             {"k": "cc", "v": 0, "bl": 1, "bit": 0, "bp": 0}]             # 001 0001 0 = 0x22
    for perm in itertools.permutations(three):
        reqs.append(([dict(x) for x in perm] + [{"k": "val", "bl": 8, "bp": 1}], b"\x22"))
    for k in ("cc", "pc"):                                               # half of the first byte is a VALUE
        reqs.append(([hi(k), {"k": "val", "bl": 4, "bit": 0, "bp": 0}, {"k": "cc", "v": 0xF1, "bl": 8, "bp": 1}], b""))
        reqs.append(([lo(k), {"k": "val", "bl": 4, "bit": 4, "bp": 0}, {"k": "cc", "v": 0xF1, "bl": 8, "bp": 1}], b""))
    c22, cf1 = {"k": "cc", "v": 0x22, "bl": 8}, {"k": "cc", "v": 0xF1, "bl": 8}
    for k in ("cc", "pc"):
        a, b = dict(c22, k=k), dict(cf1)
        reqs.append(([dict(a, bp=0), dict(b, bp=1), {"k": "val", "bl": 8, "bp": 2}], b"\x22\xf1"))
        reqs.append(([dict(b, bp=1), dict(a, bp=0), {"k": "val", "bl": 8, "bp": 2}], b"\x22\xf1"))
        reqs.append(([dict(a), dict(b, bp=1), {"k": "val", "bl": 8}], b"\x22\xf1"))
        reqs.append(([dict(b, bp=1), dict(a, bp=0), {"k": "val", "bl": 8, "bp": 2}, {"k": "val", "bl": 8}], b"\x22\xf1"))
        # a gap behind the first byte which a later VALUE fills: the prefix ends in front of the gap
        reqs.append(([dict(a), dict(b, bp=2), {"k": "val", "bl": 8, "bp": 1}], b"\x22"))
        reqs.append(([dict(b, bp=2), dict(a, bp=0), {"k": "val", "bl": 8, "bp": 1}], b"\x22"))
        for bo in (None, "lh"):
            w16 = _spell(b"\xf1\x02", k, bo)
            reqs.append(([dict(w16, bp=1), dict(c22, bp=0), {"k": "val", "bl": 8, "bp": 3}], b"\x22\xf1\x02"))
            w16 = _spell(b"\x22\xf1", k, bo)
            reqs.append(([dict(cf1, v=2, bp=2), dict(w16, bp=0), {"k": "val", "bl": 8, "bp": 3}], b"\x22\xf1\x02"))
            reqs.append(([dict(w16, bp=0, bit=0), dict(cf1, v=2), {"k": "val", "bl": 8}], b"\x22\xf1\x02"))
    rng.shuffle(reqs)
    out = []
    for i in range(0, len(reqs), 3):
        svcs, meta = [], {}
        for j, (params, w) in enumerate(reqs[i:i + 3]):
            name = f"P{i + j}"
            sv = _enum_service(name, [], w or b"\x22\xf1")
            sv["req"]["params"] = params
            n = len(plain_bytes(sv["req"]))
            sv["pos"][0]["params"][1] = {"k": "mr", "pos": n - 1, "len": 1}
            svcs.append(sv)
            meta[name] = (w, 0)
        svcs.append(_enum_service(f"Q{i}a", [_spell(b"\x22"), _spell(b"\x02")], b"\x22\x02"))
        svcs.append(_enum_service(f"Q{i}b", [_spell(b"\x23\xf1", bo="lh")], b"\x23\xf1"))
        meta[f"Q{i}a"], meta[f"Q{i}b"] = (b"\x22\x02", 0), (b"\x23\xf1", 0)
        out.append(({"services": svcs, "gnrs": [ENUM_GNR]}, meta))
    return out


def enum_cases(desc, view, rng):
    """the messages of an enumerated layer: per service its request written down from the description and through the real
    encoder, the request with the bytes of its leading constants reversed / rotated / first byte exchanged for each of the other
    prefix bytes (what a wrong byte order, a wrong listing order, a wrong nibble would expect), truncations; its responses as
    answers to it and to the reversed request.  Same tuple format as the corpus cases."""
    cases, seen = [], set()

    def add(op, m, rq, tag, exp):
        key = (op, bytes(m), None if rq is None else bytes(rq))
        if key not in seen and len(m) <= 12:
            seen.add(key)
            cases.append((op, bytes(m), None if rq is None else bytes(rq), tag, exp))

    by_name = {s.short_name: s for s in view.services}
    for sd in desc["services"]:
        s = by_name[sd["name"]]
        sn, rcn = view.sno[id(s)], view.cno[id(s.request)]
        rq = plain_bytes(sd["req"], rng=rng)
        add("decode", rq, None, "own-request", [(sn, rcn)])
        try:
            vals = {f"p{i}": rng.getrandbits(p["bl"]) for i, p in enumerate(sd["req"]["params"]) if p["k"] == "val"}
            add("decode", bytes(s.request.encode(**vals)), None, "own-request", [(sn, rcn)])
        except Exception:
            pass
        pre = desc_prefix(sd["req"]["params"]) or rq[:2]
        n = len(pre)
        alts = {pre[::-1] + rq[n:], pre[1:] + pre[:1] + rq[n:], rq[:1], rq[:n],
                bytes([(rq[0] & 0xF0) >> 4 | (rq[0] & 0x0F) << 4]) + rq[1:]}
        for b in set(pre[1:]):
            alts.add(bytes([b]) + rq[1:])
        for m in sorted(alts):
            add("decode", m, None, "mutated", None)
        for rd, ro in zip(sd["pos"] + sd["neg"], list(s.positive_responses) + list(s.negative_responses)):
            for j in range(2 if any(p["k"] == "nrc" for p in rd["params"]) else 1):
                e = plain_bytes(rd, rq, rng, nrc_pick=j)
                add("decode", e, None, "own-response", [(sn, view.cno[id(ro)])])
                add("response", e, rq, "pair", (sn, view.cno[id(ro)]))
                add("response", e, pre[::-1] + rq[n:], "pair", None)
        for gd in desc["gnrs"]:
            add("response", plain_bytes(gd, rq, rng), rq, "pair", None)
    return cases


def _inherit(inherited, excluded, local):
    """value inheritance for one kind of object, entries (owner layer, description): the inherited objects whose short name
    is not excluded, in their order, each replaced by the local object of the same short name if there is one, followed by
    the other local objects"""
    out = [x for x in inherited if x[1]["name"] not in excluded]
    names = [x[1]["name"] for x in out]
    for x in local:
        if x[1]["name"] in names:
            out[names.index(x[1]["name"])] = x
        else:
            out.append(x)
            names.append(x[1]["name"])
    return out


def effective_owned(desc):
    """→ ([(owner layer, service description)], [(owner layer, GNR description)]) applicable to the layer under test, read
    off the description alone (ISO 22901-1 value inheritance along a chain of layers: everything of the parent that its
    PARENT-REF does not exclude is inherited, local objects override inherited ones of the same short name)"""
    svcs, gnrs = [], []
    for lname, _, d in reversed(chain(desc)):
        ni = d.get("not_inherited", {})
        svcs = _inherit(svcs, set(ni.get("services", [])), [(lname, x) for x in d["services"]])
        gnrs = _inherit(gnrs, set(ni.get("gnrs", [])), [(lname, x) for x in d["gnrs"]])
    return svcs, gnrs


def effective(desc):
    """the flat description of the layer under test: applicable services and global negative responses; `ghost_services` /
    `ghost_gnrs`: the excluded and overridden ones (they must not play any role); `all`: the complete description"""
    if "base" not in desc:
        return desc
    svcs, gnrs = effective_owned(desc)
    es, eg = {(o, x["name"]) for o, x in svcs}, {(o, x["name"]) for o, x in gnrs}
    return {"services": [x for _, x in svcs], "gnrs": [x for _, x in gnrs],
            "ghost_services": [x for l, _, d in chain(desc) for x in d["services"] if (l, x["name"]) not in es],
            "ghost_gnrs": [x for l, _, d in chain(desc) for x in d["gnrs"] if (l, x["name"]) not in eg],
            "all": desc}


def resolve(desc, c):
    """a response given by name (shared / referenced twice) → its description"""
    if not isinstance(c, str):
        return c
    for _, _, d in chain(desc.get("all", desc)):
        for s in d["services"]:
            for x in s["pos"] + s["neg"]:
                if not isinstance(x, str) and x["name"] == c:
                    return x
    raise KeyError(c)


def desc_codings(desc):
    """short name → description of every coding object of the layer (all layers of a hierarchy; the short names of
    requests and responses are unique, those of global negative responses are not: see View.cdesc)"""
    out = {}
    for _, _, d in chain(desc.get("all", desc)):
        for s in d["services"]:
            for c in [s["req"]] + s["pos"] + s["neg"]:
                if not isinstance(c, str):
                    out[c["name"]] = c
        for c in d["gnrs"]:
            out.setdefault(c["name"], c)
    return out


def desc_verdict(c, msg, strict):
    """What decoding `msg` with the single coding object `c` has to do, read off the *description* alone
    (independent of the implementation and of the Lean model): None = the parameters match, else the reason of
    the first parameter which does not:
      'too-short'   the parameter lies (partly) behind the end of the message            (both modes)
      'nrc-const'   the byte(s) of an NRC-CONST are not one of its alternatives         (both modes)
      'phys-const'  a PHYS-CONST has a different value                                   (strict mode only: the
                    library reports this through odxraise, i.e. it is tolerated in non-strict mode just as a
                    CODED-CONST mismatch is only a warning in both modes; the leading constants are what the
                    constant-prefix filters of the dispatcher look at)
    A parameter starts at its BYTE-POSITION if it has one, else behind the preceding one; integers have the byte order of their
    coding (`const_bytes`)."""
    comp = _VERDICT_CACHE.get(id(c))
    if comp is None or comp[0] is not c:
        comp = (c, _compile_verdict(c))
        _VERDICT_CACHE[id(c)] = comp          # (keeps c alive, so its id is not reused)
    cur, end = 0, len(msg)
    for k, bp, n, sub, want in comp[1]:
        pos = cur if bp is None else bp
        if pos + n > end:
            return "too-short"
        if want is not None:
            got = bytes(msg[pos:pos + n]) if sub is None else (msg[pos] >> sub[0]) & sub[1]
            if got not in want:
                if k == "nrc":
                    return "nrc-const"
                if strict:
                    return "phys-const"
        cur = pos + n
    return None


_VERDICT_CACHE = {}


def _compile_verdict(c):
    """per parameter which occupies bytes: (kind, BYTE-POSITION | None, number of bytes, (bit position, value mask) | None for
    whole bytes, the admissible wire values of an NRC-CONST / PHYS-CONST | None)"""
    out = []
    for p in c["params"]:
        k = p["k"]
        n = p["len"] if k == "mr" else (p["bl"] + p.get("bit", 0) + 7) // 8
        if n == 0:
            continue
        sub = (p.get("bit", 0), (1 << p["bl"]) - 1) if k != "mr" and (p["bl"] % 8 or p.get("bit", 0)) else None
        want = None
        if k in ("nrc", "pc"):
            vals = p["vals"] if k == "nrc" else [p["v"]]
            want = {x % (1 << p["bl"]) for x in vals} if sub else {const_bytes(p, x) for x in vals}
        out.append((k, p.get("bp"), n, sub, want))
    return out


# ---------------------------------------------------------------- the loaded layer as seen by the model
class View:
    """numbering of services / coding objects of a loaded layer and their model description"""

    def __init__(self, layer, services=None, gnrs=None, ghost_services=(), ghost_gnrs=()):
        """services / gnrs: the objects that apply to the layer (default: what the layer itself says, flat layers);
        ghost_*: objects of the database which do NOT apply to it (excluded from inheritance or overridden) — they get
        numbers so that they can be named when the implementation reports them, the model never sees them"""
        from odxtools.parameters.codedconstparameter import CodedConstParameter
        from odxtools.parameters.matchingrequestparameter import MatchingRequestParameter
        from odxtools.parameters.physicalconstantparameter import PhysicalConstantParameter
        self._cc, self._pc, self._mr = CodedConstParameter, PhysicalConstantParameter, MatchingRequestParameter
        self.layer = layer
        self.services = list(layer.services) if services is None else list(services)
        self.gnrs = list(layer.global_negative_responses) if gnrs is None else list(gnrs)
        self.ghost_services, self.ghost_gnrs = list(ghost_services), list(ghost_gnrs)
        self.sno = {id(s): i + 1 for i, s in enumerate(self.services + self.ghost_services)}
        self.sname = {i + 1: s.short_name + ("" if i < len(self.services) else " (not applicable)")
                      for i, s in enumerate(self.services + self.ghost_services)}
        self.cno, self.cobj = {}, {}
        for s in self.services:
            for co in ([s.request] if s.request is not None else []) + list(s.positive_responses) + list(s.negative_responses):
                self._reg(co)
        for g in self.gnrs:
            self._reg(g)
        for s in self.ghost_services:
            for co in ([s.request] if s.request is not None else []) + list(s.positive_responses) + list(s.negative_responses):
                self._reg(co)
        for g in self.ghost_gnrs:
            self._reg(g)
        self._dpre = {}
        self.cbytes = {}          # coding number → per parameter: the bytes a constant encodes to on its own | None
        self.pdesc = {n: self._params(co, n) for n, co in self.cobj.items()}

    def _reg(self, co):
        if id(co) not in self.cno:
            n = len(self.cno) + 1
            self.cno[id(co)] = n
            self.cobj[n] = co

    def _params(self, co, n=None):
        from odxtools.encodestate import EncodeState
        out, cb = [], []
        for p in co.parameters:
            cb.append(None)
            if isinstance(p, (self._cc, self._pc)):
                # the bytes this parameter encodes to on its own (an input of the model)
                try:
                    st = EncodeState(coded_message=bytearray(), triggering_request=b"")
                    p.encode_into_pdu(physical_value=None, encode_state=st)
                    out.append(f"(c {bytes(st.coded_message).hex() or '-'})")
                    cb[-1] = bytes(st.coded_message)
                except Exception as e:
                    out.append("(o)")
                    cb[-1] = "foreign:" + type(e).__name__
            elif isinstance(p, self._mr):
                out.append(f"(m {p.request_byte_position} {p.byte_length})")
            else:
                out.append("(o)")
        if n is not None:
            self.cbytes[n] = cb
        return " ".join(out)

    def dprefix(self, s, n):
        """constant prefix of coding object n used for service s (None for its request prefix), read off the description (cached)"""
        key = (id(s), n)
        if key not in self._dpre:
            rq = self.cno.get(id(s.request)) if s is not None and s.request is not None else None
            if n is None:
                self._dpre[key] = desc_prefix(self.cdesc[rq]["params"]) if rq is not None else b""
            else:
                self._dpre[key] = desc_prefix(self.cdesc[n]["params"], self.dprefix(s, None))
        return self._dpre[key]

    def kind(self, n):
        co = self.cobj.get(n)
        if co is None:
            return "unknown"
        if any(co is g for g in self.gnrs):
            return "gnr"
        if any(co is g for g in self.ghost_gnrs):
            return "gnr-not-applicable"
        return "own"

    def is_request(self, n):
        return any(s.request is self.cobj[n] for s in self.services)

    def coding_sexp(self, n, outcome):
        return f"(co {n} {outcome} {self.pdesc[n]})"

    def layer_sexp(self, outcomes):
        """outcomes: coding number → ok|mismatch|error|foreign"""
        def cs(cos):
            return " ".join(self.coding_sexp(self.cno[id(c)], outcomes.get(self.cno[id(c)], "foreign")) for c in cos)
        svcs = []
        for s in self.services:
            rq = cs([s.request]) if s.request is not None else ""
            svcs.append(f"(svc {self.sno[id(s)]} (req {rq}) (pos {cs(s.positive_responses)}) (neg {cs(s.negative_responses)}))")
        return f"(layer (gnrs {cs(self.gnrs)}) {' '.join(svcs)})"


def make_view(desc):
    """the description loaded through the real parser, as seen by the model.  Flat layer: services and global negative
    responses as the layer lists them.  Layer with parents: the services and global negative responses which apply to it
    according to the DESCRIPTION (`effective_owned`), looked up among the locally defined objects of the layers of the
    database — what the implementation thinks the layer inherits is not consulted (`impl_contents` compares it)."""
    if "base" not in desc:
        v = View(load_layer(desc))
        dc = desc_codings(desc)
        v.eff = desc
        v.cdesc = {n: dc[co.short_name] for n, co in v.cobj.items() if getattr(co, "short_name", None) in dc}
        v.expected = None
        return v
    db = load_db(desc)
    pool_s, pool_g, by_obj = {}, {}, {}
    for lname, _, d in chain(desc):
        raw = db.diag_layers[lname].diag_layer_raw
        for x in raw.diag_comms:
            pool_s[(lname, x.short_name)] = x
        for x in raw.global_negative_responses:
            pool_g[(lname, x.short_name)] = x
        for sd in d["services"]:
            s = pool_s[(lname, sd["name"])]
            by_obj[id(s.request)] = sd["req"]
            for ro, rd in zip(list(s.positive_responses) + list(s.negative_responses), sd["pos"] + sd["neg"]):
                by_obj[id(ro)] = resolve(desc, rd)
        for gd in d["gnrs"]:
            by_obj[id(pool_g[(lname, gd["name"])])] = gd
    svcs, gnrs = effective_owned(desc)
    es, eg = [pool_s[(o, x["name"])] for o, x in svcs], [pool_g[(o, x["name"])] for o, x in gnrs]
    v = View(db.diag_layers[tested_layer(desc)], es, eg,
             [x for x in pool_s.values() if not any(x is y for y in es)],
             [x for x in pool_g.values() if not any(x is y for y in eg)])
    v.eff = effective(desc)
    v.cdesc = {n: by_obj[id(co)] for n, co in v.cobj.items() if id(co) in by_obj}
    v.expected = (es, eg)
    return v


def positioned(desc):
    """does a coding object of the description use a BYTE-POSITION / BIT-POSITION other than 0 or sub-byte parameters (outside
    the envelope of the Lean model: such layers are evaluated by the description-level oracles only)"""
    for _, _, d in chain(desc.get("all", desc)):
        for sd in d["services"]:
            for c in [sd["req"]] + sd["pos"] + sd["neg"] + d["gnrs"]:
                if not isinstance(c, str) and any(p.get("bp") or p.get("bit") or p.get("bl", 8) % 8 for p in c["params"]):
                    return True
    return False


def desc_reply(view, msg, walk, strict):
    """What the Lean driver answers for a decode line (Spec `attributed`, `Unambiguous`, `Found`), computed from the JSON
    description alone: constant prefixes by `desc_prefix`, "parameters match" by `desc_verdict`.  → dict(cands=[service no]
    (ascending, as a set), res=None, attr={service no: [(coding no, prefix hex | '-')]}, unamb=bool) | None if a coding
    object of the layer has no description"""
    attr, cands, unamb = {}, [], True
    gn = [view.cno[id(g)] for g in view.gnrs]
    for s in view.services:
        sn = view.sno[id(s)]
        own = [view.cno[id(co)] for co in ([s.request] if s.request is not None else [])
               + list(s.positive_responses) + list(s.negative_responses)]
        if any(n not in view.cdesc for n in own + gn):
            return None
        row, nown, found = [], 0, False
        for i, n in enumerate(own + gn):
            cd = view.cdesc[n]
            pre = view.dprefix(s, n)
            if pre and walk[:len(pre)] == pre:
                found = True
            if msg[:len(pre)] == pre and desc_verdict(cd, msg, strict) is None:
                row.append((n, pre.hex() or "-"))
                nown += i < len(own)
        if row:
            attr[sn] = row
        if found:
            cands.append(sn)
        unamb = unamb and nown <= 1
    return {"cands": cands, "res": None, "attr": attr, "unamb": unamb, "modelfree": True}


def impl_contents(view):
    """what the implementation says the layer contains against what applies to it according to the description:
    [(kind, 'extra'|'missing'|'order', short names)] (objects are compared by identity)"""
    out = []
    if view.expected is None:
        return out
    for kind, exp, got in (("service", view.expected[0], list(view.layer.services)),
                           ("gnr", view.expected[1], list(view.layer.global_negative_responses))):
        extra = [x.short_name for x in got if not any(x is y for y in exp)]
        missing = [x.short_name for x in exp if not any(x is y for y in got)]
        if extra:
            out.append((kind, "extra", extra))
        if missing:
            out.append((kind, "missing", missing))
        if not extra and not missing and [id(x) for x in exp] != [id(x) for x in got]:
            out.append((kind, "order", [x.short_name for x in got]))
    return out


def set_strict(flag):
    import odxtools.exceptions as ex
    old = ex.strict_mode
    ex.strict_mode = flag
    return old


def outcome(co, msg):
    """the oracle: what co.decode(msg) does (C01-C05 own what happens inside)"""
    from odxtools.exceptions import DecodeError, DecodeMismatch
    try:
        with warnings.catch_warnings():
            warnings.simplefilter("ignore")
            co.decode(msg)
        return "ok"
    except DecodeMismatch:
        return "mismatch"
    except DecodeError:
        return "error"
    except Exception:
        return "foreign"


def run_decode(view, msg, request=None):
    """DiagLayer.decode / decode_response → ('ok', [(service no, coding no | None)]) | ('err', class)"""
    from odxtools.exceptions import DecodeError
    try:
        with warnings.catch_warnings():
            warnings.simplefilter("ignore")
            ms = view.layer.decode(msg) if request is None else view.layer.decode_response(msg, request)
        out = []
        for m in ms:
            sn = view.sno.get(id(m.service), 0)
            cn = None if m.coding_object is None else view.cno.get(id(m.coding_object), 0)
            out.append((sn, cn))
        return ("ok", out)
    except DecodeError:
        return ("err", "decode")
    except Exception as e:
        return ("err", "foreign:" + type(e).__name__)


def run_candidates(view, msg):
    try:
        with warnings.catch_warnings():
            warnings.simplefilter("ignore")
            return [view.sno.get(id(s), 0) for s in view.layer._find_services_for_uds(msg)]
    except Exception as e:
        return "foreign:" + type(e).__name__


def run_prefixes(view):
    """coded_const_prefix of every coding object relative to every service, as the implementation computes it"""
    out = {}
    for s in view.services:
        try:
            rp = s.request.coded_const_prefix() if s.request is not None else b""
        except Exception as e:
            out[view.sno[id(s)]] = "foreign:" + type(e).__name__
            continue
        row = []
        cos = list(s.positive_responses) + list(s.negative_responses) + ([s.request] if s.request is not None else []) + view.gnrs
        for co in cos:
            try:
                row.append((view.cno[id(co)], bytes(co.coded_const_prefix(request_prefix=rp)).hex() or "-"))
            except Exception as e:
                row.append((view.cno[id(co)], "foreign:" + type(e).__name__))
        out[view.sno[id(s)]] = row
    return out


def run_groups(view):
    """ServiceBinner: the ordered dictionary and the __getitem__ view"""
    try:
        sg = view.layer.service_groups
        groups = [(k, [view.sno.get(id(s), 0) for s in v]) for k, v in sg._service_groups.items()]
        getitem = {}
        for k in [None] + list(range(256)):
            v = [view.sno.get(id(s), 0) for s in sg[k]]
            if v:
                getitem[k] = v
        return groups, getitem
    except Exception as e:
        return "foreign:" + type(e).__name__, {}


# ---------------------------------------------------------------- replies of the driver
def parse_sexp(s):
    out, stack, cur = None, [], None
    tok = s.replace("(", " ( ").replace(")", " ) ").split()
    for t in tok:
        if t == "(":
            new = []
            if cur is not None:
                cur.append(new)
                stack.append(cur)
            cur = new
        elif t == ")":
            if stack:
                cur = stack.pop()
            else:
                out = cur
                cur = None
        else:
            cur.append(t)
    return out


def field(xs, key):
    for x in xs:
        if isinstance(x, list) and x and x[0] == key:
            return x[1:]
    return None


def parse_decode_reply(line):
    """→ dict(cands=[…], res=('ok', [(s, c|None)]) | ('err', cls), attr={s: [(c, prefix)]}, unamb=bool)"""
    sx = parse_sexp(line)
    if not sx or sx[0] != "ok":
        return None
    res = field(sx[1:], "res")
    if res[0] == "ok":
        r = ("ok", [(int(a), None if b == "none" else int(b)) for a, b in res[1:]])
    else:
        r = ("err", res[1])
    attr = {int(x[0]): [(int(c), p) for c, p in x[1:]] for x in field(sx[1:], "attr")}
    return {"cands": [int(x) for x in field(sx[1:], "cands")], "res": r, "attr": attr,
            "unamb": field(sx[1:], "unamb") == ["t"]}


def parse_info_reply(line):
    sx = parse_sexp(line)
    if not sx or sx[0] != "ok":
        return None
    key = lambda k: None if k == "none" else int(k)
    return {"prefixes": {int(x[0]): [(int(c), p) for c, p in x[1:]] for x in field(sx[1:], "prefixes")},
            "groups": [(key(x[0]), [int(n) for n in x[1:]]) for x in field(sx[1:], "groups")],
            "sids": {int(a): key(b) for a, b in field(sx[1:], "sids")}}
