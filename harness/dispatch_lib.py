"""Dispatch family (property C06): service-set generator (ODX XML through the real loader), runner for
DiagLayer.decode / decode_response / service_groups, description + oracle lines for the Lean driver.

A layer description is plain JSON:
  {"services": [{"name", "req": CODING, "pos": [CODING | "ref-name"], "neg": [...]}], "gnrs": [CODING]}
  CODING = {"name", "params": [PARAM]}
  PARAM  = {"k": "cc"|"pc", "v": int, "bl": 8|16|24}      CODED-CONST / PHYS-CONST
         | {"k": "mr", "pos": int, "len": int}            MATCHING-REQUEST-PARAM
         | {"k": "val", "bl": 8|16|24}                    VALUE
         | {"k": "nrc", "vals": [int], "bl": 8}           NRC-CONST
         | {"k": "res", "bl": 8}                          RESERVED
All parameters are byte aligned and have no explicit position (envelope of the model: a constant parameter
contributes the bytes it encodes to on its own).

Layers with parents (value inheritance): a description may carry
  "base": DESCRIPTION (of the parent layer, which may have a "base" itself; at most three levels),
  "not_inherited": {"services": [short name], "gnrs": [short name]}      the exclusion lists of its PARENT-REF
The description itself is then the ECU-VARIANT `ev` (the layer under test), its base the BASE-VARIANT `bv`, the base of
that the FUNCTIONAL-GROUP `fg`.  A service / global negative response of a layer overrides the inherited one of the same
short name.  `effective` computes, from the description alone, which services and global negative responses apply."""
import logging
import warnings
from xml.etree import ElementTree as ET

XSI = 'xmlns:xsi="http://www.w3.org/2001/XMLSchema-instance"'


# ---------------------------------------------------------------- XML
def _dct(bl):
    return (f'<DIAG-CODED-TYPE BASE-DATA-TYPE="A_UINT32" xsi:type="STANDARD-LENGTH-TYPE">'
            f'<BIT-LENGTH>{bl}</BIT-LENGTH></DIAG-CODED-TYPE>')


def _dop(bl):
    return (f'<DATA-OBJECT-PROP ID="u{bl}"><SHORT-NAME>u{bl}</SHORT-NAME><COMPU-METHOD><CATEGORY>IDENTICAL</CATEGORY>'
            f'</COMPU-METHOD>{_dct(bl)}<PHYSICAL-TYPE BASE-DATA-TYPE="A_UINT32"/></DATA-OBJECT-PROP>')


def _param(i, p):
    n = f"p{i}"
    k = p["k"]
    if k == "cc":
        return (f'<PARAM xsi:type="CODED-CONST"><SHORT-NAME>{n}</SHORT-NAME><CODED-VALUE>{p["v"]}</CODED-VALUE>'
                f'{_dct(p["bl"])}</PARAM>')
    if k == "pc":
        return (f'<PARAM xsi:type="PHYS-CONST"><SHORT-NAME>{n}</SHORT-NAME><PHYS-CONSTANT-VALUE>{p["v"]}'
                f'</PHYS-CONSTANT-VALUE><DOP-REF ID-REF="u{p["bl"]}"/></PARAM>')
    if k == "mr":
        return (f'<PARAM xsi:type="MATCHING-REQUEST-PARAM"><SHORT-NAME>{n}</SHORT-NAME>'
                f'<REQUEST-BYTE-POS>{p["pos"]}</REQUEST-BYTE-POS><BYTE-LENGTH>{p["len"]}</BYTE-LENGTH></PARAM>')
    if k == "val":
        return f'<PARAM xsi:type="VALUE"><SHORT-NAME>{n}</SHORT-NAME><DOP-REF ID-REF="u{p["bl"]}"/></PARAM>'
    if k == "nrc":
        vs = "".join(f"<CODED-VALUE>{v}</CODED-VALUE>" for v in p["vals"])
        return (f'<PARAM xsi:type="NRC-CONST"><SHORT-NAME>{n}</SHORT-NAME><CODED-VALUES>{vs}</CODED-VALUES>'
                f'{_dct(p["bl"])}</PARAM>')
    if k == "res":
        return f'<PARAM xsi:type="RESERVED"><SHORT-NAME>{n}</SHORT-NAME><BIT-LENGTH>{p["bl"]}</BIT-LENGTH></PARAM>'
    raise ValueError(k)


def _coding(tag, c, oid=None):
    ps = "".join(_param(i, p) for i, p in enumerate(c["params"]))
    return f'<{tag} ID="{oid or c["name"]}"><SHORT-NAME>{c["name"]}</SHORT-NAME><PARAMS>{ps}</PARAMS></{tag}>'


def _name(c):
    return c if isinstance(c, str) else c["name"]


LAYER_NAMES = ["ev", "bv", "fg"]
LAYER_KINDS = ["ECU-VARIANT", "BASE-VARIANT", "FUNCTIONAL-GROUP"]
NOT_INHERITED = {"services": ("NOT-INHERITED-DIAG-COMMS", "NOT-INHERITED-DIAG-COMM", "DIAG-COMM-SNREF"),
                 "gnrs": ("NOT-INHERITED-GLOBAL-NEG-RESPONSES", "NOT-INHERITED-GLOBAL-NEG-RESPONSE", "GLOBAL-NEG-RESPONSE-SNREF")}


def chain(desc):
    """the layers of a description, the layer under test first: [(layer short name, kind, local description)]"""
    ds, d = [], desc
    while d is not None and len(ds) < 3:
        ds.append(d)
        d = d.get("base")
    if len(ds) == 1:
        return [("bv", "BASE-VARIANT", desc)]
    return [(LAYER_NAMES[i], LAYER_KINDS[i], d) for i, d in enumerate(ds)]


def tested_layer(desc):
    return chain(desc)[0][0]


def _layer_xml(lname, kind, d, parent, with_dops, qualify):
    """one diagnostic layer; qualify: the IDs of services and global negative responses carry the layer name (an
    overriding object has the short name of the overridden one, IDs stay unique)"""
    q = (lambda n: f"{lname}.{n}") if qualify else (lambda n: n)
    reqs, pos, neg, svcs = [], [], [], []
    for s in d["services"]:
        reqs.append(_coding("REQUEST", s["req"]))
        pos += [_coding("POS-RESPONSE", c) for c in s["pos"] if not isinstance(c, str)]
        neg += [_coding("NEG-RESPONSE", c) for c in s["neg"] if not isinstance(c, str)]
        pr = "".join(f'<POS-RESPONSE-REF ID-REF="{_name(c)}"/>' for c in s["pos"])
        nr = "".join(f'<NEG-RESPONSE-REF ID-REF="{_name(c)}"/>' for c in s["neg"])
        svcs.append(f'<DIAG-SERVICE ID="{q(s["name"])}"><SHORT-NAME>{s["name"]}</SHORT-NAME>'
                    f'<REQUEST-REF ID-REF="{s["req"]["name"]}"/>'
                    + (f"<POS-RESPONSE-REFS>{pr}</POS-RESPONSE-REFS>" if pr else "")
                    + (f"<NEG-RESPONSE-REFS>{nr}</NEG-RESPONSE-REFS>" if nr else "") + "</DIAG-SERVICE>")
    gn = "".join(_coding("GLOBAL-NEG-RESPONSE", c, q(c["name"])) for c in d["gnrs"])
    ddds = ('<DIAG-DATA-DICTIONARY-SPEC><DATA-OBJECT-PROPS>' + _dop(8) + _dop(16) + _dop(24)
            + '</DATA-OBJECT-PROPS></DIAG-DATA-DICTIONARY-SPEC>') if with_dops else ""
    prefs = ""
    if parent is not None:
        pname, pkind = parent
        ni = ""
        for key, (outer, inner, snref) in NOT_INHERITED.items():
            names = d.get("not_inherited", {}).get(key, [])
            if names:
                ni += f"<{outer}>" + "".join(f'<{inner}><{snref} SHORT-NAME="{n}"/></{inner}>' for n in names) + f"</{outer}>"
        prefs = f'<PARENT-REFS><PARENT-REF ID-REF="{pname}" xsi:type="{pkind}-REF">{ni}</PARENT-REF></PARENT-REFS>'
    return (f'<{kind} ID="{lname}"><SHORT-NAME>{lname}</SHORT-NAME>{ddds}<DIAG-COMMS>{"".join(svcs)}</DIAG-COMMS>'
            f'<REQUESTS>{"".join(reqs)}</REQUESTS><POS-RESPONSES>{"".join(pos)}</POS-RESPONSES>'
            f'<NEG-RESPONSES>{"".join(neg)}</NEG-RESPONSES>'
            + (f'<GLOBAL-NEG-RESPONSES>{gn}</GLOBAL-NEG-RESPONSES>' if gn else "") + prefs + f'</{kind}>')


def to_xml(desc):
    layers = chain(desc)
    flat = len(layers) == 1
    groups = {}
    for i, (lname, kind, d) in enumerate(layers):
        parent = (layers[i + 1][0], layers[i + 1][1]) if i + 1 < len(layers) else None
        groups[kind] = _layer_xml(lname, kind, d, parent, with_dops=(i == len(layers) - 1), qualify=not flat)
    body = "".join(f"<{k}S>{groups[k]}</{k}S>" for k in ("FUNCTIONAL-GROUP", "BASE-VARIANT", "ECU-VARIANT") if k in groups)
    return (f'<?xml version="1.0"?><ODX MODEL-VERSION="2.2.0" {XSI}><DIAG-LAYER-CONTAINER ID="c">'
            f'<SHORT-NAME>c</SHORT-NAME>{body}</DIAG-LAYER-CONTAINER></ODX>')


def load_db(desc):
    from odxtools.database import Database
    logging.getLogger("odxtools").setLevel(logging.CRITICAL)
    db = Database()
    db._process_xml_tree(ET.fromstring(to_xml(desc)))
    db.refresh()
    return db


def load_layer(desc):
    """the description, loaded through the real parser; returns the DiagLayer under test"""
    return load_db(desc).diag_layers[tested_layer(desc)]


# ---------------------------------------------------------------- generator
def plain_bytes(c, req_bytes=b"", rng=None, nrc_pick=0):
    """an encoding of coding object `c` written down directly from the description (independent of the
    encoder): constants, echoed request bytes, values (random / zero), one of the NRC values"""
    out = b""
    for p in c["params"]:
        k = p["k"]
        if k in ("cc", "pc"):
            out += p["v"].to_bytes(p["bl"] // 8, "big")
        elif k == "mr":
            seg = req_bytes[p["pos"]:p["pos"] + p["len"]]
            out += seg + bytes(p["len"] - len(seg))
        elif k == "val":
            n = p["bl"] // 8
            out += bytes(rng.getrandbits(8) for _ in range(n)) if rng else bytes(n)
        elif k == "nrc":
            out += p["vals"][nrc_pick % len(p["vals"])].to_bytes(p["bl"] // 8, "big")
        else:
            out += bytes(p["bl"] // 8)
    return out


def const_run(params):
    """bytes of the leading cc/pc run of a description (generator-side only: alphabet, nesting)"""
    out = b""
    for p in params:
        if p["k"] not in ("cc", "pc"):
            break
        out += p["v"].to_bytes(p["bl"] // 8, "big")
    return out


SIDS = [0x22, 0x2E, 0x31, 0x10, 0x19]
SUBS = [0x01, 0x02, 0xF1, 0x22, 0x00]


def _consts(rng, bs, phys_ok=True):
    """constant parameters producing the byte string bs (8/16/24 bit pieces, some as PHYS-CONST)"""
    out, i = [], 0
    while i < len(bs):
        n = min(len(bs) - i, rng.choice([1, 1, 1, 2, 3]))
        kind = "pc" if phys_ok and rng.random() < 0.15 else "cc"
        out.append({"k": kind, "v": int.from_bytes(bs[i:i + n], "big"), "bl": 8 * n})
        i += n
    return out


def _tail(rng, maxn=3):
    out = []
    for _ in range(rng.choice([0, 1, 1, 2, maxn])):
        r = rng.random()
        if r < 0.7:
            out.append({"k": "val", "bl": rng.choice([8, 8, 16, 24])})
        elif r < 0.85:
            out.append({"k": "res", "bl": 8})
        else:
            out.append({"k": "cc", "v": rng.choice(SUBS), "bl": 8})   # a constant *after* the prefix
    return out


def gen_layer(rng, tag="", nsvc=None, ngnr=None, seed_prefixes=()):
    """1-5 services with shared / nested / empty / distinct constant prefixes, requests of differing
    lengths, responses with MATCHING-REQUEST-PARAM and NRC-CONST alternatives, 0-2 global negative responses.
    tag: prefix of all names (layers of one hierarchy); nsvc / ngnr: numbers of services / global negative responses;
    seed_prefixes: request prefixes of the inherited services (to be shared / nested by the local ones)"""
    if nsvc is None:
        nsvc = rng.choice([1, 2, 2, 3, 3, 4, 5])
    prefixes = list(seed_prefixes)          # request prefixes chosen so far
    services, cid = [], [0]
    shared_pos = None

    def coding(kind, params):
        cid[0] += 1
        return {"name": f"{tag}{kind}{cid[0]}", "params": params}

    for si in range(nsvc):
        r = rng.random()
        if prefixes and r < 0.25:
            pre = rng.choice(prefixes)                                  # shared
        elif prefixes and r < 0.5:
            base = rng.choice(prefixes)                                 # nested: extend or shorten
            pre = base + bytes([rng.choice(SUBS)]) if rng.random() < 0.6 or len(base) < 2 else base[:-1]
        elif r < 0.54:
            pre = b""                                                   # empty
        else:
            pre = bytes([rng.choice(SIDS)]) + bytes(rng.choice(SUBS) for _ in range(rng.choice([0, 0, 1, 1, 2])))
        pre = pre[:4]
        prefixes.append(pre)
        rparams = _consts(rng, pre)
        tail = _tail(rng)
        if not pre and not tail:
            tail = [{"k": "val", "bl": 8}]
        if pre and tail and tail[0]["k"] == "cc":
            tail[0] = {"k": "val", "bl": 8}
        if not pre and tail[0]["k"] == "cc":
            tail[0] = {"k": "val", "bl": 8}
        rparams += tail
        if rng.random() < 0.04:                                         # (nonsensical) echo inside a request
            rparams.insert(min(len(rparams), 1), {"k": "mr", "pos": 0, "len": rng.choice([0, 1])})
        req = coding("rq", rparams)
        rlen = len(plain_bytes(req))
        sid = (pre[0] + 0x40) & 0xFF if pre else 0x50

        def pos_resp():
            ps = []
            if rng.random() < 0.97:
                ps += [{"k": "pc" if rng.random() < 0.1 else "cc", "v": sid, "bl": 8}]
            rr = rng.random()
            if rr < 0.5 and rlen > 1:
                p0 = rng.choice([1, 1, 1, 0, 2])
                ln = rng.choice([1, 1, 2, 2, 3])
                ps.append({"k": "mr", "pos": p0, "len": ln})            # may lie inside, straddle or exceed the prefix
            elif rr < 0.65 and len(pre) > 1:
                ps += _consts(rng, pre[1:2], phys_ok=False)
            ps += _tail(rng, 2)
            return coding("pr", ps)

        def neg_resp(vals):
            ps = [{"k": "cc", "v": 0x7F, "bl": 8}]
            if rng.random() < 0.8:
                ps.append({"k": "mr", "pos": 0, "len": 1})
            else:
                ps.append({"k": "val", "bl": 8})
            ps.append({"k": "nrc", "vals": vals, "bl": 8})
            if rng.random() < 0.2:
                ps.append({"k": "val", "bl": 8})
            return coding("nr", ps)

        pos = [pos_resp() for _ in range(rng.choice([0, 1, 1, 1, 2]))]
        if shared_pos is not None and rng.random() < 0.08:
            pos.append(shared_pos)                                       # a response shared by two services
        elif pos and shared_pos is None and rng.random() < 0.3:
            shared_pos = _name(pos[0])
        if pos and rng.random() < 0.03:
            pos.append(_name(pos[0]))                                    # the same response referenced twice
        neg = []
        r = rng.random()
        if r < 0.35:
            neg = [neg_resp(rng.sample([0x10, 0x11, 0x12, 0x13, 0x22, 0x31], rng.choice([1, 2, 3])))]
        elif r < 0.55:                                                   # NRC-CONST alternatives
            vs = rng.sample([0x10, 0x11, 0x12, 0x13, 0x22, 0x31], 6)
            neg = [neg_resp(vs[:2]), neg_resp(vs[2:4] if rng.random() < 0.8 else vs[1:3])]
            if rng.random() < 0.3:                                       # a third alternative (disjoint / overlapping)
                neg.append(neg_resp(vs[4:] if rng.random() < 0.8 else vs[3:5]))
        services.append({"name": f"{tag}S{si}", "req": req, "pos": pos, "neg": neg})
    gnrs = []
    for _ in range(rng.choice([0, 0, 1, 1, 2]) if ngnr is None else ngnr):
        r = rng.random()
        ps = [{"k": "cc", "v": 0x7F, "bl": 8}]
        if r < 0.55:
            ps += [{"k": "mr", "pos": 0, "len": 1}, {"k": "val", "bl": 8}]
        elif r < 0.7:
            ps += [{"k": "mr", "pos": 0, "len": rng.choice([1, 2])}, {"k": "nrc", "vals": [0x10, 0x11, 0x78], "bl": 8}]
        elif r < 0.85:
            ps += [{"k": "val", "bl": 8}, {"k": "val", "bl": 8}]        # no matching-request parameter
        elif r < 0.89:
            ps = [{"k": "val", "bl": 8}, {"k": "val", "bl": 8}]         # empty prefix
        else:
            ps += [{"k": "mr", "pos": 0, "len": 1}, {"k": "val", "bl": 16}, {"k": "val", "bl": 8}]   # a long one
        gnrs.append(coding("gn", ps))
    return {"services": services, "gnrs": gnrs}


def gen_hier_layer(rng):
    """an ECU variant under a base variant (25 %: under a base variant under a functional group).  Every layer has
    services and global negative responses of its own (generated like a flat layer, request prefixes shared / nested with
    the inherited ones); a local service / global negative response may take the short name of an inherited one
    (override); every PARENT-REF excludes some of the inherited global negative responses and services.  The two exclusion
    lists are independent of each other and also contain names of the other kind and unknown names."""
    depth = 3 if rng.random() < 0.25 else 2
    desc = None
    for lv in range(depth - 1, -1, -1):          # the root of the hierarchy first
        tag = "EBF"[lv]
        if desc is None:
            d = gen_layer(rng, tag=tag, nsvc=rng.choice([1, 2, 2, 3, 3]), ngnr=rng.choice([1, 1, 2, 2, 3]))
        else:
            inh = effective(desc)
            inh_s, inh_g = [x["name"] for x in inh["services"]], [x["name"] for x in inh["gnrs"]]
            d = gen_layer(rng, tag=tag, nsvc=rng.choice([0, 1, 1, 2]), ngnr=rng.choice([0, 0, 1, 1]),
                          seed_prefixes=[const_run(x["req"]["params"])[:4] for x in inh["services"]])
            free = list(inh_s)
            for x in d["services"]:                # override an inherited service
                if free and rng.random() < 0.3:
                    x["name"] = free.pop(rng.randrange(len(free)))
            free = list(inh_g)
            for x in d["gnrs"]:                    # override an inherited global negative response
                if free and rng.random() < 0.4:
                    x["name"] = free.pop(rng.randrange(len(free)))
            ni_g = [n for n in inh_g if rng.random() < 0.45]
            ni_s = [n for n in inh_s if rng.random() < 0.2]
            if inh_s and rng.random() < 0.25:
                ni_g.append(rng.choice(inh_s))     # a service name among the excluded global negative responses
            if inh_g and rng.random() < 0.25:
                ni_s.append(rng.choice(inh_g))     # and the other way round
            if rng.random() < 0.15:
                ni_g.append("nobody")
            if rng.random() < 0.1:
                ni_s.append("nothing")
            rng.shuffle(ni_g)
            d["base"] = desc
            d["not_inherited"] = {"services": ni_s, "gnrs": ni_g}
        desc = d
    return desc


def _inherit(inherited, excluded, local):
    """value inheritance for one kind of object, entries (owner layer, description): the inherited objects whose short name
    is not excluded, in their order, each replaced by the local object of the same short name if there is one, followed by
    the other local objects"""
    out = [x for x in inherited if x[1]["name"] not in excluded]
    names = [x[1]["name"] for x in out]
    for x in local:
        if x[1]["name"] in names:
            out[names.index(x[1]["name"])] = x
        else:
            out.append(x)
            names.append(x[1]["name"])
    return out


def effective_owned(desc):
    """→ ([(owner layer, service description)], [(owner layer, GNR description)]) applicable to the layer under test, read
    off the description alone (ISO 22901-1 value inheritance along a chain of layers: everything of the parent that its
    PARENT-REF does not exclude is inherited, local objects override inherited ones of the same short name)"""
    svcs, gnrs = [], []
    for lname, _, d in reversed(chain(desc)):
        ni = d.get("not_inherited", {})
        svcs = _inherit(svcs, set(ni.get("services", [])), [(lname, x) for x in d["services"]])
        gnrs = _inherit(gnrs, set(ni.get("gnrs", [])), [(lname, x) for x in d["gnrs"]])
    return svcs, gnrs


def effective(desc):
    """the flat description of the layer under test: applicable services and global negative responses; `ghost_services` /
    `ghost_gnrs`: the excluded and overridden ones (they must not play any role); `all`: the complete description"""
    if "base" not in desc:
        return desc
    svcs, gnrs = effective_owned(desc)
    es, eg = {(o, x["name"]) for o, x in svcs}, {(o, x["name"]) for o, x in gnrs}
    return {"services": [x for _, x in svcs], "gnrs": [x for _, x in gnrs],
            "ghost_services": [x for l, _, d in chain(desc) for x in d["services"] if (l, x["name"]) not in es],
            "ghost_gnrs": [x for l, _, d in chain(desc) for x in d["gnrs"] if (l, x["name"]) not in eg],
            "all": desc}


def resolve(desc, c):
    """a response given by name (shared / referenced twice) → its description"""
    if not isinstance(c, str):
        return c
    for _, _, d in chain(desc.get("all", desc)):
        for s in d["services"]:
            for x in s["pos"] + s["neg"]:
                if not isinstance(x, str) and x["name"] == c:
                    return x
    raise KeyError(c)


def desc_codings(desc):
    """short name → description of every coding object of the layer (all layers of a hierarchy; the short names of
    requests and responses are unique, those of global negative responses are not: see View.cdesc)"""
    out = {}
    for _, _, d in chain(desc.get("all", desc)):
        for s in d["services"]:
            for c in [s["req"]] + s["pos"] + s["neg"]:
                if not isinstance(c, str):
                    out[c["name"]] = c
        for c in d["gnrs"]:
            out.setdefault(c["name"], c)
    return out


def desc_verdict(c, msg, strict):
    """What decoding `msg` with the single coding object `c` has to do, read off the *description* alone
    (independent of the implementation and of the Lean model): None = the parameters match, else the reason of
    the first parameter which does not:
      'too-short'   the parameter lies (partly) behind the end of the message            (both modes)
      'nrc-const'   the byte(s) of an NRC-CONST are not one of its alternatives         (both modes)
      'phys-const'  a PHYS-CONST has a different value                                   (strict mode only: the
                    library reports this through odxraise, i.e. it is tolerated in non-strict mode just as a
                    CODED-CONST mismatch is only a warning in both modes; the leading constants are what the
                    constant-prefix filters of the dispatcher look at)
    Parameters follow each other without gaps (no explicit positions), integers are big endian."""
    pos = 0
    for p in c["params"]:
        k = p["k"]
        n = p["len"] if k == "mr" else p["bl"] // 8
        if n == 0:
            continue
        if pos + n > len(msg):
            return "too-short"
        v = int.from_bytes(msg[pos:pos + n], "big")
        if k == "nrc" and v not in p["vals"]:
            return "nrc-const"
        if k == "pc" and strict and v != p["v"]:
            return "phys-const"
        pos += n
    return None


# ---------------------------------------------------------------- the loaded layer as seen by the model
class View:
    """numbering of services / coding objects of a loaded layer and their model description"""

    def __init__(self, layer, services=None, gnrs=None, ghost_services=(), ghost_gnrs=()):
        """services / gnrs: the objects that apply to the layer (default: what the layer itself says, flat layers);
        ghost_*: objects of the database which do NOT apply to it (excluded from inheritance or overridden) — they get
        numbers so that they can be named when the implementation reports them, the model never sees them"""
        from odxtools.parameters.codedconstparameter import CodedConstParameter
        from odxtools.parameters.matchingrequestparameter import MatchingRequestParameter
        from odxtools.parameters.physicalconstantparameter import PhysicalConstantParameter
        self._cc, self._pc, self._mr = CodedConstParameter, PhysicalConstantParameter, MatchingRequestParameter
        self.layer = layer
        self.services = list(layer.services) if services is None else list(services)
        self.gnrs = list(layer.global_negative_responses) if gnrs is None else list(gnrs)
        self.ghost_services, self.ghost_gnrs = list(ghost_services), list(ghost_gnrs)
        self.sno = {id(s): i + 1 for i, s in enumerate(self.services + self.ghost_services)}
        self.sname = {i + 1: s.short_name + ("" if i < len(self.services) else " (not applicable)")
                      for i, s in enumerate(self.services + self.ghost_services)}
        self.cno, self.cobj = {}, {}
        for s in self.services:
            for co in ([s.request] if s.request is not None else []) + list(s.positive_responses) + list(s.negative_responses):
                self._reg(co)
        for g in self.gnrs:
            self._reg(g)
        for s in self.ghost_services:
            for co in ([s.request] if s.request is not None else []) + list(s.positive_responses) + list(s.negative_responses):
                self._reg(co)
        for g in self.ghost_gnrs:
            self._reg(g)
        self.pdesc = {n: self._params(co) for n, co in self.cobj.items()}

    def _reg(self, co):
        if id(co) not in self.cno:
            n = len(self.cno) + 1
            self.cno[id(co)] = n
            self.cobj[n] = co

    def _params(self, co):
        from odxtools.encodestate import EncodeState
        out = []
        for p in co.parameters:
            if isinstance(p, (self._cc, self._pc)):
                # the bytes this parameter encodes to on its own (an input of the model)
                try:
                    st = EncodeState(coded_message=bytearray(), triggering_request=b"")
                    p.encode_into_pdu(physical_value=None, encode_state=st)
                    out.append(f"(c {bytes(st.coded_message).hex() or '-'})")
                except Exception:
                    out.append("(o)")
            elif isinstance(p, self._mr):
                out.append(f"(m {p.request_byte_position} {p.byte_length})")
            else:
                out.append("(o)")
        return " ".join(out)

    def kind(self, n):
        co = self.cobj.get(n)
        if co is None:
            return "unknown"
        if any(co is g for g in self.gnrs):
            return "gnr"
        if any(co is g for g in self.ghost_gnrs):
            return "gnr-not-applicable"
        return "own"

    def is_request(self, n):
        return any(s.request is self.cobj[n] for s in self.services)

    def coding_sexp(self, n, outcome):
        return f"(co {n} {outcome} {self.pdesc[n]})"

    def layer_sexp(self, outcomes):
        """outcomes: coding number → ok|mismatch|error|foreign"""
        def cs(cos):
            return " ".join(self.coding_sexp(self.cno[id(c)], outcomes.get(self.cno[id(c)], "foreign")) for c in cos)
        svcs = []
        for s in self.services:
            rq = cs([s.request]) if s.request is not None else ""
            svcs.append(f"(svc {self.sno[id(s)]} (req {rq}) (pos {cs(s.positive_responses)}) (neg {cs(s.negative_responses)}))")
        return f"(layer (gnrs {cs(self.gnrs)}) {' '.join(svcs)})"


def make_view(desc):
    """the description loaded through the real parser, as seen by the model.  Flat layer: services and global negative
    responses as the layer lists them.  Layer with parents: the services and global negative responses which apply to it
    according to the DESCRIPTION (`effective_owned`), looked up among the locally defined objects of the layers of the
    database — what the implementation thinks the layer inherits is not consulted (`impl_contents` compares it)."""
    if "base" not in desc:
        v = View(load_layer(desc))
        dc = desc_codings(desc)
        v.eff = desc
        v.cdesc = {n: dc[co.short_name] for n, co in v.cobj.items() if getattr(co, "short_name", None) in dc}
        v.expected = None
        return v
    db = load_db(desc)
    pool_s, pool_g, by_obj = {}, {}, {}
    for lname, _, d in chain(desc):
        raw = db.diag_layers[lname].diag_layer_raw
        for x in raw.diag_comms:
            pool_s[(lname, x.short_name)] = x
        for x in raw.global_negative_responses:
            pool_g[(lname, x.short_name)] = x
        for sd in d["services"]:
            s = pool_s[(lname, sd["name"])]
            by_obj[id(s.request)] = sd["req"]
            for ro, rd in zip(list(s.positive_responses) + list(s.negative_responses), sd["pos"] + sd["neg"]):
                by_obj[id(ro)] = resolve(desc, rd)
        for gd in d["gnrs"]:
            by_obj[id(pool_g[(lname, gd["name"])])] = gd
    svcs, gnrs = effective_owned(desc)
    es, eg = [pool_s[(o, x["name"])] for o, x in svcs], [pool_g[(o, x["name"])] for o, x in gnrs]
    v = View(db.diag_layers[tested_layer(desc)], es, eg,
             [x for x in pool_s.values() if not any(x is y for y in es)],
             [x for x in pool_g.values() if not any(x is y for y in eg)])
    v.eff = effective(desc)
    v.cdesc = {n: by_obj[id(co)] for n, co in v.cobj.items() if id(co) in by_obj}
    v.expected = (es, eg)
    return v


def impl_contents(view):
    """what the implementation says the layer contains against what applies to it according to the description:
    [(kind, 'extra'|'missing'|'order', short names)] (objects are compared by identity)"""
    out = []
    if view.expected is None:
        return out
    for kind, exp, got in (("service", view.expected[0], list(view.layer.services)),
                           ("gnr", view.expected[1], list(view.layer.global_negative_responses))):
        extra = [x.short_name for x in got if not any(x is y for y in exp)]
        missing = [x.short_name for x in exp if not any(x is y for y in got)]
        if extra:
            out.append((kind, "extra", extra))
        if missing:
            out.append((kind, "missing", missing))
        if not extra and not missing and [id(x) for x in exp] != [id(x) for x in got]:
            out.append((kind, "order", [x.short_name for x in got]))
    return out


def set_strict(flag):
    import odxtools.exceptions as ex
    old = ex.strict_mode
    ex.strict_mode = flag
    return old


def outcome(co, msg):
    """the oracle: what co.decode(msg) does (C01-C05 own what happens inside)"""
    from odxtools.exceptions import DecodeError, DecodeMismatch
    try:
        with warnings.catch_warnings():
            warnings.simplefilter("ignore")
            co.decode(msg)
        return "ok"
    except DecodeMismatch:
        return "mismatch"
    except DecodeError:
        return "error"
    except Exception:
        return "foreign"


def run_decode(view, msg, request=None):
    """DiagLayer.decode / decode_response → ('ok', [(service no, coding no | None)]) | ('err', class)"""
    from odxtools.exceptions import DecodeError
    try:
        with warnings.catch_warnings():
            warnings.simplefilter("ignore")
            ms = view.layer.decode(msg) if request is None else view.layer.decode_response(msg, request)
        out = []
        for m in ms:
            sn = view.sno.get(id(m.service), 0)
            cn = None if m.coding_object is None else view.cno.get(id(m.coding_object), 0)
            out.append((sn, cn))
        return ("ok", out)
    except DecodeError:
        return ("err", "decode")
    except Exception as e:
        return ("err", "foreign:" + type(e).__name__)


def run_candidates(view, msg):
    try:
        with warnings.catch_warnings():
            warnings.simplefilter("ignore")
            return [view.sno.get(id(s), 0) for s in view.layer._find_services_for_uds(msg)]
    except Exception as e:
        return "foreign:" + type(e).__name__


def run_prefixes(view):
    """coded_const_prefix of every coding object relative to every service, as the implementation computes it"""
    out = {}
    for s in view.services:
        try:
            rp = s.request.coded_const_prefix() if s.request is not None else b""
        except Exception as e:
            out[view.sno[id(s)]] = "foreign:" + type(e).__name__
            continue
        row = []
        cos = list(s.positive_responses) + list(s.negative_responses) + ([s.request] if s.request is not None else []) + view.gnrs
        for co in cos:
            try:
                row.append((view.cno[id(co)], bytes(co.coded_const_prefix(request_prefix=rp)).hex() or "-"))
            except Exception as e:
                row.append((view.cno[id(co)], "foreign:" + type(e).__name__))
        out[view.sno[id(s)]] = row
    return out


def run_groups(view):
    """ServiceBinner: the ordered dictionary and the __getitem__ view"""
    try:
        sg = view.layer.service_groups
        groups = [(k, [view.sno.get(id(s), 0) for s in v]) for k, v in sg._service_groups.items()]
        getitem = {}
        for k in [None] + list(range(256)):
            v = [view.sno.get(id(s), 0) for s in sg[k]]
            if v:
                getitem[k] = v
        return groups, getitem
    except Exception as e:
        return "foreign:" + type(e).__name__, {}


# ---------------------------------------------------------------- replies of the driver
def parse_sexp(s):
    out, stack, cur = None, [], None
    tok = s.replace("(", " ( ").replace(")", " ) ").split()
    for t in tok:
        if t == "(":
            new = []
            if cur is not None:
                cur.append(new)
                stack.append(cur)
            cur = new
        elif t == ")":
            if stack:
                cur = stack.pop()
            else:
                out = cur
                cur = None
        else:
            cur.append(t)
    return out


def field(xs, key):
    for x in xs:
        if isinstance(x, list) and x and x[0] == key:
            return x[1:]
    return None


def parse_decode_reply(line):
    """→ dict(cands=[…], res=('ok', [(s, c|None)]) | ('err', cls), attr={s: [(c, prefix)]}, unamb=bool)"""
    sx = parse_sexp(line)
    if not sx or sx[0] != "ok":
        return None
    res = field(sx[1:], "res")
    if res[0] == "ok":
        r = ("ok", [(int(a), None if b == "none" else int(b)) for a, b in res[1:]])
    else:
        r = ("err", res[1])
    attr = {int(x[0]): [(int(c), p) for c, p in x[1:]] for x in field(sx[1:], "attr")}
    return {"cands": [int(x) for x in field(sx[1:], "cands")], "res": r, "attr": attr,
            "unamb": field(sx[1:], "unamb") == ["t"]}


def parse_info_reply(line):
    sx = parse_sexp(line)
    if not sx or sx[0] != "ok":
        return None
    key = lambda k: None if k == "none" else int(k)
    return {"prefixes": {int(x[0]): [(int(c), p) for c, p in x[1:]] for x in field(sx[1:], "prefixes")},
            "groups": [(key(x[0]), [int(n) for n in x[1:]]) for x in field(sx[1:], "groups")],
            "sids": {int(a): key(b) for a, b in field(sx[1:], "sids")}}
