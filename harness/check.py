"""entry point: ./check <ID> [--tier quick|thorough] [--replay file]"""
import argparse
import importlib
import json
import os
import sys
import traceback
from pathlib import Path

sys.path.insert(0, str(Path(__file__).resolve().parent))
import common  # noqa: E402


def main():
    ap = argparse.ArgumentParser()
    ap.add_argument("pid")
    ap.add_argument("--tier", default=os.environ.get("VERIF_TIER", "quick"), choices=["quick", "thorough"])
    ap.add_argument("--replay")
    a = ap.parse_args()
    seed = int(os.environ.get("VERIF_SEED", "0") or 0)
    pid = a.pid.upper()
    mod = importlib.import_module(f"props.{pid.lower()}")
    ctx = common.Ctx(pid, a.tier, seed)
    try:
        common.import_repo()
        if a.replay:
            data = json.loads((common.VERIF / a.replay).read_text() if not os.path.isabs(a.replay) else Path(a.replay).read_text())
            ok = mod.replay(ctx, data)
            print("replay: property holds on this input now" if ok else f"VIOLATION property={pid} replay={a.replay}")
            return 0 if ok else 1
        common.build_and_audit(ctx, mod)
        try:
            mod.run(ctx)
        except common.EnoughViolations:
            pass
        return common.finish(ctx, mod)
    except Exception:
        traceback.print_exc()
        return 2


if __name__ == "__main__":
    sys.exit(main())
