"""entry point: ./check <ID> [--tier quick|thorough] [--replay file]"""
import argparse
import importlib
import json
import os
import sys
import traceback
from pathlib import Path

sys.path.insert(0, str(Path(__file__).resolve().parent))
import common  # noqa: E402


BOOST_WALL = {"quick": 300, "thorough": 3600}      # seconds of total wall time up to which further rounds are started


def extra_rounds(ctx, mod, seed):
    """source sentinel: if a file the property is anchored in differs from the pinned snapshot (harness/anchors.json) and the first
    round found nothing, run further rounds of the same generators with fresh seeds while the time budget lasts. Decides nothing by
    itself; every finding of a further round is an ordinary failing input / disagreement of this run."""
    import time
    import sentinel
    try:
        changed = sentinel.changed(common.REPO, ctx.pid)
    except Exception as e:  # noqa
        ctx.notes.append(f"source sentinel failed: {e!r}")
        return
    ctx.counters["sentinel_changed_files"] = len(changed)
    if not changed:
        return
    ctx.notes.append("source sentinel: anchored files differ from the pinned snapshot: " + ", ".join(changed[:12]))
    first = max(time.time() - ctx.t0, 1.0)
    # budget: three more times what the first round took (at least a minute), never beyond BOOST_WALL in total
    limit = min(BOOST_WALL[ctx.tier], time.time() - ctx.t0 + max(3 * first, 60.0))
    k = 0
    # (violations explained by an OPEN known finding do not count: ctx._fresh = failing inputs no open finding explains)
    while not getattr(ctx, "_fresh", 0) and not ctx.disagreements and time.time() - ctx.t0 + first < limit and k < 12:
        k += 1
        ctx.reseed(seed + 7919 * k)
        mod.run(ctx)
        ctx.counters["sentinel_extra_rounds"] = k
    ctx.reseed(seed)


def main():
    ap = argparse.ArgumentParser()
    ap.add_argument("pid")
    ap.add_argument("--tier", default=os.environ.get("VERIF_TIER", "quick"), choices=["quick", "thorough"])
    ap.add_argument("--replay")
    a = ap.parse_args()
    seed = int(os.environ.get("VERIF_SEED", "0") or 0)
    pid = a.pid.upper()
    mod = importlib.import_module(f"props.{pid.lower()}")
    ctx = common.Ctx(pid, a.tier, seed)
    try:
        common.import_repo()
        if a.replay:
            data = json.loads((common.VERIF / a.replay).read_text() if not os.path.isabs(a.replay) else Path(a.replay).read_text())
            ok = mod.replay(ctx, data)
            print("replay: property holds on this input now" if ok else f"VIOLATION property={pid} replay={a.replay}")
            return 0 if ok else 1
        common.build_and_audit(ctx, mod)
        try:
            mod.run(ctx)
            extra_rounds(ctx, mod, seed)
        except common.EnoughViolations:
            pass
        except Exception as e:  # noqa
            # The harness observes the implementation in-process (callbacks, attributes, loader entry points). If it crashes AND the source
            # sentinel says the anchored files differ from the pinned snapshot, the implementation changed in a way the observation does not
            # survive: that is a broken correspondence (reported like any other broken obligation, with whatever failing inputs were found
            # before), not an infrastructure failure. On the pinned tree a crash is a bug of the harness: exit 2.
            import sentinel
            try:
                changed = sentinel.changed(common.REPO, ctx.pid)
            except Exception:  # noqa
                changed = []
            if not changed:
                raise
            tb = traceback.format_exc().strip().splitlines()
            ctx.obligation("correspondence:harness-observes-implementation", False,
                           f"{type(e).__name__}: {e}"[:300] + " @ " + " / ".join(l.strip() for l in tb[-6:-1])[:500])
            ctx.notes.append("harness crashed while observing a changed implementation (" + ", ".join(changed[:6]) + "): " + tb[-1][:300])
        return common.finish(ctx, mod)
    except Exception:
        traceback.print_exc()
        return 2


if __name__ == "__main__":
    sys.exit(main())
