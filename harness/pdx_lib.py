"""C11 support library: PDX write -> load round trips on the real odxtools code.

* `tree(obj)`        canonical plain-data image of a dataclass tree (dataclasses.fields only; private
                     attributes = resolved-reference caches are ignored; lists keep their order)
* `diff(a, b)`       list of (path, owner class, field, left, right) where two images differ
* `effective_tree(db)` image of the *derived* state refresh() computes (per layer: public properties, query results; per
                     object: resolved references and computed scalars), enumerated from the live classes
* `write_db / load_* ` the writer and the loader entry points, exceptions turned into data
* `slots(db)`        every (object, field) of the dataclass tree below a database (perturbation sites)
* `perturb(...)`     one single-field perturbation

Nothing here knows which fields exist: everything is enumerated with `dataclasses.fields` from the live
classes of the tree under test.
"""
import copy
import dataclasses
import enum
import io
import os
import sys
import tempfile
import typing
import zipfile
from xml.etree import ElementTree

# ------------------------------------------------------------------------------------------------
# speed device: write_pdx_file builds a fresh jinja2.Environment (and recompiles the 51 templates,
# ~0.4 s) on every call.  We hand the environment a shared in-memory byte-code cache; cache keys
# contain the checksum of the template source, so a changed template is recompiled.  Rendering,
# globals and filters are untouched.
_BCC = None


def install_bytecode_cache():
    global _BCC
    import jinja2
    import odxtools.writepdxfile as W
    if _BCC is not None:
        return

    class MemCache(jinja2.BytecodeCache):
        def __init__(self):
            self.store = {}

        def load_bytecode(self, bucket):
            data = self.store.get(bucket.key)
            if data is not None:
                bucket.bytecode_from_string(data)

        def dump_bytecode(self, bucket):
            self.store[bucket.key] = bucket.bytecode_to_string()

    _BCC = MemCache()
    real_env = jinja2.Environment

    class Env(real_env):
        def __init__(self, *a, **kw):
            kw.setdefault("bytecode_cache", _BCC)
            super().__init__(*a, **kw)

    class J2Proxy:
        def __getattr__(self, name):
            return Env if name == "Environment" else getattr(jinja2, name)

    W.jinja2 = J2Proxy()


# ------------------------------------------------------------------------------------------------
# canonical image of a dataclass tree
def is_dc(x):
    return dataclasses.is_dataclass(x) and not isinstance(x, type)


def public_fields(obj):
    return [f for f in dataclasses.fields(obj) if not f.name.startswith("_")]


# Public dataclass fields whose value the parser does NOT read from the element's own slots:
#  * CONTEXT: handed down by the enclosing element's parser as a from_et keyword argument (the data types of
#    limits / constants / coefficients come from the DOP's DIAG-CODED-TYPE / PHYSICAL-TYPE), implied by the tag
#    name (layer kind, response kind) or by the dispatch on CATEGORY (class of the compu method), or the document
#    position (doc fragments).  They cannot be perturbed on their own without producing an object no ODX document
#    describes; images made for the perturbation pass (mask=True) leave them out.
#  * DERIVED: filled in by Database.refresh() from another field that *is* a slot.
CONTEXT_FIELDS = {
    ("*", "doc_fragments"), ("OdxDocFragment", "doc_name"), ("OdxDocFragment", "doc_type"),
    ("*Raw", "variant_type"), ("Response", "response_type"),
    ("*CompuMethod", "category"), ("*CompuMethod", "physical_type"), ("*CompuMethod", "internal_type"),
    ("CompuScale", "domain_type"), ("CompuScale", "range_type"), ("Limit", "value_type"),
    ("CompuConst", "data_type"), ("CompuDefaultValue", "data_type"), ("CompuInverseValue", "data_type"),
    ("CompuRationalCoeffs", "value_type"), ("InternalConstr", "value_type"), ("ScaleConstr", "value_type"),
    ("TableRow", "table_ref"),
}
DERIVED_FIELDS = {
    ("SpecialDataGroup", "sdg_caption"): lambda o: getattr(o, "sdg_caption_ref", None) is not None,
    ("EnvironmentDataDescription", "env_datas"): lambda o: bool(getattr(o, "env_data_refs", None)),
}


def is_context(clsname, fname):
    for c, f in CONTEXT_FIELDS:
        if f == fname and (c == "*" or c == clsname or (c.startswith("*") and clsname.endswith(c[1:])) or (c.endswith("*") and clsname.startswith(c[:-1]))):
            return True
    return False


class TreeOpts:
    """how document-fragment information is rendered in an image

    links : an OdxLinkDatabase -> an ODXLINK reference is rendered as (ref_id, identity of the object it resolves to)
            instead of (ref_id, ref_docs): a reference written with an explicit DOCREF and one that relies on the
            enclosing document denote the same object (default materialisation, not a loss)
    mask  : True -> `doc_fragments` / `ref_docs` lists are not rendered at all (single-field perturbations: the
            fragments of every id below a renamed layer change as a consequence of the one perturbed SHORT-NAME)
    by_id : True -> an object that carries an ODXLINK id is rendered as a reference (class, short name, id) and not
            expanded (images of the *effective* state of a layer: which objects a layer ends up with; what these
            objects contain is already in the image of the container lists)"""

    def __init__(self, links=None, mask=False, by_id=False):
        self.links, self.mask, self.by_id = links, mask, by_id


def _resolve(links, ref):
    try:
        import warnings
        with warnings.catch_warnings():
            warnings.simplefilter("ignore")
            return links.resolve_lenient(ref)
    except Exception:
        return None


def tree(obj, _stack=None, opts=None):
    """plain-data image; dataclass -> ("dc", ClassName, [(field, image), ...])"""
    if _stack is None:
        _stack = set()
    if obj is None or isinstance(obj, (bool, int, str)):
        return obj
    if isinstance(obj, float):
        return ("float", repr(obj))
    if isinstance(obj, (bytes, bytearray)):
        return ("bytes", bytes(obj).hex())
    if isinstance(obj, enum.Enum):
        return ("enum", type(obj).__name__, obj.name)
    if is_dc(obj):
        if id(obj) in _stack:
            return ("cycle", type(obj).__name__)
        if opts is not None and opts.by_id:
            oid = getattr(obj, "odx_id", None)
            if oid is not None and hasattr(oid, "local_id"):
                return ("ref", type(obj).__name__, getattr(obj, "short_name", None), oid.local_id,
                        [getattr(d, "doc_name", None) for d in getattr(oid, "doc_fragments", [])])
        _stack.add(id(obj))
        fields = []
        for f in public_fields(obj):
            v = getattr(obj, f.name, ("missing",))
            der = DERIVED_FIELDS.get((type(obj).__name__, f.name))
            if der is not None and (der(obj) or (opts is not None and opts.mask)):
                continue        # (perturbation pass: the value may be a stale product of an earlier refresh)
            if opts is not None and opts.mask and is_context(type(obj).__name__, f.name):
                continue
            if opts is not None and f.name in ("ref_docs", "doc_fragments"):
                if opts.mask:
                    continue
                if opts.links is not None and f.name == "ref_docs" and hasattr(obj, "ref_id"):
                    tgt = _resolve(opts.links, obj)
                    tid = getattr(tgt, "odx_id", None)
                    if tid is not None:
                        fields.append(("ref_docs", ("target", tree(tid, _stack, None))))
                        continue
            fields.append((f.name, tree(v, _stack, opts)))
        out = ("dc", type(obj).__name__, fields)
        _stack.discard(id(obj))
        return out
    if isinstance(obj, dict):
        return ("dict", [(tree(k, _stack, opts), tree(v, _stack, opts)) for k, v in obj.items()])
    if isinstance(obj, (list, tuple)) or type(obj).__name__ == "NamedItemList":
        return ("list", [tree(x, _stack, opts) for x in obj])
    if type(obj).__name__ == "Version":
        return ("version", str(obj))
    if opts is not None and opts.by_id:
        try:    # helper objects of the layer API (ServiceBinner ...): what they print, addresses removed
            import re
            return ("text", type(obj).__name__, re.sub(r" at 0x[0-9a-fA-F]+", "", str(obj))[:4000])
        except Exception as e:
            return ("text", type(obj).__name__, "raises:" + type(e).__name__)
    return ("opaque", type(obj).__name__, repr(obj)[:200])


def diff(a, b, path="", owner=None, fld=None, out=None, limit=50):
    """differences between two images: list of dicts {path, cls, field, left, right}"""
    if out is None:
        out = []
    if len(out) >= limit:
        return out
    if a == b:
        return out
    if (isinstance(a, tuple) and isinstance(b, tuple) and len(a) >= 2 and len(b) >= 2 and a[0] == b[0]):
        if a[0] == "dc" and a[1] == b[1]:
            fa, fb = dict(a[2]), dict(b[2])
            for k in list(fa) + [k for k in fb if k not in fa]:
                diff(fa.get(k, ("missing",)), fb.get(k, ("missing",)), f"{path}.{k}", a[1], k, out, limit)
            return out
        if a[0] == "list" and len(a[1]) == len(b[1]):
            for i, (x, y) in enumerate(zip(a[1], b[1])):
                diff(x, y, f"{path}[{i}]", owner, fld, out, limit)
            return out
        if a[0] == "dict" and [k for k, _ in a[1]] == [k for k, _ in b[1]]:
            for (k, x), (_, y) in zip(a[1], b[1]):
                diff(x, y, f"{path}[{k!r}]", owner, fld, out, limit)
            return out
    out.append({"path": path, "cls": owner, "field": fld, "left": brief(a), "right": brief(b)})
    return out


def brief(x, n=120):
    if isinstance(x, tuple) and x and x[0] == "dc":
        return f"<{x[1]}>"
    if isinstance(x, tuple) and x and x[0] == "list":
        return f"<list of {len(x[1])}: {[brief(e, 30) for e in x[1][:4]]}>"
    s = repr(x)
    return s if len(s) <= n else s[:n] + "..."


def db_tree(db, resolve=False, mask=False):
    """image of a whole database: the three container lists + model version"""
    opts = None
    if mask:
        opts = TreeOpts(mask=True)
    elif resolve and getattr(db, "_odxlinks", None) is not None:
        opts = TreeOpts(links=db._odxlinks)
    return ("dc", "Database", [
        ("model_version", tree(db.model_version)),
        ("diag_layer_containers", tree(list(db.diag_layer_containers), None, opts)),
        ("comparam_subsets", tree(list(db.comparam_subsets), None, opts)),
        ("comparam_specs", tree(list(db.comparam_specs), None, opts)),
    ])


# ------------------------------------------------------------------------------------------------
# the *effective* state of a loaded database: what Database.refresh() / _finalize_init() derive from the described
# attributes (objects a layer ends up with after inheritance, overriding and NOT-INHERITED-*, the communication parameters
# that apply to it, its protocols) and what the query API of a layer answers.  Nothing is listed by hand: every public
# property of the layer's class and every query method that can be called with at most a protocol is evaluated.
def _public_properties(cls):
    import functools
    names = []
    for k in cls.__mro__:
        for n, v in vars(k).items():
            if not n.startswith("_") and isinstance(v, (property, functools.cached_property)) and n not in names:
                names.append(n)
    return sorted(names)


def _protocol_queries(cls):
    """public methods whose only parameter (besides self) is an optional `protocol`"""
    import inspect
    out = []
    for n in sorted(dir(cls)):
        if n.startswith("_"):
            continue
        f = getattr(cls, n, None)
        if not inspect.isfunction(f):
            continue
        try:
            ps = list(inspect.signature(f).parameters.values())[1:]
        except (TypeError, ValueError):
            continue
        if [p.name for p in ps] == ["protocol"] and ps[0].default is not inspect.Parameter.empty:
            out.append(n)
    return out


def _guard(fn, opts):
    import warnings
    try:
        with warnings.catch_warnings():
            warnings.simplefilter("ignore")
            return tree(fn(), None, opts)
    except Exception as e:
        return ("raises", type(e).__name__)


def layer_effective(dl, links=None):
    """[(name, image)] for one diagnostic layer"""
    opts = TreeOpts(links=links, by_id=True)
    cls = type(dl)
    out = []
    for n in _public_properties(cls):
        if n.endswith("_raw"):
            continue        # the described attributes themselves: in the image of the container lists
        out.append((n, _guard(lambda: getattr(dl, n), opts)))
    queries = _protocol_queries(cls)
    if queries or hasattr(dl, "get_comparam"):
        try:
            prots = [None] + [p.short_name for p in dl.protocols]
        except Exception:
            prots = [None]
        try:
            cp_names = sorted({cp.short_name for cp in dl.comparam_refs})
        except Exception:
            cp_names = []
        for pr in prots:
            for q in queries:
                out.append((f"{q}({pr})", _guard(lambda: getattr(dl, q)(protocol=pr), opts)))
            if hasattr(dl, "get_comparam"):
                for c in cp_names:
                    out.append((f"get_comparam({c},{pr})", _guard(lambda: dl.get_comparam(c, protocol=pr), opts)))
    return out


def resolved_image(db):
    """[(path:Class.property, image)]: for every dataclass object below the database (containers in the order of their short
    names) every public property that answers with a scalar, an object carrying an ODXLINK id or a list -- the references
    refresh() resolved (request / responses of a service, DOP of a parameter, table of a key, layer of a PARENT-REF,
    subsets of a PROT-STACK ...) and what the objects compute from them (is_required, bit lengths ...)"""
    import warnings
    opts = TreeOpts(links=getattr(db, "_odxlinks", None), by_id=True)
    out, props, seen = [], {}, set()
    roots = [("dlc", db.diag_layer_containers), ("cs", db.comparam_subsets), ("cspec", db.comparam_specs)]
    for rname, lst in roots:
        for top in sorted(lst, key=lambda c: c.short_name):
            for path, obj in walk(top, f"{rname}[{top.short_name}]", seen):
                cls = type(obj)
                if cls not in props:
                    props[cls] = _public_properties(cls)
                for n in props[cls]:
                    key = f"{path}:{cls.__name__}.{n}"
                    try:
                        with warnings.catch_warnings():
                            warnings.simplefilter("ignore")
                            v = getattr(obj, n)
                    except Exception as e:
                        out.append((key, ("raises", type(e).__name__)))
                        continue
                    if (v is None or isinstance(v, (bool, int, str, float, bytes, bytearray, enum.Enum)) or hasattr(v, "odx_id")
                            or isinstance(v, (list, tuple)) or type(v).__name__ == "NamedItemList"):
                        out.append((key, tree(v, None, opts)))
    return out


def effective_tree(db):
    """image of the derived state of a loaded database: per layer (sorted by container and short name) its effective
    properties and query results, and the layer lists of the database (sorted by short name: they follow the container order)"""
    links = getattr(db, "_odxlinks", None)
    opts = TreeOpts(links=links, by_id=True)
    layers = []
    for dlc in sorted(db.diag_layer_containers, key=lambda c: c.short_name):
        for dl in dlc.diag_layers:
            layers.append((dlc.short_name + "/" + dl.short_name, ("dc", type(dl).__name__, layer_effective(dl, links))))
    lists = []
    for n in _public_properties(type(db)):
        if n in ("odxlinks", "short_name", "diag_layer_containers", "comparam_subsets", "comparam_specs"):
            continue
        v = _guard(lambda: getattr(db, n), opts)
        if isinstance(v, tuple) and v and v[0] == "list":
            v = ("list", sorted(v[1], key=repr))
        lists.append((n, v))
    try:
        resolved = ("dc", "Resolved", resolved_image(db))
    except Exception as e:
        resolved = ("raises", type(e).__name__)
    return ("dc", "EffectiveDatabase", [("layers", ("dc", "Layers", layers)), ("lists", ("dc", "Database", lists)), ("resolved", resolved)])


def sort_containers(img):
    """the same image with the three top-level container lists sorted by short name (C11 order clause:
    equality up to the order of the container lists)"""
    def key(e):
        return [v for k, v in e[2] if k == "short_name"]
    return (img[0], img[1], [(k, ("list", sorted(v[1], key=key)) if k != "model_version" else v) for k, v in img[2]])


# ------------------------------------------------------------------------------------------------
# writer / loader entry points, exceptions as data
def err_class(e):
    if isinstance(e, ElementTree.ParseError):
        return "xml-parse-error"
    try:
        from odxtools.exceptions import OdxError
        if isinstance(e, OdxError):
            return "odx-error"
    except Exception:
        pass
    return "foreign:" + type(e).__name__


def write_db(db):
    """-> (bytes of the PDX, None) or (None, error class)"""
    from odxtools.writepdxfile import write_pdx_file
    fd, name = tempfile.mkstemp(suffix=".pdx", prefix="c11_")
    os.close(fd)
    try:
        for f in getattr(db, "auxiliary_files", {}).values():
            try:
                f.seek(0)
            except Exception:
                pass
        write_pdx_file(name, db)
        with open(name, "rb") as f:
            return f.read(), None
    except Exception as e:
        return None, err_class(e) + ":" + str(e)[:160]
    finally:
        try:
            os.unlink(name)
        except OSError:
            pass


def odx_members(pdx_bytes):
    """{member name: bytes} of the ODX documents of an archive"""
    z = zipfile.ZipFile(io.BytesIO(pdx_bytes))
    return {n: z.read(n) for n in z.namelist() if os.path.splitext(n)[1].lower().startswith(".odx")}


def all_members(pdx_bytes):
    z = zipfile.ZipFile(io.BytesIO(pdx_bytes))
    return {n: z.read(n) for n in z.namelist()}


def load_pdx_bytes(pdx_bytes, refresh=True):
    """Database.add_pdx_file on an in-memory archive"""
    from odxtools.database import Database
    try:
        db = Database()
        db.add_pdx_file(io.BytesIO(pdx_bytes))
        if refresh:
            db.refresh()
        return db, None
    except Exception as e:
        return None, err_class(e) + ":" + str(e)[:400]


def load_trees(members, order=None, refresh=True):
    """Database._process_xml_tree over the ODX members in the given order"""
    from odxtools.database import Database
    try:
        db = Database()
        for n in (order or list(members)):
            db._process_xml_tree(ElementTree.fromstring(members[n]))
        if refresh:
            db.refresh()
        return db, None
    except Exception as e:
        return None, err_class(e) + ":" + str(e)[:160]


# ------------------------------------------------------------------------------------------------
# namesake documents: an ODX document is identified by its short name AND its type (DOCREF + DOCTYPE; OdxDocFragment is the
# pair), so documents of different categories — and a document and a diagnostic layer — may carry the same name.
DOC_CATEGORIES = {"DIAG-LAYER-CONTAINER": ("dlc", "CONTAINER", ".odx-d"), "COMPARAM-SUBSET": ("subset", "COMPARAM-SUBSET", ".odx-cs"),
                  "COMPARAM-SPEC": ("spec", "COMPARAM-SPEC", ".odx-c")}
LAYER_GROUPS = ("PROTOCOLS", "FUNCTIONAL-GROUPS", "ECU-SHARED-DATAS", "BASE-VARIANTS", "ECU-VARIANTS")


def doc_info(data):
    """category ('dlc' | 'subset' | 'spec'), DOCTYPE, file suffix, short name and layer short names of an ODX document"""
    root = ElementTree.fromstring(data)
    for tag, (kind, doctype, suffix) in DOC_CATEGORIES.items():
        el = root.find(tag)
        if el is not None:
            layers = [x.findtext("SHORT-NAME") for grp in el if grp.tag in LAYER_GROUPS for x in grp]
            return {"tag": tag, "kind": kind, "doctype": doctype, "suffix": suffix, "name": el.findtext("SHORT-NAME"), "layers": layers}
    raise ValueError("no category element")


def rename_document(members, fname, new):
    """the file set with the document in member `fname` renamed to `new`: its SHORT-NAME, every DOCREF to it (same DOCTYPE) in
    every member and the member name (<short name><suffix>, as the writer names it); everything else byte for byte"""
    import re
    info = doc_info(members[fname])
    old, doctype = info["name"], info["doctype"]
    new_fname = new + info["suffix"]
    if new_fname != fname and new_fname in members:
        raise ValueError("member name taken: " + new_fname)

    def fix_tag(m):
        t = m.group(0)
        if f'DOCREF="{old}"' in t and f'DOCTYPE="{doctype}"' in t:
            return t.replace(f'DOCREF="{old}"', f'DOCREF="{new}"')
        return t

    out = {}
    for n, data in members.items():
        text = data.decode("utf-8")
        if n == fname:
            text, cnt = re.subn(r"(<" + info["tag"] + r"\b[^>]*>\s*<SHORT-NAME>)" + re.escape(old) + r"(</SHORT-NAME>)",
                                lambda m: m.group(1) + new + m.group(2), text, count=1)
            if cnt != 1:
                raise ValueError("SHORT-NAME of the category element not found in " + fname)
        text = re.sub(r"<[A-Za-z][^<>]*\bDOCREF=[^<>]*>", fix_tag, text)
        out[new_fname if n == fname else n] = text.encode("utf-8")
    return out


def load_isolated(members, aux=None, refresh=True):
    """the database the documents describe, without any loader call history: every document is parsed by a Database object of
    its own and the parsed containers are put together (as a program that builds a database does); -> (db | None, error)"""
    from odxtools.database import Database
    try:
        db = Database()
        for n, data in (aux or {}).items():
            db.add_auxiliary_file(n, io.BytesIO(data))
        for n in sorted(members):
            one = Database()
            one._process_xml_tree(ElementTree.fromstring(members[n]))
            db.diag_layer_containers.extend(one.diag_layer_containers)
            db.comparam_subsets.extend(one.comparam_subsets)
            db.comparam_specs.extend(one.comparam_specs)
            db.model_version = one.model_version
        if refresh:
            db.refresh()
        return db, None
    except Exception as e:
        return None, err_class(e) + ":" + str(e)[:160]


# ------------------------------------------------------------------------------------------------
# perturbation sites
def walk(obj, path="", _seen=None):
    """yield (path, dataclass object) for every dataclass object below obj (each object once)"""
    if _seen is None:
        _seen = set()
    if is_dc(obj):
        if id(obj) in _seen:
            return
        _seen.add(id(obj))
        yield path, obj
        for f in public_fields(obj):
            yield from walk(getattr(obj, f.name, None), f"{path}.{f.name}", _seen)
    elif isinstance(obj, dict):
        for k, v in obj.items():
            yield from walk(v, f"{path}[{k!r}]", _seen)
    elif isinstance(obj, (list, tuple)) or type(obj).__name__ == "NamedItemList":
        for i, x in enumerate(obj):
            yield from walk(x, f"{path}[{i}]", _seen)


def db_roots(db):
    return [("dlc", list(db.diag_layer_containers)), ("cs", list(db.comparam_subsets)), ("cspec", list(db.comparam_specs))]


def db_objects(db):
    seen = set()
    for name, root in db_roots(db):
        yield from walk(root, name, seen)


def resolve_path(db, path):
    """object at a path produced by db_objects"""
    import re
    roots = dict(db_roots(db))
    m = re.match(r"^(\w+)", path)
    cur = roots[m.group(1)]
    for tok in re.findall(r"\.(\w+)|\[(\d+)\]|\['([^']*)'\]", path[m.end():]):
        if tok[0]:
            cur = getattr(cur, tok[0])
        elif tok[1]:
            cur = cur[int(tok[1])]
        else:
            cur = cur[tok[2]]
    return cur


def type_hints(cls):
    """field name -> annotation string (as written in the source; robust against TYPE_CHECKING imports)"""
    out = {}
    for f in dataclasses.fields(cls):
        t = f.type
        out[f.name] = t if isinstance(t, str) else getattr(t, "__name__", None) and (str(t) if typing.get_origin(t) else t.__name__) or str(t)
    return out


# ------------------------------------------------------------------------------------------------
# single-field perturbations
META = ['a&b<c>d"e\'fü€', "x<&>\"'y", "&amp;&lt;]]>é", "<!--q-->'\"&#38;z"]


def _unwrap(t):
    """-> (inner type, optional?)"""
    if typing.get_origin(t) is typing.Union:
        args = [a for a in typing.get_args(t) if a is not type(None)]
        opt = len(args) != len(typing.get_args(t))
        if len(args) == 1:
            return args[0], opt
        return typing.Union[tuple(args)], opt
    return t, False


def _elem_classes(t):
    """dataclass classes mentioned by a (possibly generic / union) type"""
    out = []
    if isinstance(t, type):
        if dataclasses.is_dataclass(t):
            out.append(t)
        return out
    for a in typing.get_args(t):
        out += _elem_classes(a)
    return out


def hints_of(cls, _cache={}):
    if cls not in _cache:
        try:
            _cache[cls] = typing.get_type_hints(cls)
        except Exception:
            _cache[cls] = {}
    return _cache[cls]


class Pool:
    """donor objects, harvested from the loaded databases, keyed by the *field name* under which they were found
    (used to make an absent optional element present / to lengthen an empty list).  A donor is only used for a
    field of the same name: an element taken from another kind of slot (a positive response put into
    NEG-RESPONSES) would not be an object the parser can produce."""

    def __init__(self):
        self.by_field = {}

    def harvest(self, db):
        for _, o in db_objects(db):
            for f in public_fields(o):
                v = getattr(o, f.name, None)
                items = [v] if is_dc(v) else (list(v) if isinstance(v, list) else [])
                for it in items:
                    if is_dc(it):
                        self.by_field.setdefault(f.name, []).append(it)

    def donor(self, classes, k=0, field=None):
        cands = [o for o in self.by_field.get(field, []) if any(isinstance(o, c) for c in classes)]
        return cands[k % len(cands)] if cands else None


def _scalar_variants(cur, k):
    """new values for a scalar of the same Python type as `cur` (k selects a variant)"""
    if isinstance(cur, bool):
        return [("flip", not cur)]
    if isinstance(cur, int):
        return [("int", v) for v in ([cur + 1, 0, cur + 7, 1] if k % 2 == 0 else [0, cur + 1, 1, cur + 7]) if v != cur]
    if isinstance(cur, float):
        return [("float", v) for v in (cur + 0.5, cur * 2 + 1.25, 0.0) if v != cur]
    if isinstance(cur, str):
        m = META[k % len(META)]
        return [("meta-string", m), ("meta-string", cur + m), ("plain-string", (cur or "v") + "_x")]
    if isinstance(cur, (bytes, bytearray)):
        return [("bytes", type(cur)(b"\x5a" + bytes(cur)))]
    if isinstance(cur, enum.Enum):
        ms = list(type(cur))
        i = ms.index(cur)
        return [("enum", ms[(i + 1 + j) % len(ms)]) for j in range(len(ms) - 1)]
    return []


def _absent_variants(inner, k, pool, field=None):
    """new values for a field that is None now, from its declared type"""
    out = []
    if typing.get_origin(inner) is typing.Union:
        for a in typing.get_args(inner):
            out += _absent_variants(a, k, pool, field)
        return out
    if inner is bool:
        return [("bool-present", k % 2 == 0), ("bool-present", k % 2 == 1)]
    if inner is int:
        return [("int-present", v) for v in ((3, 0, 1) if k % 2 == 0 else (0, 3, 1))]
    if inner is float:
        return [("float-present", 1.5), ("float-present", 0.0)]
    if inner is str:
        m = META[k % len(META)]
        return [("meta-string-present", m), ("plain-string-present", "v_x")]
    if isinstance(inner, type) and issubclass(inner, enum.Enum):
        ms = list(inner)
        return [("enum-present", ms[(k + j) % len(ms)]) for j in range(len(ms))]
    if isinstance(inner, type) and inner in (bytes, bytearray):
        return [("bytes-present", inner(b"\x5a\xa5"))]
    classes = _elem_classes(inner)
    origin = typing.get_origin(inner)
    if origin in (list, typing.List) or (isinstance(origin, type) and issubclass(origin, list)):
        d = pool.donor(classes, k, field) if classes else None
        if d is not None:
            return [("list-present", _mklist(origin, [d]))]
        args = typing.get_args(inner)
        if args and args[0] is str:
            return [("list-present", [META[k % len(META)]])]
        return []
    if classes:
        d = pool.donor(classes, k, field)
        if d is not None:
            return [("element-present", d)]
    return []


def _mklist(origin, items):
    if isinstance(origin, type) and origin.__name__ == "NamedItemList":
        return origin(items)
    return list(items)


MARKUP_FIELDS = {("Description", "text")}     # serialized XHTML by design (Description.from_et), written verbatim
MARKUP = ["<p>a &amp; b &lt; c &gt; d \"e\" 'f' \u00fc\u20ac</p>", "<p>x</p>\n<ul><li>1 &lt; 2</li></ul>"]


def variants(obj, fname, k, pool):
    """candidate perturbations [(kind, new value)] of one field of one object, best first"""
    cur = getattr(obj, fname)
    if (type(obj).__name__, fname) in MARKUP_FIELDS:
        return [("markup-string", MARKUP[k % len(MARKUP)])]
    hint = hints_of(type(obj)).get(fname)
    inner, opt = _unwrap(hint) if hint is not None else (None, False)
    out = []
    if cur is None:
        if inner is not None:
            out += _absent_variants(inner, k, pool, fname)
        return out
    if is_dc(cur):
        if opt:
            out.append(("element-absent", None))
        return out
    if isinstance(cur, dict):
        return out
    if isinstance(cur, (list, tuple)) or type(cur).__name__ == "NamedItemList":
        items = list(cur)
        mk = (lambda xs: type(cur)(xs)) if type(cur).__name__ == "NamedItemList" else (lambda xs: type(cur)(xs))
        if items:
            out.append(("list-shorter", mk(items[:-1])))
            if all(isinstance(x, (str, int, float, bytes, bytearray)) and not isinstance(x, bool) for x in items):
                v = _scalar_variants(items[0], k)
                if v:
                    out.append(("list-item-" + v[0][0], mk([v[0][1]] + items[1:])))
            elif len(items) >= 2 and not type(cur).__name__ == "NamedItemList":
                out.append(("list-swapped", mk([items[1], items[0]] + items[2:])))
        else:
            classes = _elem_classes(inner) if inner is not None else []
            d = pool.donor(classes, k, fname) if classes else None
            if d is not None:
                out.append(("list-longer", mk([d])))
            elif inner is not None and typing.get_args(inner) and typing.get_args(inner)[0] is str:
                out.append(("list-longer", mk([META[k % len(META)]])))
        if opt:
            out.append(("list-absent", None))
        return out
    out += _scalar_variants(cur, k)
    if opt:
        out.append(("scalar-absent", None))
    return out


# string fields the parser takes from `element.text`: an empty element has text None, so "" is not a value any document yields
EMPTY_IS_ABSENT = {("Limit", "value_raw")}


def declaring_class(obj, fname):
    """name of the most basic class in the MRO that declares the dataclass field (root-cause oriented signatures)"""
    name = type(obj).__name__
    for klass in type(obj).__mro__:
        if fname in getattr(klass, "__annotations__", {}):
            name = klass.__name__
    return name


def falsy_variants(obj, fname):
    """falsy-but-present boundary values of a scalar field (0, 0.0, False, "" for optional strings): a template that
    tests `{% if x %}` instead of `{% if x is not none %}` drops exactly these"""
    if (type(obj).__name__, fname) in MARKUP_FIELDS:
        return []
    cur = getattr(obj, fname)
    hint = hints_of(type(obj)).get(fname)
    if hint is None or fname in ("ref_docs", "doc_fragments"):
        return []
    inner, opt = _unwrap(hint)
    members = typing.get_args(inner) if typing.get_origin(inner) is typing.Union else (inner,)
    if cur is not None:
        members = [t for t in members if t is type(cur)]    # the type is fixed by context (e.g. the DIAG-CODED-TYPE of a CODED-VALUE)
    if fname.endswith("snref") or fname.endswith("snpathref") or (type(obj).__name__, fname) in EMPTY_IS_ABSENT:
        members = [t for t in members if t is not str]      # a short-name reference cannot be empty (ODX SHORT-NAME pattern)
    out = []
    for t in members:
        if t is bool:
            out.append(("falsy-bool", False))
        elif t is int:
            out.append(("falsy-int", 0))
        elif t is float:
            out.append(("falsy-float", 0.0))
        elif t is str and opt:
            out.append(("falsy-str", ""))
    seen, res = set(), []
    for kind, v in out:
        if (type(v), v) in seen or (type(cur) is type(v) and cur == v):
            continue
        seen.add((type(v), v))
        res.append((kind, v))
    return res


# numbers at the edges of the number representations a writer / parser pair can pass a value through: a value that is
# spelled differently by the writer than in the source (hexadecimal -> decimal, shortest float repr -> fixed precision),
# detours through a double (exact only below 2**53), a 32 / 64 bit machine integer or a single-precision float comes back
# altered only out there; all small values (which is what documents usually contain) survive
WIDE_INTS = [(1 << 53) + 1,          # the first integer that is not a double
             (1 << 64) - 1,          # 64 bits all ones (a double rounds it to 2**64; does not fit a signed 64 bit integer)
             -((1 << 63) - 1),       # most negative 64 bit two's complement value + 1 (not a double either)
             (1 << 32) + 1,          # does not fit 32 bits (the ODX type names say A_UINT32 / A_INT32; Python integers are unbounded)
             -((1 << 31) + 1)]
WIDE_FLOATS = [0.1 + 0.2,                   # 0.30000000000000004: needs all 17 significant digits
               123456789.12345679,          # 17 digits, no exponent
               -1.7976931348623157e308,     # largest magnitude
               5e-324,                      # smallest subnormal
               1e22,                        # repr uses an exponent with sign ("1e+22")
               16777217.0]                  # 2**24 + 1: not a single-precision float


def _wide_of(t):
    if t is int:
        return [("wide-int", v) for v in WIDE_INTS]
    if t is float:
        return [("wide-float", v) for v in WIDE_FLOATS]
    return []


def wide_variants(obj, fname):
    """wide numbers for an integer / float valued field, or for the first item of a list of numbers (CODED-VALUES,
    COMPU-NUMERATOR/V ...).  As in `falsy_variants` the value keeps the Python type the field (item) has now: the type is
    fixed by the context (DIAG-CODED-TYPE of a CODED-VALUE, value type of the coefficients); a field that is absent now
    gets the numeric members of its declared type"""
    if (type(obj).__name__, fname) in MARKUP_FIELDS or fname in ("ref_docs", "doc_fragments"):
        return []
    cur = getattr(obj, fname)
    if is_listlike(cur):
        items = list(cur)
        if not items or isinstance(items[0], bool) or type(items[0]) not in (int, float):
            return []
        if not all(isinstance(x, (int, float)) and not isinstance(x, bool) for x in items):
            return []
        return [(kind + "-item", type(cur)([v] + items[1:])) for kind, v in _wide_of(type(items[0])) if v != items[0]]
    hint = hints_of(type(obj)).get(fname)
    if hint is None:
        return []
    inner, opt = _unwrap(hint)
    members = typing.get_args(inner) if typing.get_origin(inner) is typing.Union else (inner,)
    if cur is not None:
        members = [t for t in members if t is type(cur)]
    out = []
    for t in members:
        out += [(kind, v) for kind, v in _wide_of(t) if not (type(cur) is type(v) and cur == v)]
    return out


def wide_sites(db):
    """[(path, class, field, number kind)] — the fields below a database that take a wide number; kind = Python type of the
    current value (`int`, `float`, `int-item`, `float-item`) or `absent`"""
    out = []
    for path, o in db_objects(db):
        cls = type(o).__name__
        for f in public_fields(o):
            if (cls, f.name) in DERIVED_FIELDS or is_context(cls, f.name):
                continue
            if not wide_variants(o, f.name):
                continue
            cur = getattr(o, f.name)
            kind = "absent" if cur is None else (type(list(cur)[0]).__name__ + "-item" if is_listlike(cur) else type(cur).__name__)
            out.append((path, cls, f.name, kind))
    return out


def is_listlike(v):
    return isinstance(v, (list, tuple)) or type(v).__name__ == "NamedItemList"


def kinds_of(items):
    """element kinds of a list in order of first appearance (class names: OdxLinkRef vs TableRow, parameter classes, ...)"""
    out = []
    for x in items:
        n = type(x).__name__
        if n not in out:
            out.append(n)
    return out


MAX_ORDER_VARIANTS = 8


def order_variants(obj, fname):
    """re-orderings of a list-valued field with at least two items.  The document order of the children of an element is
    part of what the parser reads (lists keep their order in the images), so write -> load must return every order the
    in-memory database can have, not only the orders the parser itself produces: a parser (or template) that groups the
    children by kind, sorts or de-duplicates them maps all databases it loads onto fixpoints of write -> load and is
    invisible to round trips that start from a loaded document.
      * lists that mix element kinds (TABLE-ROW-REF | TABLE-ROW, DIAG-COMM-REF | DIAG-SERVICE | SINGLE-ECU-JOB,
        DTC-REF | DTC, the parameter classes of PARAMS): every stable partition "kind K first" / "kind K last", and the
        strict alternation of the two most frequent kinds
      * every list: reversed, rotated by one, first two swapped"""
    cur = getattr(obj, fname, None)
    if not is_listlike(cur) or len(cur) < 2 or fname in ("ref_docs", "doc_fragments"):
        return []
    items = list(cur)
    mk = type(cur)
    cands = []
    kinds = kinds_of(items)
    if len(kinds) > 1:
        for kd in kinds:
            a, b = [x for x in items if type(x).__name__ == kd], [x for x in items if type(x).__name__ != kd]
            cands.append((f"order-{kd}-first", a + b))
            cands.append((f"order-{kd}-last", b + a))
        by = sorted(kinds, key=lambda kd: -sum(1 for x in items if type(x).__name__ == kd))[:2]
        a, b = [x for x in items if type(x).__name__ == by[0]], [x for x in items if type(x).__name__ == by[1]]
        rest = [x for x in items if type(x).__name__ not in by]
        inter = [x for pair in zip(a, b) for x in pair] + a[len(b):] + b[len(a):]
        cands.append(("order-interleaved", inter + rest))
        cands.append(("order-interleaved", [x for pair in zip(b, a) for x in pair] + b[len(a):] + a[len(b):] + rest))
    cands.append(("order-reversed", items[::-1]))
    cands.append(("order-rotated", items[1:] + items[:1]))
    cands.append(("order-swapped", [items[1], items[0]] + items[2:]))
    seen, out = {tuple(id(x) for x in items)}, []
    for kind, xs in cands:
        key = tuple(id(x) for x in xs)
        if key in seen:
            continue
        seen.add(key)
        out.append((kind, mk(xs)))
    # heterogeneous partitions first, but never without the plain reversal
    if len(out) > MAX_ORDER_VARIANTS:
        keep = out[:MAX_ORDER_VARIANTS - 1]
        rev = [v for v in out if v[0] == "order-reversed" and v not in keep]
        out = keep + (rev[:1] or out[MAX_ORDER_VARIANTS - 1:MAX_ORDER_VARIANTS])
    return out


def order_sites(db):
    """[(path, class, field, kinds, length)] — the list-valued public fields with at least two items below a database"""
    out = []
    for path, o in db_objects(db):
        cls = type(o).__name__
        for f in public_fields(o):
            v = getattr(o, f.name, None)
            if not is_listlike(v) or len(v) < 2 or f.name in ("ref_docs", "doc_fragments"):
                continue
            if (cls, f.name) in DERIVED_FIELDS or is_context(cls, f.name):
                continue
            out.append((path, cls, f.name, tuple(sorted(kinds_of(v))), len(v)))
    return out


def encode_value(kind, v):
    """JSON description of a perturbation value (for witnesses / messages)"""
    if v is None or isinstance(v, (bool, int, float, str)):
        return {"kind": kind, "value": v}
    if isinstance(v, enum.Enum):
        return {"kind": kind, "value": f"{type(v).__name__}.{v.name}"}
    if isinstance(v, (bytes, bytearray)):
        return {"kind": kind, "value": bytes(v).hex()}
    if is_dc(v):
        return {"kind": kind, "value": f"<{type(v).__name__} donor>"}
    if isinstance(v, list) and kind.startswith("wide"):
        return {"kind": kind, "value": [x if isinstance(x, (int, float)) else repr(x) for x in v[:8]]}
    if isinstance(v, list):
        return {"kind": kind, "value": f"<list of {len(v)}>"}
    return {"kind": kind, "value": repr(v)[:80]}


def sites(db):
    """[(path, class name, field name)] — every public dataclass field of every object below the database"""
    out = []
    for path, o in db_objects(db):
        for f in public_fields(o):
            out.append((path, type(o).__name__, f.name))
    return out


DONOR_KINDS = ("element-present", "list-present", "list-longer")
ALT_SUFFIXES = ("_snpathref", "_snref", "_ref")


def alternatives(obj, fname):
    """sibling fields that ODX makes mutually exclusive with `fname` (X-REF | X-SNREF | X-SNPATHREF)"""
    if fname in ("sdg_caption", "sdg_caption_ref"):
        return ["sdg_caption_ref" if fname == "sdg_caption" else "sdg_caption"]
    for suf in ALT_SUFFIXES:
        if fname.endswith(suf):
            base = fname[:-len(suf)]
            names = {f.name for f in dataclasses.fields(obj)}
            return [base + s2 for s2 in ALT_SUFFIXES if s2 != suf and base + s2 in names]
    return []


def _set(obj, name, val):
    object.__setattr__(obj, name, val)      # (frozen dataclasses: OdxLinkId, OdxLinkRef, OdxDocFragment)


def _quiet_refresh(db):
    import warnings
    try:
        with warnings.catch_warnings():
            warnings.simplefilter("ignore")
            db.refresh()
        return True
    except Exception:
        return False


def foreign_fragment(obj):
    """a ref_docs value naming another document (what an explicit DOCREF/DOCTYPE expresses)"""
    cur = list(getattr(obj, "ref_docs"))
    frag_cls = type(cur[0]) if cur else None
    if frag_cls is None:
        return None
    doc_type = cur[0].doc_type
    return [frag_cls("other_doc", doc_type)]


def baseline(db):
    """differences between a (refreshed) database and its written-and-parsed (unrefreshed) image that exist
    without any perturbation — e.g. public fields that refresh() fills in (SDG caption of an SDG-CAPTION-REF).
    They are findings of the main round trip if they are findings at all; the perturbation pass ignores them."""
    pdx, err = write_db(db)
    if pdx is None:
        return None
    db2, err = load_pdx_bytes(pdx, refresh=False)
    if db2 is None:
        return None
    return {(d["path"], d["left"], d["right"]) for d in diff(db_tree(db, mask=True), db_tree(db2, mask=True), limit=2000)}


ROOT_NAMES = {"dlc": ".diag_layer_containers", "cs": ".comparam_subsets", "cspec": ".comparam_specs"}


def image_path(path):
    """object path (db_objects) -> path of the same object in a database image (diff)"""
    for short, long in ROOT_NAMES.items():
        if path.startswith(short + "["):
            return long + path[len(short):]
    return path


def moved_baseline(base, path, fname, perm):
    """the baseline differences (which are keyed by path) after the items of the list `fname` of the object at `path` were
    re-ordered: new position j holds the item of old position perm[j].  Only the index in the paths below that list
    changes; nothing is added to or removed from the baseline."""
    import re
    if not base:
        return base
    prefix = image_path(path) + "." + fname + "["
    inv = {old: new for new, old in enumerate(perm) if old is not None}
    out = set()
    for p, left, right in base:
        if p.startswith(prefix):
            m = re.match(r"(\d+)\]", p[len(prefix):])
            if m and int(m.group(1)) in inv:
                p = prefix + str(inv[int(m.group(1))]) + p[len(prefix) + len(m.group(1)):]
        out.add((p, left, right))
    return out


def typed_by_owner(db, path, obj, fname, vs):
    """BASE-DATA-TYPE of the DIAG-CODED-TYPE of a CODED-CONST / NRC-CONST parameter: the parser types CODED-VALUE(S) with it
    (`base_data_type.from_string`), so a new base data type of another Python type together with the unchanged coded
    value is an object no document describes (float 0.0 under A_UNICODE2STRING is written "0.0" and read as a string).
    Such a parameter only gets base data types that keep the Python type of its coded values."""
    if fname != "base_data_type" or "." not in path:
        return vs
    try:
        owner = resolve_path(db, path.rsplit(".", 1)[0])
    except Exception:
        return vs
    if getattr(owner, "coded_value", None) is None and not getattr(owner, "coded_values", None):
        return vs
    cur = getattr(obj, fname)
    return [(kd, v) for kd, v in vs if getattr(v, "python_type", None) is getattr(cur, "python_type", None)]


def apply_and_roundtrip(db, path, fname, k, pool, variant_index=None, base=frozenset(), family="default"):
    """(see _apply_and_roundtrip) + `tried_values`: every value that was written, for the families that go through all
    their variants (falsy, order, wide) — one evaluated case each"""
    hist = []
    r = _apply_and_roundtrip(db, path, fname, k, pool, variant_index, base, family, hist)
    if family in ("falsy", "order", "wide"):
        r["tried_values"] = hist
    return r


def _apply_and_roundtrip(db, path, fname, k, pool, variant_index, base, family, hist):
    """perturb one field of the object at `path`, write the database, load the archive (without resolving
    references) and compare the dataclass images.  The field (and anything touched with it) is restored.

    -> dict(status, kind, diffs, tried, why, value, variant)
       status: 'same' | 'diff' | 'xml-parse-error' | 'write-raises' | 'skipped' (no usable variant / the perturbed
               database is rejected by the parser for reasons of its own, e.g. type constraints)"""
    obj = resolve_path(db, path)
    old = getattr(obj, fname)
    is_refdocs = fname == "ref_docs" and hasattr(obj, "ref_id") and family not in ("falsy", "wide")
    if is_refdocs:
        v = foreign_fragment(obj)
        vs = [("docref", v)] if v else []
    elif family == "falsy":
        vs = falsy_variants(obj, fname)
    elif family == "order":
        vs = order_variants(obj, fname)
    elif family == "wide":
        vs = wide_variants(obj, fname)
    else:
        vs = variants(obj, fname, k, pool)
        vs = typed_by_owner(db, path, obj, fname, vs)
    order_base = None
    if variant_index is not None:
        vs = vs[variant_index:variant_index + 1] if variant_index < len(vs) else []
        base_index = variant_index
    else:
        base_index = 0
    last = {"status": "skipped", "kind": None, "diffs": [], "tried": 0, "why": "no-variant", "decl": declaring_class(obj, fname)}
    for n, (kind, new) in enumerate(vs):
        n += base_index
        saved = []
        try:
            if old is None and new is not None:
                for alt in alternatives(obj, fname):
                    if getattr(obj, alt) is not None:
                        saved.append((alt, getattr(obj, alt)))
                        _set(obj, alt, None)
            _set(obj, fname, new)
            _quiet_refresh(db)              # derived values (e.g. TableRow.key) follow the perturbed field
            pdx, err = write_db(db)
            val = encode_value(kind, new)
            if family == "order":       # the permutation (indices into the original list) and the kinds in the new order
                pos = {id(x): i for i, x in enumerate(old)}
                order_base = moved_baseline(base, path, fname, [pos.get(id(x)) for x in new])
                val = {"kind": kind, "value": "order " + str([pos.get(id(x)) for x in new]) + " " + str([type(x).__name__ for x in new][:12])}
            hist.append((kind, str(val.get("value"))))
            if pdx is None:
                last = {"status": "write-raises", "kind": kind, "diffs": [], "tried": n + 1, "why": err, "value": val, "variant": n}
                if kind in DONOR_KINDS:
                    last["status"], last["why"] = "skipped", "donor-unsuitable:" + str(err)
                    continue
                if kind.endswith("absent") or kind.endswith("present") or kind.startswith("meta") or kind.startswith("falsy") or kind.startswith("order") or kind.startswith("wide") or kind in ("flip", "docref", "list-shorter"):
                    return last
                continue
            db2, err = load_pdx_bytes(pdx, refresh=False)
            if db2 is None:
                if err.startswith("xml-parse-error"):
                    return {"status": "xml-parse-error", "kind": kind, "diffs": [], "tried": n + 1, "why": err, "value": val, "variant": n}
                last = {"status": "skipped", "kind": kind, "diffs": [], "tried": n + 1, "why": "load:" + err, "variant": n}
                continue
            if is_refdocs:
                try:
                    got = tree(getattr(resolve_path(db2, path), "ref_docs"))
                except Exception as e:
                    got = ("unreachable", type(e).__name__)
                want = tree(new)
                d = [] if got == want else [{"path": path + ".ref_docs", "cls": type(obj).__name__, "field": "ref_docs", "left": brief(want), "right": brief(got)}]
            else:
                d = [x for x in diff(db_tree(db, mask=True), db_tree(db2, mask=True), limit=400)
                     if (x["path"], x["left"], x["right"]) not in (base if order_base is None else order_base)]
            res = {"status": "diff" if d else "same", "kind": kind, "diffs": d[:6], "tried": n + 1, "value": val, "variant": n}
            if family in ("falsy", "order", "wide") and not d and n + 1 - base_index < len(vs):
                last = res
                continue
            return res
        except Exception as e:  # the harness must survive anything the perturbed object does
            last = {"status": "skipped", "kind": kind, "diffs": [], "tried": n + 1, "why": "harness:" + type(e).__name__ + ":" + str(e)[:100], "variant": n}
        finally:
            _set(obj, fname, old)
            for alt, v in saved:
                _set(obj, alt, v)
            _quiet_refresh(db)
    return last
