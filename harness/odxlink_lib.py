"""C10 helpers: generator of multi-container ODX databases with colliding local IDs / short names, XML
emission, loading through the real parser, extraction of every resolved reference attribute, and the
s-expression lines for the Lean driver `drv_odxlink`."""
import warnings
from xml.etree import ElementTree as ET

CAT_ORDER = ["ECU-SHARED-DATA", "PROTOCOL", "FUNCTIONAL-GROUP", "BASE-VARIANT", "ECU-VARIANT"]
CAT_TAG = {"ECU-SHARED-DATA": "ECU-SHARED-DATAS", "FUNCTIONAL-GROUP": "FUNCTIONAL-GROUPS",
           "BASE-VARIANT": "BASE-VARIANTS", "ECU-VARIANT": "ECU-VARIANTS"}
# DiagLayerType.inheritance_priority (checked against the live enum by the obligation `prio-table-matches-live-enum`)
PRIO = {"PROTOCOL": 1, "FUNCTIONAL-GROUP": 2, "BASE-VARIANT": 3, "ECU-VARIANT": 4, "ECU-SHARED-DATA": 100}
# categories subject to value inheritance that the generator fills
INHERITED = ["dops", "structs", "eopfs", "muxs", "tables", "services"]
# classes (as far as reference resolution asks for them) per generated object kind
CLS = {
    "dop": ["DataObjectProperty", "DopBase"],
    "struct": ["Structure", "BasicStructure", "DopBase"],
    "eopf": ["EndOfPduField", "DopBase"],
    "mux": ["Multiplexer", "DopBase"],
    "table": ["Table"],
    "row": ["TableRow"],
    "request": ["Request"],
    "response": ["Response"],
    "service": ["DiagService", "DiagComm"],
    "layer": ["DiagLayer"],
    "tkey": ["TableKeyParameter", "Parameter"],
    "param": ["Parameter"],
    "cont": ["DiagLayerContainer"],
}
# pools searched by DOP-SNREF, in the order of DiagDataDictionarySpec.all_data_object_properties
ALL_DOPS = ["dops", "structs", "eopfs", "muxs"]
POOL_OF = {"dop": "dops", "struct": "structs", "eopf": "eopfs", "mux": "muxs", "table": "tables"}


class Gen:
    """description of one database; everything the XML, the model line and the extraction need"""

    def __init__(self, rng, profile):
        self.rng = rng
        self.p = profile
        self.uid = 0
        self.containers = []   # {"name","uid","layers":[...]}
        self.layers = []       # flat, document order
        self.features = set()

    def new_uid(self):
        self.uid += 1
        return self.uid

    def obj(self, kind, lid, sn):
        return {"uid": self.new_uid(), "kind": kind, "id": lid, "sn": sn}

    # -- generator-side steering only (keeps the "mostly valid" stream mostly valid); not an oracle
    def build_store(self):
        st = {}
        for c in self.containers:
            st.setdefault((c["name"], "CONTAINER"), {})[c["name"]] = {"kind": "cont"}
            for L in c["layers"]:
                for lid, o in link_entries(L):
                    for f in frag_of_layer(L):
                        st.setdefault(f, {})[lid] = o
        self.store = st

    def py_resolve(self, L, rid, docs):
        imported = {}
        for i in L["imports"]:
            S = next((x for x in self.layers if x["name"] == i["target"]), None)
            if S is None:      # (a later generation of the database no longer has the imported layer)
                continue
            for lid, o in link_entries(S):
                imported[lid] = o
        own = frag_of_layer(L)
        for f in reversed(docs):
            o = self.store.get(f, {}).get(rid)
            if o is None and f in own:
                o = imported.get(rid)
            if o is not None:
                return o
        return None


def frag_of_layer(L):
    return [(L["cont"], "CONTAINER"), (L["name"], "LAYER")]


def new_layer(g, name, kind, cont):
    """`parents`: the PARENT-REF links in PARENT-REFS order, `parent_layers`: the names of the layers they mean"""
    return {"name": name, "kind": kind, "cont": cont, "uid": g.new_uid(), "imports": [], "parents": [], "parent_layers": [],
            "dops": [], "structs": [], "eopfs": [], "muxs": [], "tables": [], "requests": [], "pos": [], "neg": [],
            "services": [], "dcrefs": []}


def layer_named(g, name):
    return next(x for x in g.layers if x["name"] == name)


def layer_ref_obj(P):
    return {"uid": P["uid"], "kind": "layer", "id": P["name"], "sn": P["name"]}


# ---------------------------------------------------------------- generation

def gen_database(rng, profile):
    """profile: dict of probabilities: dangling, wrongtype, ambiguous, imports, snref"""
    g = Gen(rng, profile)
    n_cont = rng.choice([2, 2, 3])
    lnames = ["LA", "LB", "LC", "LD", "LE", "LF", "LG", "LH", "LI"]
    li = 0
    for ci in range(n_cont):
        cname = f"C{ci + 1}"
        kinds = []
        for _ in range(rng.choice([1, 2, 2, 3])):
            kinds.append(rng.choice(["ECU-SHARED-DATA", "FUNCTIONAL-GROUP", "BASE-VARIANT", "BASE-VARIANT", "ECU-VARIANT"]))
        kinds.sort(key=CAT_ORDER.index)
        cont = {"name": cname, "uid": g.new_uid(), "layers": []}
        # the usual naming scheme gives one layer the short name of its container (somersault/somersault): the
        # CONTAINER and LAYER fragments then differ only in their doc type
        twin = rng.randrange(len(kinds)) if rng.random() < 0.5 else -1
        for ki, k in enumerate(kinds):
            L = new_layer(g, cname if ki == twin else lnames[li], k, cname)
            li += 1
            cont["layers"].append(L)
            g.layers.append(L)
        g.containers.append(cont)
    if rng.random() < profile.get("force_esd", 0.7) and not any(L["kind"] == "ECU-SHARED-DATA" for L in g.layers):
        L = rng.choice(g.layers)
        L["kind"] = "ECU-SHARED-DATA"
        for c in g.containers:
            c["layers"].sort(key=lambda x: CAT_ORDER.index(x["kind"]))
        g.layers = [L for c in g.containers for L in c["layers"]]
    # 1. ID-carrying objects (small pools => collisions across layers/containers, unique inside a layer)
    for L in g.layers:
        ids = {fam: rng.sample([f"{fam}{i}" for i in range(1, 9 if fam == "d" else 6)], 8 if fam == "d" else 5) for fam in "drpstwk"}
        names = {fam: [f"{fam.upper()}n{i}" for i in range(1, 5)] for fam in "drpstwk"}

        def nm(fam, used, dup_ok=False):
            pool = names[fam]
            if dup_ok and used and rng.random() < profile.get("ambiguous", 0.0):
                g.features.add("dup-name")
                return rng.choice(sorted(used))
            free = [n for n in pool if n not in used]
            n = rng.choice(free) if free else f"{fam.upper()}n{len(used) + 9}"
            used.add(n)
            return n
        dn = set()   # DOP-like names share one pool (DOP-SNREF searches all of them)
        for _ in range(rng.choice([1, 2, 2, 3])):
            L["dops"].append(g.obj("dop", ids["d"].pop(), nm("d", dn, True)))
        for _ in range(rng.choice([0, 1, 1, 2])):
            s = g.obj("struct", ids["d"].pop(), nm("d", dn, True))
            s["params"] = []
            L["structs"].append(s)
        if rng.random() < 0.4 and L["structs"]:
            L["eopfs"].append(g.obj("eopf", ids["d"].pop(), nm("d", dn, True)))
        if rng.random() < 0.35:
            m = g.obj("mux", ids["d"].pop(), nm("d", dn, True))
            L["muxs"].append(m)
        if rng.random() < 0.5:
            t = g.obj("table", ids["t"].pop(), nm("t", set()))
            t["rows"] = []
            rn = set()
            for _ in range(rng.choice([1, 2])):
                t["rows"].append(g.obj("row", ids["w"].pop(), nm("w", rn)))
            L["tables"].append(t)
        rqn, psn, ngn, svn = set(), set(), set(), set()
        for _ in range(rng.choice([1, 1, 2])):
            r = g.obj("request", ids["r"].pop(), nm("r", rqn))
            r["params"] = []
            L["requests"].append(r)
        for _ in range(rng.choice([0, 1, 1, 2])):
            r = g.obj("response", ids["p"].pop(), nm("p", psn))
            r["params"] = []
            L["pos"].append(r)
        for _ in range(rng.choice([0, 0, 1])):
            r = g.obj("response", ids["p"].pop(), nm("p", ngn))
            r["params"] = []
            L["neg"].append(r)
        for _ in range(rng.choice([1, 1, 2])):
            L["services"].append(g.obj("service", ids["s"].pop(), nm("s", svn)))
        L["_ids"] = ids
    # 2. structure of the hierarchy: 0-3 parents of a lower category (=> acyclic; the graph branches and joins: several
    #    PARENT-REFs per layer in any order of categories, the same ancestor over several paths), imports.
    #    Layers are visited parents-first so that what a candidate parent offers is already known.
    esds = [L for L in g.layers if L["kind"] == "ECU-SHARED-DATA"]
    for L in sorted(g.layers, key=lambda x: CAT_ORDER.index(x["kind"])):
        if L["kind"] == "ECU-SHARED-DATA":
            continue
        ok = {"ECU-VARIANT": ["BASE-VARIANT", "FUNCTIONAL-GROUP", "ECU-SHARED-DATA"],
              "BASE-VARIANT": ["FUNCTIONAL-GROUP", "ECU-SHARED-DATA"],
              "FUNCTIONAL-GROUP": ["ECU-SHARED-DATA"]}[L["kind"]]
        cands = [P for P in g.layers if P is not L and P["kind"] in ok and CAT_ORDER.index(P["kind"]) < CAT_ORDER.index(L["kind"])]
        if cands and rng.random() < 0.6:
            want = min(len(cands), rng.choice(profile.get("n_parents", [1, 1, 2, 2, 3])))
            for P in rng.sample(cands, len(cands)):          # PARENT-REFS order = sampling order
                if len(L["parent_layers"]) >= want:
                    break
                # (an inheritance conflict -- two different objects of one short name offered by parents of the same
                #  priority and not overridden locally, e.g. by an ECU-SHARED-DATA with two equally named objects in one
                #  list -- is raised by the value-inheritance code, which is C09's subject: such a parent is not taken)
                L["parent_layers"].append(P["name"])
                if not hierarchy_ok(g, L):
                    L["parent_layers"].pop()
                    g.features.add("steer:conflicting-parent-skipped")
                    continue
                L["parents"].append(make_ref(g, L, ("layer", P, layer_ref_obj(P)), key=f"{L['name']}.parent{len(L['parents'])}",
                                             exp=None, fault_ok=False))
            if len(L["parents"]) > 1:
                g.features.add("multi-parent")
    for L in g.layers:
        if L["kind"] == "ECU-SHARED-DATA":
            continue
        if esds and rng.random() < profile.get("imports", 0.5):
            for S in rng.sample(esds, rng.choice([1, 1, 2]) if len(esds) > 1 else 1):
                r = make_ref(g, L, ("layer", S, layer_ref_obj(S)), key=f"{L['name']}.import", exp="DiagLayer", fault_ok=False)
                L["imports"].append({"rid": r["rid"], "docref": r["docref"], "target": S["name"]})
            g.features.add("imports")
    if rng.random() < profile.get("bad_import", 0.0):
        cands = [L for L in g.layers if L["kind"] != "ECU-SHARED-DATA"]
        others = [L for L in g.layers if L["kind"] != "ECU-SHARED-DATA"]
        if cands and len(others) > 1:
            L = rng.choice(cands)
            T = rng.choice([o for o in others if o is not L])
            L["imports"].append({"rid": T["name"], "docref": (T["name"], "LAYER"), "target": T["name"]})
            g.features.add("import-non-esd")
    g.build_store()
    # 3. references
    for L in g.layers:
        fill_references(g, L)
    return g


def reachable_targets(g, L, kinds):
    """(where, layer, obj) for objects of the kinds, grouped by how a reference can reach them"""
    out = {"own": [], "cont": [], "far": [], "imp": []}
    imported = {i["target"] for i in L["imports"]}
    for T in g.layers:
        for k in kinds:
            for o in objs_of_kind(T, k):
                if T is L:
                    out["own"].append((T, o))
                elif T["name"] in imported:
                    out["imp"].append((T, o))
                elif T["cont"] == L["cont"]:
                    out["cont"].append((T, o))
                else:
                    out["far"].append((T, o))
    return out


def objs_of_kind(T, k):
    if k == "dop":
        return T["dops"]
    if k == "struct":
        return T["structs"]
    if k == "eopf":
        return T["eopfs"]
    if k == "mux":
        return T["muxs"]
    if k == "table":
        return T["tables"]
    if k == "row":
        return [r for t in T["tables"] for r in t["rows"]]
    if k == "request":
        return T["requests"]
    if k == "response":
        return T["pos"] + T["neg"]
    if k == "pos":
        return T["pos"]
    if k == "neg":
        return T["neg"]
    if k == "service":
        return T["services"]
    return []


def make_ref(g, L, target, key, exp, fault_ok=True, wrong_kinds=(), kinds=()):
    """an ODXLINK reference from layer L to `target` = (where, layer, obj) in a form able to reach it"""
    rng = g.rng
    where, T, o = target
    rid = o["id"]
    if T is L:
        form = rng.choice(["rel", "rel", "rel", "layer", "cont"])
    elif T["cont"] == L["cont"]:
        form = rng.choice(["rel", "rel", "layer", "cont"])
    elif where == "imp":
        # imported objects behave as if defined by the importing layer: visible in *its* fragments
        form = rng.choice(["rel", "rel", "layer", "ownlayer", "owncont"])
    else:
        form = rng.choice(["layer", "layer", "cont"])
    docref = {"rel": None, "layer": (T["name"], "LAYER"), "cont": (T["cont"], "CONTAINER"),
              "ownlayer": (L["name"], "LAYER"), "owncont": (L["cont"], "CONTAINER")}[form]
    if form.startswith("own"):
        g.features.add("form:docref-to-importing-layer")
    if fault_ok and rng.random() < g.p.get("dangling", 0.0):
        kind = rng.choice(["id", "id", "doc", "leak"])
        if kind == "id":
            rid = "zz" + rid
        elif kind == "doc":
            docref = ("NOWHERE", rng.choice(["LAYER", "CONTAINER"]))
        else:   # an id of some ECU-SHARED-DATA which this layer does not import, without DOCREF
            esd = [(S, x) for S in g.layers if S["kind"] == "ECU-SHARED-DATA" and S is not L
                   for k in sorted(set(kinds)) for x in objs_of_kind(S, k)]
            if esd:
                S, x = rng.choice(esd)
                rid, docref = x["id"], None
        g.features.add("fault:dangling-" + kind)
    elif fault_ok and wrong_kinds and rng.random() < g.p.get("wrongtype", 0.0):
        pool = [(W, x) for W in g.layers for k in wrong_kinds for x in objs_of_kind(W, k)]
        if pool:
            W, x = rng.choice(pool)
            rid, docref = x["id"], (W["name"], "LAYER")
            g.features.add("fault:wrongtype")
    g.features.add("form:" + ("rel" if docref is None else docref[1].lower()))
    return {"key": key, "mode": "link", "rid": rid, "docref": docref, "exp": exp}


def pick_target(g, L, kinds):
    r = reachable_targets(g, L, kinds)
    order = [("own", 5), ("cont", 2), ("far", 2), ("imp", 4)]
    avail = [(w, wt) for w, wt in order if r[w]]
    if not avail:
        return None
    w = g.rng.choices([a for a, _ in avail], [b for _, b in avail])[0]
    T, o = g.rng.choice(r[w])
    return (w, T, o)


def link_to(g, L, kinds, key, exp, need=None, wrong_kinds=()):
    """a reference from L to some object of `kinds`; in the fault-free case steered (a few tries) such
    that it lands on an object of class `need` despite shadowing by colliding ids"""
    need = need or exp
    for _ in range(8):
        t = pick_target(g, L, kinds)
        if t is None:
            return None
        feats = set(g.features)
        ref = make_ref(g, L, t, key, exp, wrong_kinds=wrong_kinds, kinds=kinds)
        if any(f.startswith("fault:") for f in g.features - feats):
            return ref
        o = g.py_resolve(L, ref["rid"], ref_docs(L, ref))
        if o is not None and (need is None or need in CLS[o["kind"]]):
            return ref
        g.features = feats
    return None


def own_ref(g, L, o, key, exp):
    g.features.add("form:rel")
    return {"key": key, "mode": "link", "rid": o["id"], "docref": None, "exp": exp}


class Conflict(Exception):
    """two different objects of one short name offered by parents of the same (highest) priority, not overridden locally"""


def local_objs(L, pool):
    if pool == "services":   # the diag-comms a layer defines: inline services + the targets of its DIAG-COMM-REFs
        return list(L["services"]) + [r["_obj"] for r in L["dcrefs"]]
    return list(L[pool])


def visible_py(g, L, pool):
    """independent (declarative) reading of value inheritance for a hierarchy that branches: a layer sees its local
    objects and, for every other short name, the object offered under that name by the parents of the highest
    inheritance priority among those offering it (ECU-SHARED-DATA 100 > ECU-VARIANT > BASE-VARIANT >
    FUNCTIONAL-GROUP > PROTOCOL), whatever the order of the PARENT-REFs; what a parent offers is what it sees itself.
    ECU-SHARED-DATA: local objects only. Several local objects of one name: the last one is the layer's."""
    loc = local_objs(L, pool)
    if L["kind"] == "ECU-SHARED-DATA":
        return loc
    own = {}
    for o in loc:
        own[o["sn"]] = o
    offers = {}
    for pn in L["parent_layers"]:
        P = next((x for x in g.layers if x["name"] == pn), None)
        if P is None:    # the parent is gone in this generation: the PARENT-REF dangles, loading fails in the link phase
            continue
        for o in visible_py(g, P, pool):
            if o["sn"] not in own:
                offers.setdefault(o["sn"], []).append((PRIO[P["kind"]], o))
    out = list(own.values())
    for name, offs in offers.items():
        top = max(p for p, _ in offs)
        objs = {o["uid"]: o for p, o in offs if p == top}
        if len(objs) > 1:
            raise Conflict(f"{L['name']}: {name}")
        out.extend(objs.values())
    return out


def hierarchy_ok(g, L):
    """generator-side steering: no inheritance conflict in what L sees (all inherited categories)"""
    try:
        for pool in INHERITED:
            visible_py(g, L, pool)
        return True
    except Conflict:
        return False


def ancestors(g, T):
    """T and every layer reachable from it over PARENT-REFs (through any parent of any layer on the way), each once"""
    out, todo = [], [T]
    while todo:
        X = todo.pop(0)
        if any(X is y for y in out):
            continue
        out.append(X)
        if X["kind"] != "ECU-SHARED-DATA":
            todo.extend(x for pn in X["parent_layers"] for x in g.layers if x["name"] == pn)
    return out


def make_snref(g, L, pools, key, exp, items=None):
    """a short-name reference to one of the objects visible in L (None if there is none and no fault is wanted)"""
    rng = g.rng
    cands = [o for p in pools for o in visible_py(g, L, p)] if items is None else items
    if rng.random() < g.p.get("dangling", 0.0):
        name = "NoSuchName"
        g.features.add("fault:snref-missing")
    elif cands:
        names = [o["sn"] for o in cands]
        uniq = [o["sn"] for o in cands if names.count(o["sn"]) == 1 and (exp is None or exp in CLS[o["kind"]])]
        if uniq and rng.random() >= g.p.get("ambiguous", 0.0):
            name = rng.choice(uniq)
        elif g.p.get("ambiguous", 0.0) or g.p.get("wrongtype", 0.0):
            name = rng.choice(names)
            g.features.add("fault:snref-ambiguous-or-type")
        else:
            return None
    else:
        return None
    g.features.add("form:snref")
    return {"key": key, "mode": "sn", "name": name, "pools": pools if items is None else [], "exp": exp, "items": items}


def ref_or_snref(g, L, kinds, key, exp_link, exp_sn, pools, wrong_kinds=(), need=None):
    if g.rng.random() < g.p.get("snref", 0.4):
        r = make_snref(g, L, pools, key, exp_sn)
        if r is not None:
            return r
    r = link_to(g, L, kinds, key, exp_link, need=need, wrong_kinds=wrong_kinds)
    if r is None:
        return make_snref(g, L, pools, key, exp_sn)
    return r


def gen_params(g, L, owner, n, prefix):
    rng = g.rng
    params = []
    used = set()
    for i in range(n):
        roll = rng.random()
        name = f"q{i}"
        key = f"{prefix}.{name}"
        if roll < 0.15 and L["tables"] or roll < 0.05:
            # TABLE-KEY (+ TABLE-STRUCT referring to it)
            tk = g.obj("tkey", L["_ids"]["k"].pop() if L["_ids"]["k"] else f"k{rng.randint(6, 99)}", name)
            if rng.random() < 0.3:
                ref = link_to(g, L, ["row"], key + ".table_row", None, need="TableRow")
                if ref:
                    tk["row_ref"] = ref
            if "row_ref" not in tk:
                ref = ref_or_snref(g, L, ["table"], key + ".table", None, None, ["tables"], need="Table")
                if ref is None:
                    continue
                tk["table_ref"] = ref
            params.append(tk)
            ts = {"uid": g.new_uid(), "kind": "param", "sn": f"q{i}s", "ptype": "TABLE-STRUCT"}
            if rng.random() < g.p.get("snref", 0.4):
                ts["key_ref"] = {"key": f"{prefix}.q{i}s.table_key", "mode": "sn", "name": name, "pools": [], "exp": "TableKeyParameter", "items": "PARAMS"}
                g.features.add("form:snref")
            else:
                ts["key_ref"] = make_ref(g, L, ("own", L, tk), f"{prefix}.q{i}s.table_key", "TableKeyParameter", wrong_kinds=("dop", "request"))
            params.append(ts)
        else:
            p = {"uid": g.new_uid(), "kind": "param", "sn": name, "ptype": "VALUE"}
            ref = ref_or_snref(g, L, ["dop", "dop", "struct", "eopf", "mux"], key + ".dop", None, "DopBase", ALL_DOPS, need="DopBase")
            if ref is None:
                continue
            p["dop_ref"] = ref
            params.append(p)
    owner["params"] = params


def fill_references(g, L):
    rng = g.rng
    n = L["name"]
    for s in L["structs"]:
        gen_params(g, L, s, rng.choice([0, 1, 2]), f"{n}.struct.{s['id']}")
    for f in L["eopfs"]:
        ref = ref_or_snref(g, L, ["struct"], f"{n}.eopf.{f['id']}.structure", "BasicStructure", "BasicStructure", ["structs"], wrong_kinds=("dop", "request"))
        f["ref"] = ref or own_ref(g, L, L["structs"][0], f"{n}.eopf.{f['id']}.structure", "BasicStructure")
    for m in L["muxs"]:
        m["switch"] = (link_to(g, L, ["dop"], f"{n}.mux.{m['id']}.switch_key.dop", "DataObjectProperty", wrong_kinds=("struct", "table"))
                       or own_ref(g, L, L["dops"][0], f"{n}.mux.{m['id']}.switch_key.dop", "DataObjectProperty"))
        m["cases"] = []
        for ci in range(rng.choice([0, 1, 2])):
            ref = ref_or_snref(g, L, ["struct"], f"{n}.mux.{m['id']}.case{ci}.structure", "Structure", "Structure", ["structs"], wrong_kinds=("dop", "response"))
            if ref is not None:
                m["cases"].append(ref)
        m["default"] = None
        if rng.random() < 0.4:
            ref = ref_or_snref(g, L, ["struct"], f"{n}.mux.{m['id']}.default.structure", "Structure", "Structure", ["structs"])
            if ref is not None:
                m["default"] = ref
    for t in L["tables"]:
        t["key_dop"] = None
        if rng.random() < 0.7:
            t["key_dop"] = link_to(g, L, ["dop"], f"{n}.table.{t['id']}.key_dop", "DataObjectProperty", wrong_kinds=("struct", "service"))
        for r in t["rows"]:
            r["ref"] = None
            roll = rng.random()
            if roll < 0.55:
                ref = ref_or_snref(g, L, ["struct"], f"{n}.row.{r['id']}.structure", "BasicStructure", "BasicStructure", ["structs"], wrong_kinds=("dop",))
                if ref is not None:
                    r["ref"] = ("structure", ref)
            elif roll < 0.85:
                ref = ref_or_snref(g, L, ["dop"], f"{n}.row.{r['id']}.dop", "DataObjectProperty", "DataObjectProperty", ["dops"], wrong_kinds=("struct",))
                if ref is not None:
                    r["ref"] = ("dop", ref)
    for rq in L["requests"]:
        gen_params(g, L, rq, rng.choice([1, 2, 3]), f"{n}.request.{rq['id']}")
    for rs in L["pos"]:
        gen_params(g, L, rs, rng.choice([0, 1, 2]), f"{n}.pos.{rs['id']}")
    for rs in L["neg"]:
        gen_params(g, L, rs, rng.choice([0, 1]), f"{n}.neg.{rs['id']}")
    for sv in L["services"]:
        sv["request"] = (link_to(g, L, ["request"], f"{n}.service.{sv['id']}.request", "Request", wrong_kinds=("response", "dop"))
                         or own_ref(g, L, L["requests"][0], f"{n}.service.{sv['id']}.request", "Request"))
        sv["pos"] = []
        sv["neg"] = []
        for i in range(rng.choice([0, 1, 1, 2])):
            r = link_to(g, L, ["pos", "response"], f"{n}.service.{sv['id']}.pos{i}", "Response", wrong_kinds=("request",))
            if r:
                sv["pos"].append(r)
        for i in range(rng.choice([0, 0, 1])):
            r = link_to(g, L, ["neg", "response"], f"{n}.service.{sv['id']}.neg{i}", "Response", wrong_kinds=("request",))
            if r:
                sv["neg"].append(r)
    if rng.random() < 0.3:
        ref = link_to(g, L, ["service"], f"{n}.dcref{len(L['dcrefs'])}", "DiagComm", wrong_kinds=("request",))
        if ref is not None:
            # the referenced service becomes a local diag-comm of L: keep the short names of L's diag-comms distinct
            # (duplicates make inheriting layers fail in _compute_available_objects, which is C09's subject)
            o = g.py_resolve(L, ref["rid"], ref_docs(L, ref))
            own_names = {s["sn"] for s in L["services"]} | {d["_sn"] for d in L["dcrefs"]}
            if o is not None and o.get("kind") == "service" and o["sn"] not in own_names and not any(x is o for x in L["services"]):
                ref["_sn"] = o["sn"]
                ref["_obj"] = o
                L["dcrefs"].append(ref)
                # ... nor may the additional diag-comm collide with what another parent of a derived layer offers
                if not all(hierarchy_ok(g, X) for X in g.layers):
                    L["dcrefs"].pop()


# ---------------------------------------------------------------- XML

DCT = '<DIAG-CODED-TYPE BASE-DATA-TYPE="A_UINT32" xsi:type="STANDARD-LENGTH-TYPE"><BIT-LENGTH>8</BIT-LENGTH></DIAG-CODED-TYPE>'


def x_ref(tag, ref, extra=""):
    a = f' ID-REF="{ref["rid"]}"'
    if ref.get("docref"):
        a += f' DOCREF="{ref["docref"][0]}" DOCTYPE="{ref["docref"][1]}"'
    return f"<{tag}{a}{extra}/>"


def x_either(link_tag, sn_tag, ref):
    if ref["mode"] == "link":
        return x_ref(link_tag, ref)
    return f'<{sn_tag} SHORT-NAME="{ref["name"]}"/>'


def x_param(p):
    if p["kind"] == "tkey":
        inner = x_ref("TABLE-ROW-REF", p["row_ref"]) if "row_ref" in p else x_either("TABLE-REF", "TABLE-SNREF", p["table_ref"])
        return f'<PARAM xsi:type="TABLE-KEY" ID="{p["id"]}"><SHORT-NAME>{p["sn"]}</SHORT-NAME>{inner}</PARAM>'
    if p["ptype"] == "TABLE-STRUCT":
        return f'<PARAM xsi:type="TABLE-STRUCT"><SHORT-NAME>{p["sn"]}</SHORT-NAME>{x_either("TABLE-KEY-REF", "TABLE-KEY-SNREF", p["key_ref"])}</PARAM>'
    return f'<PARAM xsi:type="VALUE"><SHORT-NAME>{p["sn"]}</SHORT-NAME>{x_either("DOP-REF", "DOP-SNREF", p["dop_ref"])}</PARAM>'


def x_params(o):
    return "<PARAMS>" + "".join(x_param(p) for p in o["params"]) + "</PARAMS>"


def x_layer(L, with_imports=True):
    ddd = []
    ddd.append("<DATA-OBJECT-PROPS>" + "".join(
        f'<DATA-OBJECT-PROP ID="{d["id"]}"><SHORT-NAME>{d["sn"]}</SHORT-NAME><COMPU-METHOD><CATEGORY>IDENTICAL</CATEGORY></COMPU-METHOD>'
        f'{DCT}<PHYSICAL-TYPE BASE-DATA-TYPE="A_UINT32"/></DATA-OBJECT-PROP>' for d in L["dops"]) + "</DATA-OBJECT-PROPS>")
    if L["structs"]:
        ddd.append("<STRUCTURES>" + "".join(
            f'<STRUCTURE ID="{s["id"]}"><SHORT-NAME>{s["sn"]}</SHORT-NAME>{x_params(s)}</STRUCTURE>' for s in L["structs"]) + "</STRUCTURES>")
    if L["eopfs"]:
        ddd.append("<END-OF-PDU-FIELDS>" + "".join(
            f'<END-OF-PDU-FIELD ID="{f["id"]}"><SHORT-NAME>{f["sn"]}</SHORT-NAME>{x_either("BASIC-STRUCTURE-REF", "BASIC-STRUCTURE-SNREF", f["ref"])}</END-OF-PDU-FIELD>'
            for f in L["eopfs"]) + "</END-OF-PDU-FIELDS>")
    if L["muxs"]:
        ms = ""
        for m in L["muxs"]:
            cases = "".join(f'<CASE><SHORT-NAME>c{i}</SHORT-NAME>{x_either("STRUCTURE-REF", "STRUCTURE-SNREF", c)}'
                            f'<LOWER-LIMIT>{i}</LOWER-LIMIT><UPPER-LIMIT>{i}</UPPER-LIMIT></CASE>' for i, c in enumerate(m["cases"]))
            dflt = f'<DEFAULT-CASE><SHORT-NAME>dflt</SHORT-NAME>{x_either("STRUCTURE-REF", "STRUCTURE-SNREF", m["default"])}</DEFAULT-CASE>' if m["default"] else ""
            ms += (f'<MUX ID="{m["id"]}"><SHORT-NAME>{m["sn"]}</SHORT-NAME><BYTE-POSITION>1</BYTE-POSITION>'
                   f'<SWITCH-KEY><BYTE-POSITION>0</BYTE-POSITION>{x_ref("DATA-OBJECT-PROP-REF", m["switch"])}</SWITCH-KEY>{dflt}'
                   + (f"<CASES>{cases}</CASES>" if cases else "") + "</MUX>")
        ddd.append(f"<MUXS>{ms}</MUXS>")
    if L["tables"]:
        ts = ""
        for t in L["tables"]:
            rows = ""
            for i, r in enumerate(t["rows"]):
                inner = ""
                if r["ref"]:
                    what, ref = r["ref"]
                    inner = x_either("STRUCTURE-REF", "STRUCTURE-SNREF", ref) if what == "structure" else x_either("DATA-OBJECT-PROP-REF", "DATA-OBJECT-PROP-SNREF", ref)
                rows += f'<TABLE-ROW ID="{r["id"]}"><SHORT-NAME>{r["sn"]}</SHORT-NAME><KEY>{i}</KEY>{inner}</TABLE-ROW>'
            kd = x_ref("KEY-DOP-REF", t["key_dop"]) if t["key_dop"] else ""
            ts += f'<TABLE ID="{t["id"]}"><SHORT-NAME>{t["sn"]}</SHORT-NAME>{kd}{rows}</TABLE>'
        ddd.append(f"<TABLES>{ts}</TABLES>")
    out = [f'<{L["kind"]} ID="{L["name"]}"><SHORT-NAME>{L["name"]}</SHORT-NAME>']
    out.append("<DIAG-DATA-DICTIONARY-SPEC>" + "".join(ddd) + "</DIAG-DATA-DICTIONARY-SPEC>")
    dcs = ""
    for sv in L["services"]:
        pr = "".join(x_ref("POS-RESPONSE-REF", r) for r in sv["pos"])
        nr = "".join(x_ref("NEG-RESPONSE-REF", r) for r in sv["neg"])
        dcs += (f'<DIAG-SERVICE ID="{sv["id"]}"><SHORT-NAME>{sv["sn"]}</SHORT-NAME>{x_ref("REQUEST-REF", sv["request"])}'
                + (f"<POS-RESPONSE-REFS>{pr}</POS-RESPONSE-REFS>" if pr else "")
                + (f"<NEG-RESPONSE-REFS>{nr}</NEG-RESPONSE-REFS>" if nr else "") + "</DIAG-SERVICE>")
    for r in L["dcrefs"]:
        dcs += x_ref("DIAG-COMM-REF", r)
    out.append(f"<DIAG-COMMS>{dcs}</DIAG-COMMS>")
    out.append("<REQUESTS>" + "".join(f'<REQUEST ID="{r["id"]}"><SHORT-NAME>{r["sn"]}</SHORT-NAME>{x_params(r)}</REQUEST>' for r in L["requests"]) + "</REQUESTS>")
    if L["pos"]:
        out.append("<POS-RESPONSES>" + "".join(f'<POS-RESPONSE ID="{r["id"]}"><SHORT-NAME>{r["sn"]}</SHORT-NAME>{x_params(r)}</POS-RESPONSE>' for r in L["pos"]) + "</POS-RESPONSES>")
    if L["neg"]:
        out.append("<NEG-RESPONSES>" + "".join(f'<NEG-RESPONSE ID="{r["id"]}"><SHORT-NAME>{r["sn"]}</SHORT-NAME>{x_params(r)}</NEG-RESPONSE>' for r in L["neg"]) + "</NEG-RESPONSES>")
    if L["imports"] and with_imports:
        out.append("<IMPORT-REFS>" + "".join(x_ref("IMPORT-REF", r) for r in L["imports"]) + "</IMPORT-REFS>")
    if L["parents"]:
        out.append("<PARENT-REFS>" + "".join(x_ref("PARENT-REF", P) for P in L["parents"]) + "</PARENT-REFS>")
    out.append(f'</{L["kind"]}>')
    return "".join(out)


def to_xml(g, with_imports=True):
    docs = []
    for c in g.containers:
        body = ""
        for k in CAT_ORDER:
            ls = [L for L in c["layers"] if L["kind"] == k]
            if ls:
                body += f"<{CAT_TAG[k]}>" + "".join(x_layer(L, with_imports) for L in ls) + f"</{CAT_TAG[k]}>"
        docs.append('<?xml version="1.0"?><ODX MODEL-VERSION="2.2.0" xmlns:xsi="http://www.w3.org/2001/XMLSchema-instance">'
                    f'<DIAG-LAYER-CONTAINER ID="{c["name"]}"><SHORT-NAME>{c["name"]}</SHORT-NAME>{body}</DIAG-LAYER-CONTAINER></ODX>')
    return docs


# ---------------------------------------------------------------- the description as the model sees it

def all_refs(L, with_imports=True):
    """(link refs, snrefs) of a layer, each in the order the loader visits them"""
    links, sns = [], []

    def add(ref, params=None):
        if ref is None:
            return
        if ref["mode"] == "link":
            links.append(ref)
        else:
            r = dict(ref)
            if r.get("items") == "PARAMS":
                r["items"] = params
            sns.append(r)

    def add_params(o):
        for p in o["params"]:
            if p["kind"] == "tkey":
                add(p.get("row_ref") or p.get("table_ref"))
            elif p["ptype"] == "TABLE-STRUCT":
                add(p["key_ref"], o["params"])
            else:
                add(p["dop_ref"])
    for s in L["structs"]:
        add_params(s)
    for f in L["eopfs"]:
        add(f["ref"])
    for m in L["muxs"]:
        add(m["switch"])
        add(m["default"])
        for c in m["cases"]:
            add(c)
    for t in L["tables"]:
        add(t["key_dop"])
        for r in t["rows"]:
            if r["ref"]:
                add(r["ref"][1])
    for sv in L["services"]:
        add(sv["request"])
        for r in sv["pos"]:
            add(r)
        for r in sv["neg"]:
            add(r)
    for r in L["dcrefs"]:
        add(r)
    for o in L["requests"] + L["pos"] + L["neg"]:
        add_params(o)
    for P in L["parents"]:
        add(P)
    # the snref pass visits ddds (structures, fields, muxs, tables), then requests/responses; mux: default before cases
    return links, sns


def link_entries(L):
    """(local id, obj) of every ID-carrying object of the layer (the layer itself included)"""
    out = [(L["name"], {"uid": L["uid"], "kind": "layer", "sn": L["name"]})]
    for k in ["dops", "structs", "eopfs", "muxs", "tables", "requests", "pos", "neg", "services"]:
        for o in L[k]:
            out.append((o["id"], o))
            if k == "tables":
                for r in o["rows"]:
                    out.append((r["id"], r))
            if "params" in o:
                for p in o["params"]:
                    if p["kind"] == "tkey":
                        out.append((p["id"], p))
    return out


def s_frag(f):
    return f"({f[0]} {f[1]})"


def s_frags(fs):
    return "(" + " ".join(s_frag(f) for f in fs) + ")"


def s_obj(o):
    return f'(o {o["uid"]} ({" ".join(CLS[o["kind"]])}) {o["sn"]})'


def ref_docs(L, ref):
    return [ref["docref"]] if ref.get("docref") else frag_of_layer(L)


def s_ref(L, ref):
    return f'(ref {ref["rid"]} {s_frags(ref_docs(L, ref))})'


def s_layer(L, with_imports=True):
    fr = frag_of_layer(L)
    links, sns = all_refs(L)
    ents = " ".join(f"(e {lid} {s_frags(fr)} {s_obj(o)})" for lid, o in link_entries(L))
    imps = " ".join(s_ref(L, r) for r in L["imports"]) if with_imports else ""
    lrs = " ".join(f'(lr {r["key"]} {s_ref(L, r)} {r["exp"] or "-"})' for r in links)
    srs = " ".join(f'(sr {r["key"]} {r["name"]} ({" ".join(r["pools"])}) ({" ".join(s_obj(p) for p in (r["items"] or []))}) {r["exp"] or "-"})' for r in sns)
    locs = " ".join(f'({p} {" ".join(s_obj(o) for o in L[p])})' for p in ["dops", "structs", "eopfs", "muxs", "tables"])
    parents = " ".join(P["key"] for P in L["parents"])
    return (f'(layer (obj {s_obj({"uid": L["uid"], "kind": "layer", "sn": L["name"]})}) (frags {s_frags(fr)}) '
            f'(esd {"t" if L["kind"] == "ECU-SHARED-DATA" else "f"}) (links {ents}) (imports {imps}) (parents ({parents})) (prio {PRIO[L["kind"]]}) '
            f'(refs {lrs}) (snrefs {srs}) (locals {locs}))')


def s_db(g, op, with_imports=True, head=""):
    extra = " ".join(f'(e {c["name"]} (({c["name"]} CONTAINER)) {s_obj({"uid": c["uid"], "kind": "cont", "sn": c["name"]})})' for c in g.containers)
    return f'({op}{head} (extra {extra}) (layers {" ".join(s_layer(L, with_imports) for L in g.layers)}))'


# ---------------------------------------------------------------- loading and extraction

def load(docs):
    """-> (db or None, error class or None)"""
    from odxtools.database import Database
    from odxtools.exceptions import OdxError
    try:
        with warnings.catch_warnings():
            warnings.simplefilter("ignore")
            db = Database()
            for x in docs:
                db._process_xml_tree(ET.fromstring(x))
            db.refresh()
        return db, None
    except KeyError:
        return None, "key"
    except OdxError:
        return None, "odx"
    except Exception as e:  # noqa
        return None, "foreign:" + type(e).__name__


def by_id(items, lid):
    for x in items:
        oid = getattr(x, "odx_id", None)
        if oid is not None and oid.local_id == lid:
            return x
    raise LookupError(lid)


class Extract:
    """walks a loaded database along the description; uid of every generated object by identity"""

    def __init__(self, g, db):
        self.g, self.db = g, db
        self.uid_of = {}
        self.py = {}
        for c, pc in zip(g.containers, db.diag_layer_containers):
            self.uid_of[id(pc)] = c["uid"]
            for L in c["layers"]:
                pl = next(x for x in pc.diag_layers if x.short_name == L["name"])
                self.reg(L["uid"], pl)
                raw = pl.diag_layer_raw
                ddds = raw.diag_data_dictionary_spec
                for k, attr in [("dops", "data_object_props"), ("structs", "structures"), ("eopfs", "end_of_pdu_fields"),
                                ("muxs", "muxs"), ("tables", "tables")]:
                    for o in L[k]:
                        po = by_id(getattr(ddds, attr), o["id"])
                        self.reg(o["uid"], po)
                        if k == "tables":
                            for r in o["rows"]:
                                self.reg(r["uid"], by_id(po.table_rows_raw, r["id"]))
                        if k == "structs":
                            self.reg_params(o, po)
                for k, items in [("requests", raw.requests), ("pos", raw.positive_responses), ("neg", raw.negative_responses)]:
                    for o in L[k]:
                        po = by_id(items, o["id"])
                        self.reg(o["uid"], po)
                        self.reg_params(o, po)
                for o in L["services"]:
                    self.reg(o["uid"], by_id([x for x in raw.diag_comms_raw if hasattr(x, "odx_id")], o["id"]))

    def reg(self, uid, po):
        self.uid_of[id(po)] = uid
        self.py[uid] = po

    def reg_params(self, o, po):
        for p, pp in zip(o["params"], po.parameters):
            self.reg(p["uid"], pp)

    def u(self, x):
        if x is None:
            return "none"
        return self.uid_of.get(id(x), "unknown")

    def bound(self):
        """-> {key: uid | 'none' | 'unknown' | 'foreign:…'} for every reference attribute"""
        out = {}
        for L in self.g.layers:
            pl = self.py[L["uid"]]

            def get(key, f):
                try:
                    out[key] = self.u(f())
                except Exception as e:  # noqa
                    out[key] = "foreign:" + type(e).__name__

            def params(o):
                for p in o["params"]:
                    pp = self.py[p["uid"]]
                    if p["kind"] == "tkey":
                        if "row_ref" in p:
                            get(p["row_ref"]["key"], lambda pp=pp: pp._table_row)
                        else:
                            get(p["table_ref"]["key"], lambda pp=pp: pp._table)
                    elif p["ptype"] == "TABLE-STRUCT":
                        get(p["key_ref"]["key"], lambda pp=pp: pp._table_key)
                    else:
                        get(p["dop_ref"]["key"], lambda pp=pp: pp._dop)
            for s in L["structs"]:
                params(s)
            for f in L["eopfs"]:
                get(f["ref"]["key"], lambda f=f: self.py[f["uid"]]._structure)
            for m in L["muxs"]:
                pm = self.py[m["uid"]]
                get(m["switch"]["key"], lambda pm=pm: pm.switch_key._dop)
                if m["default"]:
                    get(m["default"]["key"], lambda pm=pm: pm.default_case._structure)
                for i, c in enumerate(m["cases"]):
                    get(c["key"], lambda pm=pm, i=i: pm.cases[i]._structure)
            for t in L["tables"]:
                if t["key_dop"]:
                    get(t["key_dop"]["key"], lambda t=t: self.py[t["uid"]]._key_dop)
                for r in t["rows"]:
                    if r["ref"]:
                        what, ref = r["ref"]
                        get(ref["key"], lambda r=r, what=what: getattr(self.py[r["uid"]], "_structure" if what == "structure" else "_dop"))
            for sv in L["services"]:
                ps = self.py[sv["uid"]]
                get(sv["request"]["key"], lambda ps=ps: ps._request)
                for i, r in enumerate(sv["pos"]):
                    get(r["key"], lambda ps=ps, i=i: list(ps._positive_responses)[i])
                for i, r in enumerate(sv["neg"]):
                    get(r["key"], lambda ps=ps, i=i: list(ps._negative_responses)[i])
            n_inline = len(L["services"])
            for i, r in enumerate(L["dcrefs"]):
                get(r["key"], lambda pl=pl, i=i, n_inline=n_inline: list(pl.diag_layer_raw.diag_comms)[n_inline + i])
            for o in L["requests"] + L["pos"] + L["neg"]:
                params(o)
            for i, P in enumerate(L["parents"]):
                get(P["key"], lambda pl=pl, i=i: pl.diag_layer_raw.parent_refs[i]._layer)
        return out

    def dump_links(self, linkdb):
        """an OdxLinkDatabase as the driver prints it"""
        parts = []
        for frag, d in linkdb._db.items():
            parts.append(f"(frag {frag.doc_name} {frag.doc_type.value}" + "".join(f" ({k} {self.u(v)})" for k, v in d.items()) + ")")
        return "(db" + "".join(" " + p for p in parts) + ")"


# ---------------------------------------------------------------- enumerated small scope: hierarchies that branch

ENUM_SCOPES = {
    # name: layers (short name, category) in document order
    "FGBE": [("F", "FUNCTIONAL-GROUP"), ("G", "FUNCTIONAL-GROUP"), ("B", "BASE-VARIANT"), ("E", "ECU-VARIANT")],
    "SFBE": [("S", "ECU-SHARED-DATA"), ("F", "FUNCTIONAL-GROUP"), ("B", "BASE-VARIANT"), ("E", "ECU-VARIANT")],
    "SFGBE": [("S", "ECU-SHARED-DATA"), ("F", "FUNCTIONAL-GROUP"), ("G", "FUNCTIONAL-GROUP"), ("B", "BASE-VARIANT"),
              ("E", "ECU-VARIANT")],
}


def enum_hierarchies(scope):
    """every inheritance graph over the layers of the scope (each subset of the PARENT-REFs ODX allows: a parent is of
    a lower category) x every subset of the layers defining a DOP of the one short name `X` x both listing orders of
    the PARENT-REFs. Every layer in whose own view `X` is visible owns a request with a DOP-SNREF `X` (+ a service
    using it), so that each database has a short-name reference at every position of the graph and an overriding
    definition at every position. Combinations with an inheritance conflict (C09's subject) are skipped.
    Yields (tag, Gen)."""
    import itertools
    import random
    spec = ENUM_SCOPES[scope]
    names = [n for n, _ in spec]
    kind = dict(spec)
    edges = [(c, p) for c in names for p in names
             if kind[c] != "ECU-SHARED-DATA" and CAT_ORDER.index(kind[p]) < CAT_ORDER.index(kind[c])]
    for emask in range(1 << len(edges)):
        chosen = [e for i, e in enumerate(edges) if emask >> i & 1]
        if not chosen:
            continue
        for dmask in range(1 << len(names)):
            for rev in (False, True):
                if rev and not any(sum(1 for c, _ in chosen if c == n) > 1 for n in names):
                    continue     # no layer with two parents: the listing order does not exist
                g = Gen(random.Random(0), {})
                cont = {"name": "C1", "uid": g.new_uid(), "layers": []}
                g.containers = [cont]
                for n in names:
                    X = new_layer(g, n, kind[n], "C1")
                    cont["layers"].append(X)
                    g.layers.append(X)
                    if dmask >> names.index(n) & 1:
                        X["dops"].append(g.obj("dop", f"{n}_d", "X"))
                ok = True
                for X in g.layers:
                    ps = [p for c, p in chosen if c == X["name"]]
                    if rev:
                        ps.reverse()
                    for p in ps:
                        P = layer_named(g, p)
                        X["parent_layers"].append(p)
                        X["parents"].append({"key": f"{X['name']}.parent{len(X['parents'])}", "mode": "link", "rid": p,
                                             "docref": None, "exp": None})
                    if not hierarchy_ok(g, X):
                        ok = False
                        break
                if not ok:
                    yield (scope, emask, dmask, rev), None
                    continue
                n_refs = 0
                for X in g.layers:
                    if sum(1 for o in visible_py(g, X, "dops") if o["sn"] == "X") != 1:
                        continue
                    rq = dict(g.obj("request", f"{X['name']}_r", "Rq"), params=[])
                    rq["params"].append({"uid": g.new_uid(), "kind": "param", "sn": "q0", "ptype": "VALUE",
                                         "dop_ref": {"key": f"{X['name']}.request.q0.dop", "mode": "sn", "name": "X",
                                                     "pools": ALL_DOPS, "exp": "DopBase", "items": None}})
                    X["requests"].append(rq)
                    sv = g.obj("service", f"{X['name']}_s", f"Sv{X['name']}")
                    sv.update(request=own_ref(g, X, rq, f"{X['name']}.service.request", "Request"), pos=[], neg=[])
                    X["services"].append(sv)
                    n_refs += 1
                if n_refs == 0:
                    continue
                g.features |= {"enum", "form:snref"}
                if any(len(X["parents"]) > 1 for X in g.layers):
                    g.features.add("multi-parent")
                yield (scope, emask, dmask, rev), g


# ---------------------------------------------------------------- generations: ONE Database object, modified and refreshed again
#
# A *generation history* is planned on the description alone (so the model can be asked for all generations in one batch):
# g0 is loaded into a Database; every later step modifies the database through the public API the examples use
# (`db.diag_layer_containers = …` + `add_odx_file` / `add_pdx_file` / `_process_xml_tree`, removal / re-insertion of
# objects in the lists of a `DiagLayerRaw`) and calls `refresh()` again. The description g_k of generation k says what
# a *pristine* database with the same content looks like; every oracle of `check_database` is then evaluated on the
# long-lived object against g_k.

ID_LISTS = ["dops", "structs", "eopfs", "muxs", "tables", "requests", "pos", "neg", "services"]
# lists that are modified in place (examples/mksomersaultmodifiedpdx.py does so with the lists of a DiagLayerRaw; the lists
# of the DIAG-DATA-DICTIONARY-SPEC are the same kind of public dataclass field)
INPLACE = {"requests": "requests", "pos": "positive_responses", "neg": "negative_responses", "services": "diag_comms_raw",
           "dops": "ddds.data_object_props", "structs": "ddds.structures", "eopfs": "ddds.end_of_pdu_fields", "muxs": "ddds.muxs",
           "tables": "ddds.tables"}
EDITS = ["drop", "reid", "swap", "same"]


def clone(g):
    """deep copy of a description (sharing inside it is kept: DIAG-COMM-REF `_obj`, `PARAMS` item lists); uids are kept,
    so an object that survives a generation keeps its uid and a new Python object under an old description uid is
    simply the new carrier of that id"""
    import copy
    g2 = copy.deepcopy(g)
    g2.features = set(g.features)
    return g2


def reflatten(g):
    g.layers = [X for c in g.containers for X in c["layers"]]


def id_objects(g, cname=None):
    """(layer, list name, holder list, obj) of every ID-carrying object below the layers (table rows included)"""
    out = []
    for X in g.layers:
        if cname is not None and X["cont"] != cname:
            continue
        for k in ID_LISTS:
            for o in X[k]:
                out.append((X, k, X[k], o))
                if k == "tables":
                    for r in o["rows"]:
                        out.append((X, "rows", o["rows"], r))
    return out


def referenced_ids(g):
    ids = set()
    for X in g.layers:
        for r in all_refs(X)[0]:
            ids.add(r["rid"])
        for i in X["imports"]:
            ids.add(i["rid"])
    return ids


def rebind_dcrefs(g):
    """generator-side: which service a DIAG-COMM-REF means in this generation (feeds the conflict steering only)"""
    g.build_store()
    for X in g.layers:
        for r in X["dcrefs"]:
            try:
                o = g.py_resolve(X, r["rid"], ref_docs(X, r))
            except StopIteration:
                o = None
            if o is not None and o.get("kind") == "service":
                r["_obj"], r["_sn"] = o, o["sn"]


def description_ok(g):
    """generator-side steering (not an oracle): the generation is free of what C09 judges -- inheritance conflicts,
    two diag-comms of one short name in a layer, a DIAG-COMM-REF to a service the layer defines itself"""
    try:
        for X in g.layers:
            loc = local_objs(X, "services")
            if len({o["sn"] for o in loc}) != len(loc) or len({o["uid"] for o in loc}) != len(loc):
                return False
            if not hierarchy_ok(g, X):
                return False
        return True
    except Exception:  # noqa
        return False


def edit_description(g, rng, edit, cname=None, only_inplace=False, pick=None):
    """apply one edit to the description in place; -> info dict or None (not applicable).
    drop: an ID-carrying object vanishes; reid: it gets an id nobody refers to; swap: two objects of one list swap
    their ids (the id is now carried by another object); same: nothing (a re-parsed revision with equal content)"""
    if edit == "same":
        return {"edit": "same"}
    cands = id_objects(g, cname)
    if only_inplace:
        cands = [c for c in cands if c[1] in INPLACE]
    if pick is not None:
        cands = [c for c in cands if (c[0]["name"], c[1], c[3]["id"]) == pick]
    if edit == "swap":
        cands = [c for c in cands if len(c[2]) >= 2]
    if not cands:
        return None
    refd = referenced_ids(g)
    hot = [c for c in cands if c[3]["id"] in refd]
    X, k, holder, o = rng.choice(hot if hot and rng.random() < 0.75 else cands)
    info = {"edit": edit, "layer": X["name"], "list": k, "id": o["id"], "referenced": o["id"] in refd,
            "index": next(i for i, x in enumerate(holder) if x is o)}
    if edit == "drop":
        holder.pop(info["index"])
    elif edit == "reid":
        o["id"] = o["id"] + "v"
    elif edit == "swap":
        other = rng.choice([x for x in holder if x is not o])
        o["id"], other["id"] = other["id"], o["id"]
        info["other"] = o["id"]
    return info


def container_doc(g, cname):
    return next(d for c, d in zip(g.containers, to_xml(g)) if c["name"] == cname)


def plan_history(g0, rng, n_steps, kinds=None):
    """-> [(step, g_k)] for k = 1…; `step` is JSON and is all `apply_step` needs"""
    import copy
    kinds = kinds or ["replace"] * 8 + ["drop-inplace"] * 4 + ["readd-inplace"] * 3 + ["remove-container"] * 2 + \
        ["add-container"] * 3 + ["refresh-only"] * 2 + ["reload-all"] * 1 + ["restore"] * 3 + ["retarget"] * 2
    cur, plan = g0, []
    removed = []       # in-place removals that can be undone: (layer, list, obj description, index)
    parked = []        # containers taken out of the database
    damage = None      # (kind of step that undoes the last destructive step, container): the next step often repairs,
    #                    so that "dangling -> resolvable again" is as frequent as "resolvable -> dangling"
    for _ in range(n_steps):
        for _try in range(12):
            kind, want_c = rng.choice(kinds), None
            if damage is not None and _try < 4 and rng.random() < 0.65:
                kind, want_c = damage
            g = clone(cur)
            step = None
            if kind == "replace" and g.containers:
                c = rng.choice(g.containers)
                info = edit_description(g, rng, rng.choice(["drop", "drop", "reid", "reid", "swap", "same"]), cname=c["name"])
                if info is None:
                    continue
                g.containers.remove(c)
                g.containers.append(c)
                reflatten(g)
                step = {"op": "replace", "container": c["name"], "xml": None, "via": rng.choice(["tree", "file", "pdx"]), "info": info}
                rm2 = [r for r in removed if layer_cont(cur, r[0]) != c["name"]]
            elif kind == "restore" and g.containers:      # the revision of generation 0 comes back
                c = next((x for x in g.containers if x["name"] == want_c), None) or rng.choice(g.containers)
                c0 = next((x for x in g0.containers if x["name"] == c["name"]), None)
                if c0 is None:
                    continue
                g.containers.remove(c)
                g.containers.append(copy.deepcopy(c0))
                reflatten(g)
                step = {"op": "replace", "container": c["name"], "xml": None, "via": rng.choice(["tree", "file", "pdx"]), "info": {"edit": "restore"}}
                rm2 = [r for r in removed if layer_cont(cur, r[0]) != c["name"]]
            elif kind == "drop-inplace":
                info = edit_description(g, rng, "drop", only_inplace=True)
                if info is None:
                    continue
                step = {"op": "drop-inplace", "layer": info["layer"], "list": INPLACE[info["list"]], "id": info["id"], "info": info}
                X = layer_named(cur, info["layer"])
                rm2 = removed + [(info["layer"], info["list"], X[info["list"]][info["index"]], info["index"])]
            elif kind == "readd-inplace" and removed:
                ln, k, o, idx = removed[-1]
                X = next((x for x in g.layers if x["name"] == ln), None)
                if X is None or any(x["id"] == o["id"] for x in X[k]):
                    continue
                idx = min(idx, len(X[k]))
                X[k].insert(idx, copy.deepcopy(o))
                step = {"op": "readd-inplace", "layer": ln, "list": INPLACE[k], "id": o["id"], "index": idx, "info": {"edit": "readd"}}
                rm2 = removed[:-1]
            elif kind == "remove-container" and len(g.containers) >= 2:
                c = rng.choice(g.containers)
                g.containers.remove(c)
                reflatten(g)
                step = {"op": "remove-container", "container": c["name"], "info": {"edit": "remove-container"}}
                rm2 = [r for r in removed if layer_cont(cur, r[0]) != c["name"]]
            elif kind == "add-container" and parked:
                c = copy.deepcopy(parked[-1])
                if any(x["name"] == c["name"] for x in g.containers):
                    continue
                g.containers.append(c)
                reflatten(g)
                step = {"op": "add", "container": c["name"], "xml": None, "via": rng.choice(["tree", "file", "pdx"]), "info": {"edit": "add-container"}}
                rm2 = removed
            elif kind == "refresh-only":
                step = {"op": "refresh-only", "info": {"edit": "none"}}
                rm2 = removed
            elif kind == "retarget":     # short-name references re-targeted to some layer, then refresh(): every layer's own view again
                T = rng.choice(g.layers)
                step = {"op": "retarget", "layer": T["name"], "info": {"edit": "retarget"}}
                rm2 = removed
            elif kind == "reload-all":
                step = {"op": "reload-all", "xml": None, "via": rng.choice(["tree", "file", "pdx"]), "info": {"edit": "reload"}}
                rm2 = []
            if step is None:
                continue
            rebind_dcrefs(g)
            if not description_ok(g):
                continue
            if step["op"] in ("replace", "add"):
                step["xml"] = container_doc(g, step["container"])
            elif step["op"] == "reload-all":
                step["xml"] = to_xml(g)
            if step["op"] == "remove-container":
                parked = parked + [next(x for x in cur.containers if x["name"] == step["container"])]
            elif step["op"] == "add":
                parked = parked[:-1]
            removed = rm2
            e = step["info"]["edit"]
            if e in ("drop", "reid", "swap") and step["info"].get("referenced"):
                damage = ("readd-inplace", None) if step["op"] == "drop-inplace" else ("restore", step["container"])
            elif e == "remove-container":
                damage = ("add-container", None)
            elif e in ("restore", "readd", "add-container", "reload"):
                damage = None
            g.features.add("gen:" + step["info"]["edit"])
            plan.append((step, g))
            cur = g
            break
    return plan


def layer_cont(g, lname):
    X = next((x for x in g.layers if x["name"] == lname), None)
    return X["cont"] if X is not None else None


def add_docs(db, docs, via):
    """the ways a document gets into a Database object"""
    import io
    import os
    import tempfile
    import zipfile
    if via == "tree":
        for x in docs:
            db._process_xml_tree(ET.fromstring(x))
    elif via == "file":
        for x in docs:
            fd, path = tempfile.mkstemp(suffix=".odx-d")
            try:
                with os.fdopen(fd, "w", encoding="utf-8") as f:
                    f.write(x)
                db.add_odx_file(path)
            finally:
                os.unlink(path)
    else:   # a PDX archive handed over as a binary stream
        bio = io.BytesIO()
        with zipfile.ZipFile(bio, "w") as z:
            for i, x in enumerate(docs):
                z.writestr(f"doc{i}.odx-d", x)
        bio.seek(0)
        db.add_pdx_file(bio)


def apply_step(db, step, state):
    """modify the Database object as the step says (no refresh); `state` keeps the Python objects taken out in place"""
    from odxtools.nameditemlist import NamedItemList
    op = step["op"]
    if op == "load":
        add_docs(db, step["xml"], step.get("via", "tree"))
    elif op in ("replace", "remove-container"):
        db.diag_layer_containers = NamedItemList([c for c in db.diag_layer_containers if c.short_name != step["container"]])
        if op == "replace":
            add_docs(db, [step["xml"]], step["via"])
    elif op == "add":
        add_docs(db, [step["xml"]], step["via"])
    elif op == "reload-all":
        db.diag_layer_containers = NamedItemList()
        add_docs(db, step["xml"], step["via"])
    elif op in ("drop-inplace", "readd-inplace"):
        raw = None
        for c in db.diag_layer_containers:
            for pl in c.diag_layers:
                if pl.short_name == step["layer"]:
                    raw = pl.diag_layer_raw
        lst = (getattr(raw.diag_data_dictionary_spec, step["list"][5:]) if step["list"].startswith("ddds.")
               else getattr(raw, step["list"]))
        key = (step["layer"], step["list"], step["id"])
        if op == "drop-inplace":
            po = by_id([x for x in lst if hasattr(x, "odx_id")], step["id"])
            lst.pop(next(i for i, x in enumerate(lst) if x is po))
            state.setdefault("removed", {})[key] = po
        else:
            lst.insert(step["index"], state["removed"].pop(key))
    elif op == "refresh-only":
        pass
    elif op == "retarget":
        from odxtools.utils import retarget_snrefs
        try:     # (what retarget_snrefs itself does is judged by check_retarget; here only the refresh() after it counts)
            for c in db.diag_layer_containers:
                for pl in c.diag_layers:
                    if pl.short_name == step["layer"]:
                        retarget_snrefs(db, pl)
        except Exception:  # noqa
            pass
    else:
        raise ValueError(op)


def run_step(db, step, state):
    """apply + refresh; -> error class or None"""
    from odxtools.exceptions import OdxError
    try:
        with warnings.catch_warnings():
            warnings.simplefilter("ignore")
            apply_step(db, step, state)
            db.refresh()
        return None
    except KeyError:
        return "key"
    except OdxError:
        return "odx"
    except Exception as e:  # noqa
        return "foreign:" + type(e).__name__


def new_database():
    from odxtools.database import Database
    return Database()


def plan_vanish(g0, pick, edit, mode, via):
    """enumerated small scope: the ID-carrying object `pick` = (layer, list, id) vanishes (`drop`) resp. gets another id
    (`reid`) -- by a new revision of its container (`mode` replace) or by taking it out of the layer's list in place --
    and comes back in the next generation. -> [(step, g1), (step, g2)] or None (steered away from, see description_ok)"""
    import copy
    import random
    rng = random.Random(0)
    lname, k, lid = pick
    g1 = clone(g0)
    info = edit_description(g1, rng, edit, pick=pick)
    if info is None:
        return None
    cname = layer_cont(g0, lname)
    if mode == "replace":
        c = next(x for x in g1.containers if x["name"] == cname)
        g1.containers.remove(c)
        g1.containers.append(c)
        reflatten(g1)
        s1 = {"op": "replace", "container": cname, "xml": None, "via": via, "info": info}
    else:
        s1 = {"op": "drop-inplace", "layer": lname, "list": INPLACE[k], "id": lid, "info": info}
    rebind_dcrefs(g1)
    if not description_ok(g1):
        return None
    if mode == "replace":
        s1["xml"] = container_doc(g1, cname)
    g1.features.add("gen:" + edit)
    g2 = clone(g1)
    if mode == "replace":
        c = next(x for x in g2.containers if x["name"] == cname)
        g2.containers.remove(c)
        g2.containers.append(copy.deepcopy(next(x for x in g0.containers if x["name"] == cname)))
        reflatten(g2)
        rebind_dcrefs(g2)
        s2 = {"op": "replace", "container": cname, "xml": container_doc(g2, cname), "via": via, "info": {"edit": "restore"}}
    else:
        X0, X2 = layer_named(g0, lname), layer_named(g2, lname)
        X2[k].insert(info["index"], copy.deepcopy(X0[k][info["index"]]))
        rebind_dcrefs(g2)
        s2 = {"op": "readd-inplace", "layer": lname, "list": INPLACE[k], "id": lid, "index": info["index"], "info": {"edit": "readd"}}
    if not description_ok(g2):
        return None
    g2.features.add("gen:" + s2["info"]["edit"])
    return [(s1, g1), (s2, g2)]
