"""Shared generators of *malformed* inputs for C04 (values), C05 (byte strings) and C17 (both, under flag schedules).

Values: `value_mutants(rng, comp, value)` takes a description (odxgen.desc.Composite) and a VALID assignment and
yields `(tag, mutated assignment)`: exactly one site of the value tree is damaged per mutant (leaf replaced by a
boundary +-1 of its representable range, by a value of a wrong Python type, by an over-/under-long string or
byte field, a non-encodable character, a terminator inside the value; lists too short/long; unknown mux case /
table row / DTC; parameters missing / unknown; inconsistent length keys; the whole value of a wrong type).
`expect(comp, value, trig)` is the value tree the property demands from decode(encode(value)) *if* the encoder
accepts: the requested values themselves (supplied values are never replaced by constants or defaults),
completed with defaults/constants/derived keys, quantised the way the description prescribes (compu method
resolution, IEEE binary32).  It raises `Unpredictable` when the request is so ill-typed that no expectation can
be derived (then `embeds` is the fallback oracle: nothing that was supplied may be missing or different).

Byte strings: `byte_strings(rng, comp, own, tier)` yields `(family, bytes)`: own encodings, every proper prefix,
single-byte mutations, extensions, all strings of length <= 3 (2 in quick) over {00,01,7f,80,ff}+constants of the
description, random strings.
"""
import itertools
import math

from odxgen import desc as D
from odxgen import values as V
from odxgen.sexp import DtcVal


class Unpredictable(Exception):
    pass


class Unjudgeable(Unpredictable):
    """no expectation *and* no fallback judgement (e.g. the exact conversion is within float rounding of a tie)"""


# ------------------------------------------------------------------ relaxed comparison
def rnorm(v):
    """comparable form: `==`-equal values of different Python types are identified (True/1, 2.0/2, list/tuple,
    bytes/bytearray), floats otherwise by IEEE bits, NaN as one value, DTCs by trouble code"""
    if isinstance(v, bool):
        return int(v)
    if isinstance(v, int):
        return v
    if isinstance(v, float):
        if math.isnan(v):
            return ("nan",)
        if v.is_integer():
            return int(v)
        return ("f", V.fbits(v))
    if isinstance(v, (bytes, bytearray, memoryview)):
        return ("b", bytes(v).hex())
    if isinstance(v, DtcVal):
        return ("dtc", v.code)
    if type(v).__name__ == "DiagnosticTroubleCode":
        return ("dtc", v.trouble_code)
    if isinstance(v, dict):
        return {k: rnorm(x) for k, x in v.items()}
    if isinstance(v, (list, tuple)):
        return [rnorm(x) for x in v]
    return v


def embeds(decoded, supplied) -> bool:
    """fallback oracle: every supplied datum is present and equal in the decoded tree"""
    if isinstance(supplied, dict):
        if len(supplied) == 1 and isinstance(decoded, (list, tuple)) and len(decoded) == 2:
            k, x = next(iter(supplied.items()))      # mux given as {case: value}
            return rnorm(decoded[0]) == rnorm(k) and embeds(decoded[1], x)
        return isinstance(decoded, dict) and all(k in decoded and embeds(decoded[k], x) for k, x in supplied.items())
    if isinstance(supplied, (list, tuple)):
        if isinstance(decoded, (list, tuple)) and len(decoded) == len(supplied):
            if len(supplied) == 2 and isinstance(supplied[0], int) and isinstance(decoded[0], str):
                return embeds(decoded[1], supplied[1])     # mux selected by key, decoded by name
            return all(embeds(d, s) for d, s in zip(decoded, supplied))
        return False
    if supplied is None:
        return True
    if isinstance(supplied, (str, bytes, bytearray)) and len(supplied) == 0 and isinstance(decoded, (list, tuple)) and not decoded:
        return True                                       # empty sequence of any kind for a field: nothing to lose
    a, b = rnorm(decoded), rnorm(supplied)
    if a == b:
        return True
    if type(decoded).__name__ == "DiagnosticTroubleCode" and isinstance(supplied, str):
        return decoded.short_name == supplied
    if isinstance(supplied, float) and isinstance(decoded, float) and not math.isinf(supplied):
        try:
            return V.fbits(V.f32(supplied)) == V.fbits(decoded)
        except OverflowError:
            return False
    return False


# ------------------------------------------------------------------ expectation
def _canon_simple(dop, v):
    """requested physical value -> the physical value the description can carry for it (None = not carried)"""
    phys = dop.phys
    if isinstance(v, bool):
        v = int(v)
    if phys in ("A_INT32", "A_UINT32"):
        if not isinstance(v, int):
            raise Unpredictable("non-int for int")
    elif phys in ("A_FLOAT32", "A_FLOAT64"):
        if not isinstance(v, (int, float)):
            raise Unpredictable("non-number for float")
    elif phys == "A_BYTEFIELD":
        if not isinstance(v, (bytes, bytearray)):
            raise Unpredictable("non-bytes")
        v = bytes(v)
    else:
        if not isinstance(v, str):
            raise Unpredictable("non-str")
    cm = dop.compu
    if isinstance(cm, D.Identical):
        out = v
        m = getattr(dop.dct, "mask", None)
        if m is not None and not dop.dct.condensed:
            # BIT-MASK is applied when encoding (prescribed by the description; tests/test_encoding.py::test_bit_mask)
            if isinstance(out, int):
                out = out & m
            elif isinstance(out, bytes) and out:
                out = (int.from_bytes(out, "big") & m & ((1 << (8 * len(out))) - 1)).to_bytes(len(out), "big")
    elif isinstance(cm, (D.Linear, D.TextTable)):
        try:
            if isinstance(v, float) and (math.isnan(v) or math.isinf(v)):
                raise Unpredictable("non-finite through compu")
            if isinstance(cm, D.Linear) and dop.dct.bt in ("A_INT32", "A_UINT32") and cm.num1 != 0:
                # odxtools computes in binary64: when the exact quotient is (nearly) half-way between two internal values the
                # rounding direction is a matter of float arithmetic, which is outside the property
                q = (V.Fraction(v) * V.Fraction(cm.den) - V.Fraction(cm.num0)) / V.Fraction(cm.num1)
                frac = q - (q.numerator // q.denominator)
                if abs(frac - V.Fraction(1, 2)) <= V.Fraction(1, 10 ** 9) * max(1, abs(q)):
                    raise Unjudgeable("rounding tie within float precision")
            x = V.to_internal(dop, v)
            if x is None:
                raise Unpredictable("no inverse image")
            if isinstance(cm, D.Linear) and isinstance(x, float) and dop.dct.bt == "A_FLOAT32":
                x = V.f32(x)
            out = V.to_physical(dop, x)
            if out is None:
                raise Unpredictable("outside compu domain")
        except (V.Unsupported, ZeroDivisionError, OverflowError, TypeError, ValueError) as e:
            raise Unpredictable(str(e))
    else:
        raise Unpredictable("compu")
    if phys in ("A_FLOAT32", "A_FLOAT64") and isinstance(out, int):
        try:
            out = float(out)
        except OverflowError:
            raise Unpredictable("int too large for float")
    if (phys == "A_FLOAT32" or (isinstance(cm, D.Identical) and dop.dct.bt == "A_FLOAT32")) and isinstance(out, float):
        try:
            out = V.f32(out)
        except OverflowError:
            return ("\x00finite-value-outside-binary32", out)       # must be rejected, infinity is not the requested value
    return out


def expect_dop(dop, v, siblings, sib_params, trig):
    if isinstance(dop, D.SimpleDop):
        return _canon_simple(dop, v)
    if isinstance(dop, D.DtcDop):
        if isinstance(v, DtcVal):
            return v
        if isinstance(v, str):          # odxtools accepts the short name of a DTC
            hit = [c for c, n in dop.dtcs if n == v]
            if len(hit) == 1:
                return DtcVal(hit[0])
            return ("\x00requested-unknown-dtc", v)
        if not isinstance(v, int):
            raise Unpredictable("dtc by non-int")
        return DtcVal(int(v))
    if isinstance(dop, D.Struct):
        if not isinstance(v, dict):
            raise Unpredictable("non-dict for structure")
        return expect_params(dop.params, v, trig)
    if isinstance(dop, D.FIELDS):
        if not isinstance(v, (list, tuple)):
            raise Unpredictable("non-list for field")
        return [expect_dop(dop.item, x, None, None, trig) for x in v]
    if isinstance(dop, D.Mux):
        if isinstance(v, dict) and len(v) == 1:
            v = next(iter(v.items()))
        if not isinstance(v, (list, tuple)) or len(v) != 2:
            raise Unpredictable("mux value")
        sel, cv = v
        if isinstance(sel, bool):
            sel = int(sel)
        if isinstance(sel, int):
            hit = next((c for c in dop.cases if c.lower <= sel <= c.upper), None)
        elif isinstance(sel, str):
            hit = next((c for c in dop.cases if c.name == sel), None)
            if hit is None and not (dop.default and dop.default[0] == sel):
                return ("\x00requested-unknown-case:" + sel, None)      # can never be what decode returns
        elif sel is None:
            hit = None                  # None selects the default case (rejected if there is none)
        else:
            raise Unpredictable("mux selector")
        if hit is None and dop.default is None:
            return ("\x00requested-unknown-key", None)
        name, st = (hit.name, hit.struct) if hit else dop.default
        if st is None:
            if cv not in ({}, None):
                return (name, cv)       # content supplied for a case without structure: cannot come back
            return (name, {})
        if not isinstance(cv, dict):
            raise Unpredictable("mux content")
        return (name, expect_params(st.params, cv, trig))
    if isinstance(dop, D.EnvDataDesc):
        try:
            return V.complete_dop(dop, v, siblings, sib_params, trig)
        except Exception as e:  # noqa
            raise Unpredictable("env-data " + type(e).__name__)
    raise Unpredictable(type(dop).__name__)


def expect_params(params, value, trig=None):
    if not isinstance(value, dict):
        raise Unpredictable("non-dict")
    out = {}
    names = {p.name for p in params}
    for k in value:
        if k not in names:
            out[k] = value[k]           # unknown parameter: can never come back -> acceptance is a violation
    for p in params:
        t = p.type
        given = p.name in value and value[p.name] is not None
        v = value.get(p.name)
        if t == "coded-const":
            out[p.name] = v if given else p.value
        elif t == "phys-const":
            out[p.name] = expect_dop(p.dop, v if given else p.value, None, None, trig)
        elif t in ("value", "system"):
            if not given:
                v = p.default
                if v is None and t == "value":
                    out[p.name] = "\x00required-parameter-missing"      # must be rejected: nothing decode returns equals this
                    continue
                if v is None:
                    raise Unpredictable("implicit SYSTEM value")
            out[p.name] = expect_dop(p.dop, v, {**value, **out}, params, trig)
        elif t == "reserved":
            out[p.name] = 0                 # a supplied value is ignored by design (see C04 ASSUMPTIONS)
        elif t == "matching-request":
            if trig is None or len(trig) < p.reqpos + p.bytelen:
                raise Unpredictable("no request to echo")
            out[p.name] = int.from_bytes(trig[p.reqpos:p.reqpos + p.bytelen], "little")
        elif t == "nrc-const":
            if given:
                out[p.name] = v
            else:
                ov = p.meta.get("overlay")
                if ov is not None:
                    q = next(x for x in params if x.name == ov)
                    qv = value.get(q.name, q.default)
                    try:
                        out[p.name] = V.to_internal(q.dop, qv)
                    except Exception:  # noqa
                        raise Unpredictable("nrc overlay")
                else:
                    out[p.name] = 0
        elif t == "length-key":
            if given:
                out[p.name] = v
                if isinstance(v, int) and not isinstance(v, bool) and not isinstance(p.dop.compu, D.Identical):
                    out[p.name] = _canon_simple(p.dop, v)       # a key behind a compu method comes back as the length it can express
            else:
                us = V.users_of_key(params, p.name)
                if not us:
                    raise Unpredictable("length key without user")
                u = us[0]
                uv = value.get(u.name, u.default)
                try:
                    out[p.name] = V.key_physical(p.dop, V.derived_length_key(u.dop.dct, V.to_internal(u.dop, uv)))
                except Exception:  # noqa
                    raise Unpredictable("derived length key")
                if out[p.name] is None:
                    raise Unpredictable("derived length key not expressible")
        elif t == "table-key":
            if given:
                out[p.name] = v
            elif p.row is not None:
                out[p.name] = p.row
            else:
                u = next((u for u in params if u.type == "table-struct" and u.key == p.name), None)
                tv = value.get(u.name) if u is not None else None
                if not isinstance(tv, (list, tuple)) or len(tv) != 2:
                    raise Unpredictable("table key underivable")
                out[p.name] = tv[0]
        elif t == "table-struct":
            if not given or not isinstance(v, (list, tuple)) or len(v) != 2:
                raise Unpredictable("table-struct value")
            rn, rv = v
            key = next(k for k in params if k.name == p.key)
            r = next((r for r in key.table.rows if r.name == rn), None)
            if r is None:
                out[p.name] = ("\x00requested-unknown-row", rv)
            elif r.struct is not None:
                if not isinstance(rv, dict):
                    raise Unpredictable("row content")
                out[p.name] = (rn, expect_params(r.struct.params, rv, trig))
            elif r.dop is not None:
                out[p.name] = (rn, expect_dop(r.dop, rv, None, None, trig))
            else:
                out[p.name] = (rn, rv)
    return out


def expect(comp, value, trig=None):
    return expect_params(comp.params, value, trig)


# ------------------------------------------------------------------ leaf mutants
WRONG_TYPES = [("none", None), ("float", 2.5), ("float-int", 2.0), ("str", "12"), ("bytes", b"\x01\x02"), ("bool", True), ("list", [1]),
               ("dict", {"a": 1}), ("tuple", (1, 2)), ("int", 5), ("bytearray", bytearray(b"\x03")), ("nan", float("nan")),
               ("inf", float("inf")), ("empty-str", ""), ("empty-bytes", b""), ("huge-int", 10 ** 400), ("neg", -1)]


def _int_bounds(dop):
    """physical boundary candidates of an integer-valued simple DOP"""
    dct = dop.dct
    out = set()
    if isinstance(dct, D.Std):
        n = dct.bitlen
        lo, hi = V.int_range(dct.bt, dct.enc if dct.enc in ("1C", "2C", "SM") else None, n)
        ints = {lo - 1, lo, hi, hi + 1, hi + 2, 1 << n, (1 << n) - 1, -(1 << n), -(1 << n) - 1, (1 << n) + 1, -(1 << (n - 1)) - 1, 1 << 64, -(1 << 64),
                200, -129, -256, -257, 128, -128, 127, 255, 256}
        if dct.enc in ("BCD-P", "BCD-UP"):
            sp = 4 if dct.enc == "BCD-P" else 8
            dg = n // sp
            ints |= {10 ** dg - 1, 10 ** dg, 10 ** (dg + 1) - 1, 10 ** dg + 9, 2 * 10 ** dg, 16, 0xA, 0x99, 100}
    else:
        ints = {-1, 0, 255, 256, 65535, 65536, 1 << 32, -(1 << 31) - 1, 1 << 64}
    cm = dop.compu
    for x in ints:
        if isinstance(cm, D.Identical):
            out.add(x)
        elif isinstance(cm, D.Linear):
            try:
                q = (V.Fraction(cm.num0) + V.Fraction(cm.num1) * x) / V.Fraction(cm.den)
                out.add(V.round_half_even(q) if dop.phys in ("A_INT32", "A_UINT32") else float(q))
            except (OverflowError, ZeroDivisionError):
                pass
    if isinstance(cm, D.Linear):
        for lim in (cm.lower, cm.upper):
            if lim is not None:
                for x in (lim[0] - 1, lim[0], lim[0] + 1):
                    try:
                        q = (V.Fraction(cm.num0) + V.Fraction(cm.num1) * x) / V.Fraction(cm.den)
                        out.add(V.round_half_even(q) if dop.phys in ("A_INT32", "A_UINT32") else float(q))
                    except (OverflowError, ZeroDivisionError):
                        pass
    return sorted(out, key=lambda z: (abs(z), z))


def _str_mutants(dop, v):
    dct = dop.dct
    codec = V.str_codec(dct.bt, dct.enc, D.is_hl(dct)) if dct.bt in D.STRINGS else "utf-8"
    outside = {"iso-8859-1": "€", "iso-8859-2": "å", "cp1252": "\u0081", "utf-8": "\udc80", "utf-16-be": "\udc80", "utf-16-le": "\ud800"}[codec]
    yield "str+1", v + "x"
    yield "str+2", v + "xy"
    yield "str-1", v[:-1]
    yield "str-empty", ""
    yield "str+many", v + "y" * 300
    yield "str-nonencodable", (v[:-1] if v else "") + outside
    yield "str-nonencodable+1", v + outside
    yield "str-astral", (v[:-1] if v else "") + "\U0001F600"
    yield "str-multibyte", (v[:-1] if v else "") + "é"
    yield "str-nul", (v[:-1] if v else "") + "\x00"
    yield "str-nul-inside", "a\x00b" if len(v) < 3 else v[0] + "\x00" + v[2:]
    yield "str-ff", (v[:-1] if v else "") + "ÿ"
    yield "str-ffff", (v[:-1] if v else "") + "￿"
    yield "str-as-bytes", v.encode("utf-8", "replace")


def _bytes_mutants(dop, v):
    yield "bytes+1", v + b"\x55"
    yield "bytes-1", v[:-1]
    yield "bytes+2", v + b"\x55\xaa"
    yield "bytes-empty", b""
    yield "bytes+many", v + bytes(300)
    yield "bytes-nul", (v[:-1] + b"\x00") if v else b"\x00"
    yield "bytes-ff", (v[:-1] + b"\xff") if v else b"\xff"
    yield "bytes-nul-inside", v[:1] + b"\x00" + v[2:] if len(v) >= 3 else b"\x01\x00\x02"
    yield "bytes-ff-inside", v[:1] + b"\xff" + v[2:] if len(v) >= 3 else b"\x01\xff\x02"
    yield "bytes-as-bytearray", bytearray(v)
    yield "bytes-as-hexstr", v.hex()
    yield "bytes-as-list", list(v)
    yield "bytes-as-memoryview", v        # (memoryview is not JSON-able; kept as bytes)


def simple_mutants(rng, dop, v, wrong_types=True):
    phys = dop.phys
    if phys in ("A_INT32", "A_UINT32"):
        for x in _int_bounds(dop):
            yield f"int-boundary", x
        if isinstance(v, int):
            yield "int+2^70", v + (1 << 70)
    elif phys in ("A_FLOAT32", "A_FLOAT64"):
        for tag, x in (("float-inf", float("inf")), ("float-ninf", float("-inf")), ("float-nan", float("nan")), ("float-1e39", 1e39),
                       ("float-max", 1.7976931348623157e308), ("float-tiny", 5e-324), ("float-as-int", 3), ("float-bigint", 2 ** 24 + 1),
                       ("float-hugeint", 10 ** 400), ("float-2^63", 2.0 ** 63), ("float-half", 0.5)):
            yield tag, x
    elif phys == "A_BYTEFIELD" and isinstance(v, (bytes, bytearray)):
        yield from _bytes_mutants(dop, bytes(v))
    elif isinstance(v, str):
        if isinstance(dop.compu, D.TextTable):
            yield "text-unknown", v + "?"
            yield "text-empty", ""
            yield "text-case", v.upper() if v.upper() != v else v.lower()
            yield "text-as-int", 0
        else:
            yield from _str_mutants(dop, v)
    if wrong_types:
        own = {"A_INT32": {"int", "neg", "bool"}, "A_UINT32": {"int", "bool"}, "A_FLOAT32": {"float", "float-int", "int", "neg"},
               "A_FLOAT64": {"float", "float-int", "int", "neg"}, "A_BYTEFIELD": {"bytes", "empty-bytes", "bytearray"}}.get(phys, {"str", "empty-str"})
        for tag, x in WRONG_TYPES:
            if tag not in own or tag in ("bool", "neg"):
                yield "type:" + tag, x


def _first_name(params, used):
    i = 0
    while f"zz{i}" in used:
        i += 1
    return f"zz{i}"


def dop_mutants(rng, dop, v, params=None, value=None, depth=0):
    """(tag, v') for one DOP-typed site"""
    if isinstance(dop, D.SimpleDop):
        yield from simple_mutants(rng, dop, v)
        return
    if isinstance(dop, D.DtcDop):
        known = {c for c, _ in dop.dtcs}
        unk = next(x for x in itertools.count(1) if x not in known)
        for tag, x in (("dtc-unknown", unk), ("dtc-name", dop.dtcs[0][1]), ("dtc-neg", -1), ("dtc-huge", 1 << 40), ("type:none", None),
                       ("type:float", float(dop.dtcs[0][0])), ("type:str", "P0000"), ("type:list", [dop.dtcs[0][0]]), ("type:bool", True)):
            yield tag, x
        return
    if isinstance(dop, D.Struct):
        if isinstance(v, dict):
            for tag, x in params_mutants(rng, dop.params, v, depth + 1):
                yield "struct/" + tag, x
        for tag, x in (("type:none", None), ("type:list", [v]), ("type:int", 0), ("type:str", "x"), ("type:tuple", ("a", v))):
            yield "struct-" + tag, x
        return
    if isinstance(dop, D.FIELDS):
        items = list(v) if isinstance(v, (list, tuple)) else []
        sample = items[0] if items else None
        if sample is None:
            try:
                sample = V.gen_params_value(rng, dop.item.params)
            except Exception:  # noqa
                sample = {}
        yield "field+1", items + [sample]
        yield "field+3", items + [sample] * 3
        if items:
            yield "field-1", items[:-1]
            yield "field-empty", []
        if isinstance(dop, D.DynLenField) and isinstance(dop.countdop.dct, D.Std) and dop.countdop.dct.bitlen <= 8:
            yield "field-count-overflow", [sample] * (1 << dop.countdop.dct.bitlen)
        if isinstance(dop, D.EopField):
            if dop.max is not None:
                yield "field>max", [sample] * (dop.max + 1)
            if dop.min:
                yield "field<min", [sample] * (dop.min - 1)
        if isinstance(dop, D.EndMarkerField):
            first = dop.item.params[0]
            if first.type == "value":
                yield "field-item-equals-end-marker", items[:1] + [{**sample, first.name: dop.term}] + items[1:]
        for tag, x in (("type:none", None), ("type:dict", sample), ("type:tuple", tuple(items)), ("type:int", len(items)), ("type:str", "ab"),
                       ("type:empty-str", ""), ("type:bytes", b"\x01"), ("items-not-dict", [1] * max(1, len(items))),
                       ("items-none", [None] * max(1, len(items)))):
            yield "field-" + tag, x
        for i, it in enumerate(items[:2]):
            if isinstance(it, dict):
                for tag, x in params_mutants(rng, dop.item.params, it, depth + 1):
                    yield f"item/" + tag, items[:i] + [x] + items[i + 1:]
        return
    if isinstance(dop, D.Mux):
        sel, cv = v if isinstance(v, tuple) and len(v) == 2 else (None, {})
        lo, hi = V.int_range(dop.switch_dop.dct.bt, dop.switch_dop.dct.enc, dop.switch_dop.dct.bitlen) if isinstance(dop.switch_dop.dct, D.Std) else (0, 255)
        covered = lambda k: any(c.lower <= k <= c.upper for c in dop.cases)
        yield "mux-unknown-case", ("no_such_case", cv)
        yield "mux-case-none", (None, cv)
        yield "mux-key-out-of-range", (hi + 1, cv)
        yield "mux-key-negative", (lo - 1, cv)
        free = [k for k in range(max(lo, 0), min(hi, 300) + 1) if not covered(k)]
        if free:
            yield "mux-key-uncovered", (free[0], cv)
        if dop.default is not None:
            dv = {}
            if dop.default[1] is not None:
                try:
                    dv = V.gen_params_value(rng, dop.default[1].params)
                except Exception:  # noqa
                    dv = {}
            yield "mux-default-by-name", (dop.default[0], dv)
        for c in dop.cases:
            if c.name != sel:
                yield "mux-other-case-same-content", (c.name, cv)
                break
        yield "mux-bool-selector", (True, cv)
        yield "mux-float-selector", (float(dop.cases[0].lower), cv)
        yield "mux-as-dict", {sel: cv} if isinstance(sel, str) else {"x": cv}
        yield "mux-as-list", [sel, cv]
        yield "mux-3-tuple", (sel, cv, 0)
        yield "mux-1-tuple", (sel,)
        yield "mux-content-none", (sel, None)
        yield "mux-content-list", (sel, [cv])
        yield "mux-type:none", None
        yield "mux-type:str", "c1"
        yield "mux-type:int", 0
        if isinstance(cv, dict):
            st = None
            if isinstance(sel, str):
                hit = next((c for c in dop.cases if c.name == sel), None)
                st = hit.struct if hit else (dop.default[1] if dop.default else None)
            elif isinstance(sel, int):
                hit = next((c for c in dop.cases if c.lower <= sel <= c.upper), None)
                st = hit.struct if hit else (dop.default[1] if dop.default else None)
            elif sel is None and dop.default:
                st = dop.default[1]
            if st is not None:
                for tag, x in params_mutants(rng, st.params, cv, depth + 1):
                    yield "case/" + tag, (sel, x)
            else:
                yield "mux-content-for-structureless-case", (sel, {"a": 1})
        return
    if isinstance(dop, D.EnvDataDesc):
        for tag, x in (("env-type:none", None), ("env-type:list", []), ("env-unknown", {**(v if isinstance(v, dict) else {}), "zz_unknown": 1})):
            yield tag, x
        return


def params_mutants(rng, params, value, depth=0):
    """(tag, value') : one damaged site in a parameter list's assignment"""
    names = [p.name for p in params]
    # unknown / missing / None
    yield "unknown-param", {**value, _first_name(params, set(value) | set(names)): 1}
    if names:
        yield "unknown-param-case", {**value, names[0].upper() + "_": 1}
    for p in params:
        t = p.type
        if p.name in value:
            v2 = dict(value)
            del v2[p.name]
            yield f"missing:{t}", v2
            yield f"none:{t}", {**value, p.name: None}
        cur = value.get(p.name, p.default if t == "value" else None)
        if t == "value" and p.meta.get("overlay_of"):
            continue        # harness device to set an NRC-CONST: values outside the NRC list are outside the envelope
        if t in ("value", "system", "length-key"):
            if cur is None and t == "length-key":
                for x in (0, 8, 16, -8, 12, 1 << 20, 7):
                    yield "length-key-explicit", {**value, p.name: x}
                for tag, x in WRONG_TYPES[:8]:
                    yield "length-key-type:" + tag, {**value, p.name: x}
                continue
            if cur is None:
                continue
            if t == "length-key" and isinstance(cur, int):
                for x in (cur + 8, cur - 8, cur + 1, 0, -8, cur * 2 + 8):
                    yield "length-key-inconsistent", {**value, p.name: x}
            if depth <= 3:
                for tag, x in dop_mutants(rng, p.dop, cur, params, value, depth):
                    yield f"{t}:{tag}", {**value, p.name: x}
        elif t in ("coded-const", "phys-const"):
            c = p.value
            alts = []
            if isinstance(c, bool) or not isinstance(c, (int, float, str, bytes)):
                alts = [None]
            elif isinstance(c, int):
                alts = [c + 1, c - 1, float(c), str(c), bool(c), c + 256]
            elif isinstance(c, float):
                alts = [c + 1.0, str(c)]
            elif isinstance(c, str):
                alts = [c + "x", c[:-1], c.encode()]
            elif isinstance(c, bytes):
                alts = [c + b"\x00", c[:-1], c.hex()]
            for a in alts:
                yield f"{t}-other-value", {**value, p.name: a}
        elif t == "reserved":
            for a in (1, 0, (1 << (p.bitlen or 1)) - 1, "x"):
                yield "reserved-supplied", {**value, p.name: a}
        elif t == "matching-request":
            for a in (0, 1, b"\x01", "x"):
                yield "matching-request-supplied", {**value, p.name: a}
        elif t == "nrc-const":
            for a in ((p.values or [0])[0], 0, "x"):
                yield "nrc-const-supplied", {**value, p.name: a}
        elif t == "table-key":
            rows = [r.name for r in p.table.rows]
            for a in ("no_such_row", 0, None, rows[-1], rows[0], 1.5, [rows[0]]):
                yield "table-key-supplied", {**value, p.name: a}
        elif t == "table-struct":
            key = next((k for k in params if k.name == p.key), None)
            if key is None or not isinstance(cur, tuple):
                continue
            rn, rv = cur
            yield "table-struct-unknown-row", {**value, p.name: ("no_such_row", rv)}
            yield "table-struct-row-none", {**value, p.name: (None, rv)}
            yield "table-struct-row-int", {**value, p.name: (0, rv)}
            yield "table-struct-not-a-pair", {**value, p.name: rv}
            yield "table-struct-3-tuple", {**value, p.name: (rn, rv, 1)}
            yield "table-struct-content-none", {**value, p.name: (rn, None)}
            yield "table-struct-content-int", {**value, p.name: (rn, 5)}
            for r in key.table.rows:
                if r.name != rn:
                    yield "table-struct-other-row-same-content", {**value, p.name: (r.name, rv)}
                    if key.row is None:
                        yield "table-struct-key-mismatch", {**value, key.name: r.name}
                    break
            r = next((r for r in key.table.rows if r.name == rn), None)
            if r is not None and r.struct is not None and isinstance(rv, dict) and depth <= 3:
                for tag, x in params_mutants(rng, r.struct.params, rv, depth + 1):
                    yield "row/" + tag, {**value, p.name: (rn, x)}
            elif r is not None and r.dop is not None and depth <= 3:
                for tag, x in dop_mutants(rng, r.dop, rv, None, None, depth + 1):
                    yield "row-dop/" + tag, {**value, p.name: (rn, x)}


def value_mutants(rng, comp, value, limit=None):
    """all single-site mutants of a valid assignment (optionally a random sample of `limit` of them, whole-value
    type errors always included)"""
    tops = [("top-type:none", None), ("top-type:list", [value]), ("top-type:str", "x"), ("top-type:int", 0), ("top-type:tuple", ("a", value)),
            ("top-type:bytes", b"\x22")]
    ms = list(params_mutants(rng, comp.params, value))
    if limit is not None and len(ms) > limit:
        # keep one of every tag kind, fill up randomly
        by = {}
        for m in ms:
            by.setdefault(m[0], []).append(m)
        keep = [rng.choice(v) for v in by.values()]
        rest = [m for m in ms if all(m is not k for k in keep)]
        rng.shuffle(rest)
        ms = (keep + rest)[:max(limit, 0)] if len(keep) <= limit else rng.sample(keep, limit)
    return tops + ms


def trigger_mutants(comp, trig):
    need = 0
    for p, _ in D.walk_params(comp.params):
        if p.type == "matching-request":
            need = max(need, p.reqpos + p.bytelen)
    if need:
        yield "trigger-none", None
        yield "trigger-short", (trig or bytes(need))[:need - 1]
        yield "trigger-empty", b""


# ------------------------------------------------------------------ byte strings (C05)
BASE_ALPHABET = [0x00, 0x01, 0x7f, 0x80, 0xff]


def constants_of(comp):
    """byte values that appear as constants in the description (SIDs, coded constants, NRCs, mux keys, table keys, DTC bytes)"""
    out = set()

    def add_int(x):
        if isinstance(x, int) and not isinstance(x, bool) and x >= 0:
            while True:
                out.add(x & 0xff)
                x >>= 8
                if not x:
                    break
    for p, _ in D.walk_params(comp.params):
        if p.type in ("coded-const", "phys-const"):
            add_int(p.value)
        if p.type == "nrc-const":
            for v in p.values or []:
                add_int(v)
        if p.table is not None:
            for r in p.table.rows:
                add_int(r.key)
        d = p.dop
        if isinstance(d, D.Mux):
            for c in d.cases:
                add_int(c.lower)
                add_int(c.upper)
        if isinstance(d, D.DtcDop):
            for c, _n in d.dtcs[:3]:
                add_int(c)
        if isinstance(d, D.EndMarkerField):
            add_int(d.term)
    return sorted(out)


def small_strings(alphabet, maxlen):
    for n in range(0, maxlen + 1):
        for t in itertools.product(alphabet, repeat=n):
            yield bytes(t)


def byte_strings(rng, own, alphabet, maxlen=2, n_random=20, n_mut=16, small_cap=None):
    """(family, bytes, index of the own PDU or None)"""
    seen = set()

    def emit(fam, b, k=None):
        b = bytes(b)
        if (fam == "own" or b not in seen):
            seen.add(b)
            return (fam, b, k)
        return None
    for k, pdu in enumerate(own):
        r = emit("own", pdu, k)
        if r:
            yield r
    for k, pdu in enumerate(own):
        for n in range(len(pdu)):
            r = emit("prefix", pdu[:n], k)
            if r:
                yield r
    for k, pdu in enumerate(own):
        if not pdu:
            continue
        idxs = list(range(len(pdu)))
        if len(idxs) > n_mut:
            idxs = sorted(rng.sample(idxs, n_mut))
        for i in idxs:
            for nb in {0x00, 0xff, pdu[i] ^ 0x01, pdu[i] ^ 0x80, (pdu[i] + 1) & 0xff, (pdu[i] + 2) & 0xff, (pdu[i] - 1) & 0xff, rng.getrandbits(8)}:
                if nb != pdu[i]:
                    r = emit("mutation", pdu[:i] + bytes([nb]) + pdu[i + 1:], k)
                    if r:
                        yield r
        for ext in (b"\x00", b"\xff", b"\x00\x00", bytes(rng.getrandbits(8) for _ in range(rng.randint(1, 4))), pdu, bytes(40)):
            r = emit("extension", pdu + ext, k)
            if r:
                yield r
        if len(pdu) > 1:
            i = rng.randrange(len(pdu))
            r = emit("deletion", pdu[:i] + pdu[i + 1:], k)
            if r:
                yield r
    smalls = list(small_strings(alphabet, maxlen))
    if small_cap is not None and len(smalls) > small_cap:
        head = [s for s in smalls if len(s) <= 1]
        smalls = head + rng.sample(smalls[len(head):], small_cap - len(head))
    for s in smalls:
        r = emit("small", s)
        if r:
            yield r
    for _ in range(n_random):
        n = rng.choice([1, 2, 3, 4, 5, 8, 12, 20, 64])
        style = rng.random()
        if style < 0.5:
            b = bytes(rng.getrandbits(8) for _ in range(n))
        elif style < 0.8:
            b = bytes(rng.choice(alphabet) for _ in range(n))
        else:
            b = bytes([rng.choice(alphabet)]) + bytes([rng.choice([0, 0xff])]) * (n - 1)
        r = emit("random", b)
        if r:
            yield r


# ------------------------------------------------------------------ guarded model driver
class GuardedDriver:
    """drop-in for common.Driver with a wall-clock guard per request line: the driver runs line-buffered (`stdbuf -oL`),
    requests are streamed in, replies are read with a timeout; a request the model does not answer in time (e.g. a bit
    length of 2^31) or on which the driver dies is answered `(unsupported)`, counted in ctx.counters['model_timeout'] /
    ['model_crash'], and the driver is restarted behind it — the harness must never hang because the model does"""

    def __init__(self, ctx, name="drv_codec", timeout=2.5):
        import common
        self.ctx, self.name = ctx, name
        self.exe = common.LEAN / ".lake" / "build" / "bin" / name
        self.lines = 0
        self.timeout = timeout

    def available(self):
        import shutil
        return self.exe.exists() and shutil.which("stdbuf") is not None

    def query(self, lines):
        import os
        import select
        import subprocess
        import threading
        out, pos, n = [], 0, len(lines)
        while pos < n:
            p = subprocess.Popen(["stdbuf", "-oL", str(self.exe)], stdin=subprocess.PIPE, stdout=subprocess.PIPE, stderr=subprocess.DEVNULL)
            chunk = lines[pos:]

            def feed(proc=p, data=chunk):
                try:
                    for k in range(0, len(data), 256):
                        proc.stdin.write(("\n".join(data[k:k + 256]) + "\n").encode())
                    proc.stdin.close()
                except (BrokenPipeError, OSError, ValueError):
                    pass
            th = threading.Thread(target=feed, daemon=True)
            th.start()
            fd, buf, dead = p.stdout.fileno(), b"", None
            while pos < n and dead is None:
                while b"\n" not in buf:
                    r, _, _ = select.select([fd], [], [], self.timeout)
                    if not r:
                        dead = "model_timeout"
                        break
                    data = os.read(fd, 1 << 16)
                    if not data:
                        dead = "model_crash"
                        break
                    buf += data
                if dead is None:
                    line, _, buf = buf.partition(b"\n")
                    out.append(line.decode(errors="replace"))
                    pos += 1
            p.kill()
            p.wait()
            th.join(timeout=1)
            if dead is not None and pos < n:
                self.ctx.count(dead)
                if self.ctx.counters.get(dead, 0) <= 3:
                    self.ctx.notes.append(f"{dead}: the model driver gave no answer (counted like unsupported): " + lines[pos][:400])
                out.append("(unsupported)")
                pos += 1
        self.lines += n
        return out


def guarded(ctx, name="drv_codec"):
    """install the guarded driver in ctx (ctx.driver(name) returns it from now on)"""
    d = GuardedDriver(ctx, name)
    ctx.drivers[name] = d
    return d


# ------------------------------------------------------------------ correspondence on the observables of C04/C05/C17
def coarse(reply: str) -> str:
    """reply class the properties speak about: every OdxError subclass is 'the library's own error'"""
    reply = reply.strip()
    if reply.startswith("(err "):
        return "(err foreign)" if "foreign" in reply else "(err odxerror)"
    return reply


class CoarseCorrespondence:
    """like codec_oracles.Correspondence, but replies are compared after `canon` (default: `coarse`) and the finer
    differences are only counted (histogram corr_fine_class_difference)"""

    def __init__(self, ctx, driver="drv_codec", canon=coarse):
        from odxgen import sexp as _sexp
        self._sexp = _sexp
        self.ctx, self.pending, self.canon = ctx, [], canon
        self.drv = ctx.drivers.get(driver) or guarded(ctx, driver)
        self.enabled = self.drv.available()
        if not self.enabled:
            ctx.notes.append(f"driver {driver} not built (or stdbuf missing): correspondence skipped, direct oracle only")

    def add(self, family, comp, line, impl_reply):
        if self.enabled and (comp is None or self._sexp.modelled(comp)):
            self.pending.append((family, line, impl_reply))
        elif self.enabled:
            self.ctx.count("corr_not_forwarded(other-compu)")

    def flush(self):
        if not self.enabled or not self.pending:
            return
        try:
            replies = self.drv.query([l for _, l, _ in self.pending])
        except Exception as e:  # noqa
            self.ctx.notes.append(f"driver failed: {e!r}"[:300])
            self.pending = []
            return
        for (fam, line, impl), rep in zip(self.pending, replies):
            rep = rep.strip()
            if rep in ("(unsupported)", "(not-implemented)", "(bad-args)", "(bad-line)"):
                self.ctx.count("corr_" + rep.strip("()"))
                continue
            self.ctx.traces += 1
            if self.canon(rep) != self.canon(impl):
                self.ctx.disagree(fam, line[:3000], rep[:1500], impl[:1500])
            elif rep != impl:
                self.ctx.histo("corr_fine_class_difference", f"model {rep[:14]} / impl {impl[:14]}")
        if self.pending:
            self.ctx.sample({"request": self.pending[0][1][:400], "impl": self.pending[0][2][:200]})
        self.pending = []
