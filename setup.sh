#!/bin/sh
# MANIFEST.setup_cmd: build every Lean target the checks need; tolerant (each check rebuilds its own targets anyway)
HERE="$(cd "$(dirname "$0")" && pwd)"
cd "$HERE/lean" || exit 1
for t in $(/venv/bin/python "$HERE/harness/targets.py"); do
  lake build "$t" >/dev/null 2>&1 || echo "setup: target $t failed to build (its check will report it)"
done
exit 0
