import OdxVerif.Common.Sexp
import OdxVerif.Model.Compare
/-! line-protocol driver for the compare/metrics model (property C18).
    Strings travel hex-encoded (UTF-8), "-" = empty string. Requests:
    `(compare <layer> <layer>)`, `(comparedb (sel h…) (new (l h <layer>)…) (old …))`, `(metrics (l h h (h…) (h…) none|(some h…))…)`;
    `<layer>` = `((s name key prefix req (pos …) (neg …)) …)` as produced by `harness/compare_lib.py`. -/
open OdxVerif OdxVerif.Compare

def strOfHex? (a : String) : Option String := do
  let bs ← bytesOfHex? a
  String.fromUTF8? (ByteArray.mk (bs.map UInt8.ofNat).toArray)

def hexOfStr (s : String) : String := hexAtom (s.toUTF8.toList.map (·.toNat))

def pStr (x : Sexp) : Option String := x.asAtom?.bind strOfHex?

def pOpt {α} (f : Sexp → Option α) : Sexp → Option (Option α)
  | .atom "none" => some none
  | .list [.atom "some", v] => (f v).map some
  | _ => none

def pPyVal : Sexp → Option PyVal
  | .list [.atom "i", v] => v.asInt?.map .int
  | .list [.atom "o", v] => (pStr v).map .other
  | _ => none

def pUnit : Sexp → Option UnitInfo
  | .list [k, a, b] => do pure ⟨← k.asNat?, ← pStr a, ← pStr b⟩
  | _ => none

def pSub : Sexp → Option DopSub
  | .list [.atom "pc", v] => (pPyVal v).map .physConst
  | .list [.atom "val", v] => (pOpt pPyVal v).map .value
  | .list [.atom "other"] => some .other
  | _ => none

def pKind : Sexp → Option ParamKind
  | .list [.atom "const", t, v] => do pure (.codedConst (← pStr t) (← pPyVal v))
  | .list [.atom "nrc", t, v] => do pure (.nrcConst (← pStr t) (← pStr v))
  | .list [.atom "dop", k, n, u, pt, sub] => do
    pure (.withDop ⟨← k.asNat?, ← pStr n, ← pOpt pUnit u, ← pOpt pStr pt⟩ (← pSub sub))
  | .list [.atom "plain"] => some .plain
  | _ => none

def pParam : Sexp → Option Param
  | .list [.atom "p", n, bp, bl, sem, pt, k] => do
    pure ⟨← pStr n, ← pOpt Sexp.asNat? bp, ← pOpt Sexp.asNat? bl, ← pOpt pStr sem, ← pStr pt, ← pKind k⟩
  | _ => none

def pParams (xs : List Sexp) : Option (List Param) := xs.mapM pParam

def pResp : Sexp → Option (List Param)
  | .list xs => pParams xs
  | _ => none

def pReq : Sexp → Option (Option (List Param))
  | .atom "none" => some none
  | .list (.atom "some" :: ps) => (pParams ps).map some
  | _ => none

def pPrefix : Sexp → Option (Option (List Nat))
  | .atom "none" => some none
  | .list [.atom "some", .atom h] => (bytesOfHex? h).map some
  | _ => none

def pService : Sexp → Option Service
  | .list [.atom "s", n, k, pf, rq, .list (.atom "pos" :: pos), .list (.atom "neg" :: neg)] => do
    pure ⟨← pStr n, ← pPrefix pf, ← k.asNat?, ← pReq rq, ← pos.mapM pResp, ← neg.mapM pResp⟩
  | _ => none

def pLayer : Sexp → Option (List Service)
  | .list xs => xs.mapM pService
  | _ => none

def kindTok : EntryKind → String
  | .req => "req" | .pos => "pos" | .neg => "neg" | .reqList => "reqlist"
  | .posParamList => "resplist-params" | .negParamList => "resplist-params"
  | .posList => "resplist" | .negList => "resplist"

def rowStr (r : Row) : String := s!"({hexOfStr r.attr.label} {hexOfStr r.old} {hexOfStr r.new})"

def entryStr (e : Entry) : String :=
  s!"({kindTok e.kind} {hexOfStr e.name} {" ".intercalate (e.rows.map rowStr)})"

def resultStr (r : Result) : String :=
  let nw := " ".intercalate (r.new.map (hexOfStr ·.name))
  let dl := " ".intercalate (r.deleted.map (hexOfStr ·.name))
  let rn := " ".intercalate (r.renamed.map fun (s, o) => s!"({hexOfStr s.name} {hexOfStr o})")
  let ch := " ".intercalate (r.changed.map fun (s, es) =>
    s!"({hexOfStr s.name} {hexOfStr (changedParams es)} {" ".intercalate (es.map entryStr)})")
  s!"(new {nw}) (deleted {dl}) (renamed {rn}) (changed {ch})"

def pLayerD : Sexp → Option LayerD
  | .list [.atom "l", n, l] => do pure ⟨← pStr n, ← pLayer l⟩
  | _ => none

def pLayerM : Sexp → Option LayerM
  | .list [.atom "l", n, t, .list ss, .list ds, cps] => do
    let c ← match cps with
      | .atom "none" => some none
      | .list (.atom "some" :: cs) => (cs.mapM pStr).map some
      | _ => none
    pure ⟨← pStr n, ← pStr t, ← ss.mapM pStr, ← ds.mapM pStr, c⟩
  | _ => none

def handle (sx : Sexp) : String :=
  match sx with
  | .list [.atom "compare", a, b] =>
    match pLayer a, pLayer b with
    | some l1, some l2 => s!"(ok {resultStr (compareLayers l1 l2)})"
    | _, _ => "(bad-args)"
  | .list [.atom "comparedb", .list (.atom "sel" :: sel), .list (.atom "new" :: n), .list (.atom "old" :: o)] =>
    match sel.mapM pStr, n.mapM pLayerD, o.mapM pLayerD with
    | some sel, some n, some o =>
      let r := compareDatabases n o sel
      let ls := " ".intercalate (r.layers.map fun (k, v) => s!"({hexOfStr k} {resultStr v})")
      s!"(ok (newlayers {" ".intercalate (r.newLayers.map hexOfStr)}) (deletedlayers {" ".intercalate (r.deletedLayers.map hexOfStr)}) (layers {ls}))"
    | _, _, _ => "(bad-args)"
  | .list (.atom "metrics" :: ls) =>
    match ls.mapM pLayerM with
    | some ls =>
      let rows := (metrics ls).map fun r => s!"({hexOfStr r.name} {hexOfStr r.vtype} {r.nServices} {r.nDops} {r.nComparams})"
      s!"(ok {" ".intercalate rows})"
    | none => "(bad-args)"
  | _ => "(bad-op)"

def main : IO Unit := driverMain handle
