import OdxVerif.Common.Sexp
/-! driver stub for the compare family (to be written) -/
open OdxVerif
def main : IO Unit := driverMain fun _ => "(not-implemented)"
